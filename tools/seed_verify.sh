#!/bin/bash
# usage: tools/seed_verify.sh Cxx [out-dir]   -- confirms a sub-agent's seeded change and runs our check against it
# 1. fresh scratch worktree: demo passes without the change, fails with it; the touched packages' own tests pass with it
# 2. applies the change to /repo, runs ./check Cxx, undoes it straight away
id="$1"; out="${2:-/tmp/seed_${id}_out}"
export GOFLAGS=-mod=mod GOPROXY=off
w=/tmp/seedv_$id; git -C /repo worktree remove --force $w 2>/dev/null; rm -rf $w
git -C /repo worktree add -q --detach $w HEAD || exit 2
demo_path=$(head -3 $out/demo_test.go | grep -o '[a-zA-Z_/]*/[a-zA-Z_0-9]*_test\.go' | head -1)
[ -z "$demo_path" ] && { echo "cannot find demo path in first lines of demo_test.go"; exit 2; }
pkg=$(dirname $demo_path)
cp $out/demo_test.go $w/$demo_path
echo "== demo on the unchanged tree ($demo_path)"
(cd $w && go test -count=1 -vet=off ./$pkg/ -run 'Seed|seed|Demo|demo' 2>&1 | tail -3)
clean_rc=${PIPESTATUS[0]}
echo "== apply patch"
(cd $w && git apply $out/patch.diff) || { echo "PATCH DOES NOT APPLY"; git -C /repo worktree remove --force $w; exit 2; }
(cd $w && go build ./... ) || { echo "DOES NOT BUILD"; }
echo "== demo with the change"
(cd $w && go test -count=1 -vet=off ./$pkg/ -run 'Seed|seed|Demo|demo' 2>&1 | tail -5)
echo "== existing tests of touched packages (demo removed)"
rm -f $w/$demo_path
pkgs=$(cd $w && git diff --name-only | xargs -n1 dirname | sort -u | sed 's|^|./|;s|$|/|' | tr '\n' ' ')
(cd $w && go test -count=1 -vet=off $pkgs 2>&1 | tail -4)
git -C /repo worktree remove --force $w
echo "== our check on /repo with the change applied"
git -C /repo apply $out/patch.diff && (cd /verif && ./bin/govc check -prop $id -no-evidence 2>&1 | grep -v "^note:" | tail -6 | cut -c1-220); rc=$?
git -C /repo checkout -- . 
git -C /repo status --short | head -3
