#!/bin/bash
# usage: tools/seed_setup.sh Cxx  -- creates an isolated worktree of /repo for a seeding sub-agent (no contract files inside)
id="$1"; d=/tmp/seed_$id
git -C /repo worktree remove --force $d 2>/dev/null; rm -rf $d /tmp/seed_${id}_out
git -C /repo worktree add -q --detach $d HEAD
cd $d && find . -name verif_contracts.go -delete && git -c user.email=x@x -c user.name=seed commit -qam "baseline without contract files" && mkdir -p /tmp/seed_${id}_out && echo "worktree $d ready at $(git log --oneline | head -1)"
