#!/usr/bin/env python3
# Generates /verif/MANIFEST.json from the table in tools/claims.json and properties.jsonl.
import json, subprocess, os
V='/verif'
props=[json.loads(l) for l in open(f'{V}/properties.jsonl')]
claims=json.load(open(f'{V}/tools/claims.json'))
hook_commits=[]
try:
    out=subprocess.run(['git','-C','/repo','log','--format=%H %s'],capture_output=True,text=True).stdout
    for l in out.splitlines():
        h,s=l.split(' ',1)
        if s.startswith('verif:'): hook_commits.append(h)
except Exception: pass
baseline=json.load(open('/root/.vp/BASELINE.json'))['cmd']
m={
 "version":1,
 "setup_cmd":"./setup.sh",
 "hooks":{"guard":"verif","enable":"contract files <pkg>/verif_contracts.go carry //go:build verif and contain only //@ comment lines; govc reads them as text, nothing is compiled in","baseline_off_cmd":baseline,"source_commits":hook_commits,"add_only":True},
 "engines":[{"name":"govc","path":"/verif/govc","serves_properties":sorted(claims['claimed'].keys()),"kind_free_text":"contract-based deductive verifier for Go written for this task: typed-AST (go/packages) forward symbolic execution = weakest preconditions, contracts as //@ comments, obligations discharged by z3 4.8.12 / z3 5.1.0 / cvc5 1.0 raced per obligation, counterexamples replayed on the real code through go test -overlay"}],
 "checks":[], "not_applicable":[],
 "notes":"See DESIGN.md. Every check regenerates every obligation from /repo's current working tree on every run."
}
for p in props:
    pid=p['id']
    if pid in claims['claimed']:
        c=claims['claimed'][pid]
        m['checks'].append({
          "property_id":pid,
          "quick_cmd":f"./check {pid} quick",
          "thorough_cmd":f"./check {pid} thorough",
          "evidence_file":f"/verif/evidence/{pid}.json",
          "replay_cmd_template":"./check --replay {path}",
          "engine":"govc",
          "technique":c.get('technique',"contract-based deductive verification: weakest-precondition obligations over the real Go source, discharged by SMT"),
          "level_claimed":{"category":"proof","text":c['text'],"design_ref":c.get('design_ref','DESIGN.md §3 '+pid)},
          "level_note":c['note'],
        })
    else:
        m['not_applicable'].append({"property_id":pid,"reason":claims['not_applicable'].get(pid,"not claimed yet: no contract within this framework discharges it at the time of this commit")})
json.dump(m,open(f'{V}/MANIFEST.json','w'),indent=1)
print(len(m['checks']),'claimed',len(m['not_applicable']),'not applicable')
