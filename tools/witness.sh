#!/bin/bash
# usage: tools/witness.sh <package dir relative to repo> <test file under /verif> <TestName> [repo]
# Runs a committed witness test in-package through `go test -overlay` (nothing is written under the repo).
pkg="$1"; file="$2"; name="$3"; repo="${4:-/repo}"
tmp=$(mktemp -d /tmp/wit.XXXXXX)
cat > $tmp/ov.json <<EOT
{"Replace": {"$repo/$pkg/zz_verif_witness_test.go": "/verif/$file"}}
EOT
cd "$repo/$pkg" && GOFLAGS=-mod=mod GOPROXY=off go test -overlay $tmp/ov.json -vet=off -count=1 -timeout 120s -run "^$name\$" . 2>&1 | tail -15
rc=${PIPESTATUS[0]}
rm -rf $tmp
exit $rc
