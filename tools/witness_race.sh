#!/bin/bash
# usage: tools/witness_race.sh <package dir> <test file under /verif> <TestName> [attempts] [repo]
# Runs a witness under the Go race detector (through -overlay, nothing is written under the repo), up to
# <attempts> times: exit 1 as soon as one run reports a DATA RACE, exit 0 if none does.
# (The detector only sees races that happen in a run, so an open finding may need several attempts.)
pkg="$1"; file="$2"; name="$3"; n="${4:-10}"; repo="${5:-/repo}"
tmp=$(mktemp -d /tmp/witr.XXXXXX)
cat > $tmp/ov.json <<EOT
{"Replace": {"$repo/$pkg/zz_verif_witness_test.go": "/verif/$file"}}
EOT
rc=0
for i in $(seq 1 $n); do
  (cd "$repo/$pkg" && GOFLAGS=-mod=mod GOPROXY=off go test -race -overlay $tmp/ov.json -vet=off -count=1 -timeout 300s -run "^$name\$" . > $tmp/out.txt 2>&1)
  if grep -q "DATA RACE" $tmp/out.txt; then
    echo "attempt $i: DATA RACE"; grep -A12 "DATA RACE" $tmp/out.txt | grep -v "^      " | head -14; rc=1; break
  fi
  echo "attempt $i: no race reported ($(tail -1 $tmp/out.txt))"
done
rm -rf $tmp
exit $rc
