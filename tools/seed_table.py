#!/usr/bin/env python3
# Regenerates the table of seeded changes in DESIGN.md (between the seedtable markers) from seeded/*/meta.json.
import json,glob,re
rows=[];missed=0;open_=0
for d in sorted(glob.glob('/verif/seeded/*/')):
    m=json.load(open(d+'meta.json'))
    name=d.rstrip('/').split('/')[-1]
    oc=m['our_check']
    ob=re.sub(r'\s+',' ',oc.get('failed_obligations',''))[:170]
    h=oc.get('history','') or ''
    was_missed=('MISSED' in h) or ('missed' in h.lower()[:70])
    cell='caught'
    if 'NOT CAUGHT' in h:
        open_+=1
        cell='**NOT CAUGHT** → '+h.split('NOT CAUGHT:',1)[1].strip()[:320]
    elif was_missed:
        missed+=1
        mm=re.search(r'(?:MISSED|missed)[^:]*:\s*(.*)',h)
        cell='**missed** → '+((mm.group(1) if mm else h)[:300])
    rows.append(f"| {name.replace('_',' ')} | `{ob}` | {cell} |")
table=f"{len(rows)} seeded changes; {missed} of them were missed by the check as it stood when the seed arrived and are caught now; {open_} are still not caught (each names the limit it runs into, and the claim of its property says so).\n\n| seed | failing obligation | first run |\n|---|---|---|\n"+"\n".join(rows)+"\n"
p='/verif/DESIGN.md'; s=open(p).read()
a=s.index('<!-- seedtable:begin -->')+len('<!-- seedtable:begin -->\n'); b=s.index('<!-- seedtable:end -->')
open(p,'w').write(s[:a]+table+s[b:])
print(len(rows),'seeds,',missed,'missed at first,',open_,'not caught')
