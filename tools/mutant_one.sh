#!/bin/bash
# usage: tools/mutant_one.sh sed <prop> <file> <expr> <expect> | patch <prop> <patchfile> <expect> | seeded <prop> <dir> <expect>
# Applies one change to a scratch copy of /repo, runs the property's check on it and prints one verdict line.
cd /verif
kind="$1"; prop="$2"
d=$(mktemp -d /tmp/mutc.XXXXXX)
trap 'rm -rf "$d"' EXIT
rsync -a --exclude .git /repo/ "$d/"
case "$kind" in
sed)
  file="$3"; expr="$4"; expect="$5"; what="$expr"
  sed -i "$expr" "$d/$file"
  if diff -q /repo/$file $d/$file >/dev/null; then echo "NOT-APPLIED $prop $file $expr"; exit 0; fi
  if ! (cd $d && GOFLAGS=-mod=mod GOPROXY=off go build ./$(dirname $file)/ >/dev/null 2>&1); then echo "NO-BUILD $prop $file $expr"; exit 0; fi
  ;;
patch)
  pf="$3"; expect="$4"; what="$pf"
  if ! (cd $d && grep -v '^# ' /verif/$pf | patch -p1 -s >/dev/null 2>&1); then echo "NOT-APPLIED $pf"; exit 0; fi
  if ! (cd $d && GOFLAGS=-mod=mod GOPROXY=off go build ./... >/dev/null 2>&1); then echo "NO-BUILD $pf"; exit 0; fi
  ;;
seeded)
  sd="$3"; expect="$4"; what="seeded $sd"
  if ! (cd $d && patch -p1 -s < /verif/$sd/patch.diff >/dev/null 2>&1); then echo "NOT-APPLIED $sd"; exit 0; fi
  ;;
esac
GOVC_NOREPLAY=1 ./bin/govc check -prop "$prop" -repo "$d" -verif /verif -no-evidence -out "$d/out" >/dev/null 2>&1
rc=$?
verdict=equivalent; [ $rc -eq 1 ] && verdict=caught; [ $rc -ge 2 ] && verdict=fault
[ "$kind" = seeded ] && [ "$verdict" = equivalent ] && verdict=missed
if [ "$expect" = "missed" ] && [ "$kind" = sed ] && [ "$verdict" = "equivalent" ]; then echo "gap  $prop not detected (declined clause): $what"
elif [ "$verdict" = "$expect" ]; then echo "ok   $prop $verdict: $what"
else echo "BAD  $prop expected=$expect got=$verdict: $what"; fi
