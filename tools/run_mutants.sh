#!/bin/bash
# usage: tools/run_mutants.sh [prop]  -- applies every corpus mutant, fix-revert canary and seeded change to a
# scratch copy of /repo (one at a time per job, MUT_JOBS jobs in parallel) and compares the verdict with the expected one.
# Each "caught" change must make the property's check exit 1; each "equivalent" one must leave it at 0.
cd /verif
filter="${1:-}"
jobs=$(mktemp /tmp/mutjobs.XXXXXX)
while IFS=$'\t' read -r prop file expr expect; do
  [[ "$prop" =~ ^# ]] && continue
  [ -z "$prop" ] && continue
  [ -n "$filter" ] && [ "$prop" != "$filter" ] && continue
  printf '%s\0%s\0%s\0%s\0%s\0' sed "$prop" "$file" "$expr" "$expect" >> $jobs
done < mutants/corpus.tsv
for pf in mutants/patches/*.diff; do
  [ -f "$pf" ] || continue
  prop=$(sed -n 's/^# prop: //p' "$pf"); expect=$(sed -n 's/^# expect: //p' "$pf")
  [ -n "$filter" ] && [ "$prop" != "$filter" ] && continue
  printf '%s\0%s\0%s\0%s\0%s\0' patch "$prop" "$pf" "$expect" "-" >> $jobs
done
for sd in seeded/*/; do
  [ -f "$sd/patch.diff" ] || continue
  prop=$(python3 -c "import json;print(json.load(open('$sd/meta.json'))['property'])"); expect=$(python3 -c "import json;print(json.load(open('$sd/meta.json'))['our_check']['verdict'])")
  [ -n "$filter" ] && [ "$prop" != "$filter" ] && continue
  printf '%s\0%s\0%s\0%s\0%s\0' seeded "$prop" "$sd" "$expect" "-" >> $jobs
done
out=$(mktemp /tmp/mutout.XXXXXX)
xargs -0 -n 5 -P "${MUT_JOBS:-4}" tools/mutant_one.sh < $jobs | tee $out
ok=$(grep -c "^ok \|^gap " $out); bad=$(grep -vc "^ok \|^gap " $out)
rm -f $jobs $out
echo "mutants: $ok as expected, $bad unexpected"
[ $bad -eq 0 ]
