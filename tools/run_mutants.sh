#!/bin/bash
# usage: tools/run_mutants.sh [prop]  -- applies every corpus mutant to a scratch copy of /repo and checks the verdict
# Each "caught" mutant must make the property's check exit 1; each "equivalent" one must leave it at 0.
cd /verif
filter="${1:-}"
ok=0; bad=0
while IFS=$'\t' read -r prop file expr expect; do
  [[ "$prop" =~ ^# ]] && continue
  [ -z "$prop" ] && continue
  [ -n "$filter" ] && [ "$prop" != "$filter" ] && continue
  d=$(mktemp -d /tmp/mutc.XXXXXX)
  rsync -a --exclude .git /repo/ "$d/"
  sed -i "$expr" "$d/$file"
  if diff -q /repo/$file $d/$file >/dev/null; then echo "NOT-APPLIED $prop $file $expr"; bad=$((bad+1)); rm -rf $d; continue; fi
  if ! (cd $d && GOFLAGS=-mod=mod GOPROXY=off go build ./$(dirname $file)/ >/dev/null 2>&1); then echo "NO-BUILD $prop $file $expr"; bad=$((bad+1)); rm -rf $d; continue; fi
  GOVC_NOREPLAY=1 ./bin/govc check -prop "$prop" -repo "$d" -verif /verif -no-evidence -out "$d/out" >/dev/null 2>&1
  rc=$?
  rm -rf "$d"
  verdict=equivalent; [ $rc -eq 1 ] && verdict=caught; [ $rc -ge 2 ] && verdict=fault
  if [ "$expect" = "missed" ] && [ "$verdict" = "equivalent" ]; then ok=$((ok+1)); echo "gap  $prop not detected (declined clause): $expr"; elif [ "$verdict" = "$expect" ]; then ok=$((ok+1)); echo "ok   $prop $verdict: $expr"; else bad=$((bad+1)); echo "BAD  $prop expected=$expect got=$verdict: $file $expr"; fi
done < mutants/corpus.tsv
for pf in mutants/patches/*.diff; do
  [ -f "$pf" ] || continue
  prop=$(sed -n 's/^# prop: //p' "$pf"); expect=$(sed -n 's/^# expect: //p' "$pf")
  [ -n "$filter" ] && [ "$prop" != "$filter" ] && continue
  d=$(mktemp -d /tmp/mutc.XXXXXX)
  rsync -a --exclude .git /repo/ "$d/"
  if ! (cd $d && grep -v '^# ' /verif/$pf | patch -p1 -s >/dev/null 2>&1); then echo "NOT-APPLIED $pf"; bad=$((bad+1)); rm -rf $d; continue; fi
  if ! (cd $d && GOFLAGS=-mod=mod GOPROXY=off go build ./... >/dev/null 2>&1); then echo "NO-BUILD $pf"; bad=$((bad+1)); rm -rf $d; continue; fi
  GOVC_NOREPLAY=1 ./bin/govc check -prop "$prop" -repo "$d" -verif /verif -no-evidence -out "$d/out" >/dev/null 2>&1
  rc=$?
  rm -rf "$d"
  verdict=equivalent; [ $rc -eq 1 ] && verdict=caught; [ $rc -ge 2 ] && verdict=fault
  if [ "$verdict" = "$expect" ]; then ok=$((ok+1)); echo "ok   $prop $verdict: $pf"; else bad=$((bad+1)); echo "BAD  $prop expected=$expect got=$verdict: $pf"; fi
done
for sd in seeded/*/; do
  [ -f "$sd/patch.diff" ] || continue
  prop=$(python3 -c "import json;print(json.load(open('$sd/meta.json'))['property'])"); expect=$(python3 -c "import json;print(json.load(open('$sd/meta.json'))['our_check']['verdict'])")
  [ -n "$filter" ] && [ "$prop" != "$filter" ] && continue
  d=$(mktemp -d /tmp/mutc.XXXXXX)
  rsync -a --exclude .git /repo/ "$d/"
  if ! (cd $d && patch -p1 -s < /verif/$sd/patch.diff >/dev/null 2>&1); then echo "NOT-APPLIED $sd"; bad=$((bad+1)); rm -rf $d; continue; fi
  GOVC_NOREPLAY=1 ./bin/govc check -prop "$prop" -repo "$d" -verif /verif -no-evidence -out "$d/out" >/dev/null 2>&1
  rc=$?
  rm -rf "$d"
  verdict=missed; [ $rc -eq 1 ] && verdict=caught; [ $rc -ge 2 ] && verdict=fault
  if [ "$verdict" = "$expect" ]; then ok=$((ok+1)); echo "ok   $prop seeded $verdict: $sd"; else bad=$((bad+1)); echo "BAD  $prop seeded expected=$expect got=$verdict: $sd"; fi
done
echo "mutants: $ok as expected, $bad unexpected"
[ $bad -eq 0 ]
