#!/bin/bash
# Copies the contract mirror into /repo (comment-only files behind the build tag `verif`).
# Commit the result in /repo with a subject starting "verif:".
cd /verif/contracts
find . -name verif_contracts.go | while read f; do
  mkdir -p /repo/$(dirname $f)
  if ! cmp -s $f /repo/$f; then cp $f /repo/$f; echo "synced $f"; fi
done
cd /repo && gofmt -l $(git ls-files -o -m --exclude-standard | grep verif_contracts.go) 2>/dev/null
git -C /repo status --short | head
