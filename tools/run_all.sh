#!/bin/bash
# runs every claimed check (quick) and prints one line each
cd /verif
for p in $(python3 -c "import json;print(' '.join(c['property_id'] for c in json.load(open('MANIFEST.json'))['checks']))"); do
  out=$(./check $p ${1:-quick} 2>&1); rc=$?
  echo "rc=$rc $(echo "$out" | grep "^$p " | tail -1)"
  echo "$out" | grep "^VIOLATION\|ENGINE-FAULT\|CONTRACT-ERROR" | head -3
done
