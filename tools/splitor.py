#!/usr/bin/env python3
# debug aid: split the final (assert (or ...)) of an obligation into disjuncts and solve each
import sys,subprocess
f=sys.argv[1]
lines=open(f).read().split('\n')
idx=[i for i,l in enumerate(lines) if l.startswith('(assert (or ')][-1]
body=lines[idx][len('(assert (or '):-2]
parts=[];d=0;cur=''
for ch in body:
    if ch=='(':d+=1
    if ch==')':d-=1
    cur+=ch
    if d==0 and ch==')':
        parts.append(cur.strip());cur=''
for k,p in enumerate(parts):
    s='\n'.join(lines[:idx]+['(assert '+p+')','(check-sat)','(get-model)'])
    open('/tmp/p%d.smt2'%k,'w').write(s)
    r=subprocess.run(['z3-new','-T:10','/tmp/p%d.smt2'%k],capture_output=True,text=True).stdout
    print(k,r.split('\n')[0])
    if r.startswith('sat') and len(sys.argv)>2:
        print(p[:600]+' ...')
        import re
        for m in re.finditer(r'\(define-fun (\S+) \(\) (Int|Bool|String|Real)\s+([^\n]*)\)', r):
            print('  ',m.group(1),'=',m.group(3)[:60])
