#!/bin/bash
# usage: tools/mut.sh <prop> <relative file> <sed expression>   -- try a one-off mutant on a scratch copy
prop="$1"; file="$2"; expr="$3"
d=$(mktemp -d /tmp/mut.XXXXXX)
rsync -a --exclude .git /repo/ "$d/"
sed -i "$expr" "$d/$file"
if diff -q /repo/$file $d/$file >/dev/null; then echo "MUTANT DID NOT APPLY"; rm -rf "$d"; exit 3; fi
(cd $d && GOFLAGS=-mod=mod GOPROXY=off go build ./$(dirname $file)/ 2>&1 | head -5)
/verif/bin/govc check -prop "$prop" -repo "$d" -verif /verif -no-evidence -out "$d/out" 2>&1 | grep -v "^  ensures\|^  requires" | tail -${4:-6}
rc=${PIPESTATUS[0]}
rm -rf "$d"
exit $rc
