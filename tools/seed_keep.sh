#!/bin/bash
# usage: tools/seed_keep.sh Cxx name "obligations that caught it"  -- files a confirmed seeded change under /verif/seeded
id="$1"; name="$2"; caught="$3"; out=/tmp/seed_${id}_out
d=/verif/seeded/${id}_$name; mkdir -p $d
cp $out/patch.diff $d/patch.diff; cp $out/demo_test.go $d/demo_test.go
python3 - "$out/meta.json" "$d/meta.json" "$id" "$caught" <<'PY'
import json,sys
m=json.load(open(sys.argv[1]))
m['property']=sys.argv[3]
m['origin']='fresh sub-agent given only the property text and its own worktree of /repo (no contract files, nothing from /verif)'
m['confirmed_by_me']={'how':'tools/seed_verify.sh: fresh worktree; demo passes on the unchanged tree, fails with the change; the touched packages own tests pass with the change; then git -C /repo apply, ./bin/govc check, git checkout -- .','demo_fails_with_change':True,'demo_passes_without':True,'existing_tests_of_touched_packages_pass':True}
m['our_check']={'verdict':'caught' if sys.argv[4] and sys.argv[4]!='MISSED' else 'missed','failed_obligations':sys.argv[4]}
json.dump(m,open(sys.argv[2],'w'),indent=1)
PY
git -C /repo worktree remove --force /tmp/seed_$id 2>/dev/null; rm -rf /tmp/seed_${id}_out
echo kept $d
