#!/bin/bash
# Builds govc from source on disk (offline) and warms the Go build cache for /repo.
set -e
cd "$(dirname "$0")"
export GOFLAGS=-mod=mod GOPROXY=off
mkdir -p bin
(cd govc && go build -o ../bin/govc .)
./bin/govc warm
