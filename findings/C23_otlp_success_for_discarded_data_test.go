package route

// Witness for C23 (fixed): when the environment lookup for the API key failed, the
// OTLP processors returned nil, so the client was answered "success" for data that
// was discarded without being processed.

import (
	"context"
	"errors"
	"testing"
	"time"

	huskyotlp "github.com/honeycombio/husky/otlp"
	"github.com/honeycombio/refinery/config"
	"github.com/honeycombio/refinery/logger"
	"github.com/honeycombio/refinery/metrics"
)

func TestVerifC23OTLPLookupFailureIsAnError(t *testing.T) {
	r := &Router{Config: &config.MockConfig{}, Logger: &logger.NullLogger{}, Metrics: &metrics.NullMetrics{}}
	r.SetEnvironmentCache(time.Minute, func(string) (string, error) { return "", errors.New("auth service unavailable") })
	key := "hcaik_01hq3y9c8e1v5w2x7z4b6d0f9g01hq3y9c8e1v5w2x7z4b6d0f9g01hq3y9c" // a non-classic key: needs the lookup
	batches := []huskyotlp.Batch{{Dataset: "ds", Events: []huskyotlp.Event{{Attributes: map[string]any{"trace.trace_id": "t1"}, SampleRate: 1, Timestamp: time.Now()}}}}
	if err := r.processOTLPRequest(context.Background(), batches, key, "ua"); err == nil {
		t.Fatalf("processOTLPRequest returned success although the environment lookup failed and no event was processed")
	}
	if err := r.processOTLPRequestBatchMsgp(context.Background(), []huskyotlp.BatchMsgp{{Dataset: "ds"}}, key, "ua"); err == nil {
		t.Fatalf("processOTLPRequestBatchMsgp returned success although the environment lookup failed")
	}
}
