package sample

// Witness for C09: the dynamic samplers' key is built from the text of each key field's values. A float64 is
// written in plain decimal notation ('f', shortest digits), but a float32 - what msgpack decoding yields for a
// float a client encoded in 32 bits - fell through to %v: fewer digits and exponent notation, so the same number
// gave a different key (and with it a different sample rate) depending on the width it was encoded in.
// tools/witness.sh sample findings/C09_trace_key_float32_reads_differently_test.go TestVerifC09KeyTextByValue

import "testing"

func TestVerifC09KeyTextByValue(t *testing.T) {
	text := func(v any) string {
		d := &distinctValue{}
		d.Reset([]string{"f"}, maxKeyLength)
		d.AddAsString(v, 0)
		vals := d.Values(0)
		if len(vals) != 1 {
			t.Fatalf("%T(%v): %d values", v, v, len(vals))
		}
		return vals[0]
	}
	same := [][]any{
		{float64(float32(0.1)), float32(0.1)},
		{float64(float32(1e21)), float32(1e21)},
		{int64(7), uint64(7), float64(7), float32(7)},
	}
	for _, group := range same {
		want := text(group[0])
		for _, v := range group[1:] {
			if got := text(v); got != want {
				t.Errorf("key text of %T(%v) is %q but of %T(%v) is %q: the same number", v, v, got, group[0], group[0], want)
			}
		}
	}
}
