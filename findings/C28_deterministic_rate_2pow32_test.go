package sample

// Witness for C28 (fixed): DeterministicSampler.SampleRate has no upper validation
// bound; 4294967296 became 0 after the uint32 conversion and Start divided by zero.

import (
	"testing"

	"github.com/honeycombio/refinery/config"
	"github.com/honeycombio/refinery/logger"
	"github.com/honeycombio/refinery/metrics"
)

func TestVerifC28DeterministicHugeRate(t *testing.T) {
	defer func() {
		if r := recover(); r != nil {
			t.Fatalf("DeterministicSampler.Start panicked: %v", r)
		}
	}()
	d := &DeterministicSampler{Config: &config.DeterministicSamplerConfig{SampleRate: 1 << 32}, Logger: &logger.NullLogger{}, Metrics: &metrics.NullMetrics{}}
	if err := d.Start(); err != nil {
		t.Fatal(err)
	}
}
