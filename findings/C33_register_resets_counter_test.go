package metrics

// Witness for C33 (fixed): MultiMetrics.Register on a metric that already has a
// value replaced its cell by a fresh zero one.

import "testing"

func TestVerifC33RegisterKeepsValues(t *testing.T) {
	m := NewMultiMetrics()
	md := Metadata{Name: "c", Type: Counter}
	m.Register(md)
	m.Increment("c")
	m.Increment("c")
	m.Register(md) // e.g. a second sampler of the same kind registering lazily
	if v, _ := m.Get("c"); v != 2 {
		t.Fatalf("counter c read back as %v after re-registration, want 2", v)
	}
	g := Metadata{Name: "g", Type: Gauge}
	m.Gauge("g", 7)
	m.Register(g)
	if v, _ := m.Get("g"); v != 7 {
		t.Fatalf("gauge g read back as %v after registration, want 7", v)
	}
	u := Metadata{Name: "u", Type: UpDown}
	m.Up("u")
	m.Register(u)
	if v, _ := m.Get("u"); v != 1 {
		t.Fatalf("updown u read back as %v after registration, want 1", v)
	}
}
