package peer

// Witness for C35 (race detector): RedisPubsubPeers.checkHash - run on the pubsub subscription goroutine for every
// membership message - assigned p.hash and ranged over p.callbacks with no synchronization, while
//   - the goroutine started by Ready reads p.hash for its periodic "peer report" (every 25-35 s), and
//   - RegisterUpdatedPeersCallback appends to p.callbacks from the goroutine that starts the sharder and the
//     sampler factory, after Start has already subscribed (membership messages of other peers arrive at any time).
// tools/witness_race.sh internal/peer findings/C35_peer_hash_and_callbacks_race_test.go TestVerifC35PeerHashAndCallbacksRace

import (
	"context"
	"fmt"
	"sync"
	"testing"
	"time"

	"github.com/honeycombio/refinery/config"
	"github.com/honeycombio/refinery/logger"
	"github.com/honeycombio/refinery/metrics"
	"github.com/honeycombio/refinery/pubsub"
	"github.com/jonboulle/clockwork"
)

func TestVerifC35PeerHashAndCallbacksRace(t *testing.T) {
	clock := clockwork.NewFakeClock()
	ps := &pubsub.LocalPubSub{Config: &config.MockConfig{}, Metrics: &metrics.NullMetrics{}}
	ps.Start()
	defer ps.Stop()
	done := make(chan struct{})
	p := &RedisPubsubPeers{
		Config:     &config.MockConfig{GetPeerListenAddrVal: "0.0.0.0:8081", PeerManagementType: "redis", RedisIdentifier: "me", PeerTimeout: time.Second},
		Metrics:    &metrics.NullMetrics{},
		Logger:     &logger.NullLogger{},
		PubSub:     ps,
		Clock:      clock,
		InstanceID: "self",
		Done:       done,
	}
	if err := p.Start(); err != nil {
		t.Fatal(err)
	}
	if err := p.Ready(); err != nil {
		t.Fatal(err)
	}
	var wg sync.WaitGroup
	wg.Add(3)
	// membership messages, as the subscription delivers them
	go func() {
		defer wg.Done()
		for i := 0; i < 400; i++ {
			p.listen(context.Background(), newPeerCommand(Register, fmt.Sprintf("http://peer%d:8081", i%7), fmt.Sprintf("id%d", i%7)).marshal())
			p.listen(context.Background(), newPeerCommand(Unregister, fmt.Sprintf("http://peer%d:8081", i%7), fmt.Sprintf("id%d", i%7)).marshal())
		}
	}()
	// components registering for membership changes while they start
	go func() {
		defer wg.Done()
		for i := 0; i < 200; i++ {
			p.RegisterUpdatedPeersCallback(func() {})
		}
	}()
	// the periodic peer report of the Ready goroutine
	go func() {
		defer wg.Done()
		for i := 0; i < 200; i++ {
			clock.Advance(36 * time.Second)
			time.Sleep(100 * time.Microsecond)
		}
	}()
	wg.Wait()
	close(done)
	time.Sleep(10 * time.Millisecond)
}
