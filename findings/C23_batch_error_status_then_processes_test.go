package route

// Witness for C23 (fixed): batch() answered an invalid dataset name with an error
// status and then carried on: the events were processed and a second body followed.

import (
	"bytes"
	"net/http"
	"net/http/httptest"
	"strings"
	"testing"

	"github.com/gorilla/mux"
	"github.com/honeycombio/refinery/collect"
	"github.com/honeycombio/refinery/config"
	"github.com/honeycombio/refinery/logger"
	"github.com/honeycombio/refinery/metrics"
	"github.com/honeycombio/refinery/sharder"
	"github.com/honeycombio/refinery/transmit"
	"github.com/honeycombio/refinery/types"
)

func TestVerifC23BatchErrorStatusMeansNothingProcessed(t *testing.T) {
	up := &transmit.MockTransmission{}
	up.Start()
	peer := &transmit.MockTransmission{}
	peer.Start()
	coll := collect.NewMockCollector()
	cfg := &config.MockConfig{TraceIdFieldNames: []string{"trace.trace_id"}, ParentIdFieldNames: []string{"trace.parent_id"}}
	r := &Router{
		Config: cfg, Logger: &logger.NullLogger{}, Metrics: &metrics.NullMetrics{},
		UpstreamTransmission: up, PeerTransmission: peer, Collector: coll,
		Sharder:    &sharder.MockSharder{Self: &sharder.TestShard{Addr: "http://self:8081"}},
		routerType: types.RouterTypeIncoming,
	}
	r.iopLogger = iopLogger{Logger: r.Logger, incomingOrPeer: "incoming"}
	body := `[{"data":{"trace.trace_id":"t1","a":1}},{"data":{"trace.trace_id":"t2","a":2}},{"data":{"trace.trace_id":"t3","a":3}}]`
	req := httptest.NewRequest("POST", "/1/batch/x", bytes.NewBufferString(body))
	req.Header.Set("Content-Type", "application/json")
	req.Header.Set("X-Honeycomb-Team", "c9945edf5d245834089a1bd6cc9ad01e")
	req = mux.SetURLVars(req, map[string]string{"datasetName": "bad%zzescape"})
	w := httptest.NewRecorder()
	r.batch(w, req)
	if w.Code == http.StatusOK {
		t.Fatalf("setup: expected an error status for the invalid dataset name, got 200")
	}
	processed := len(coll.Spans) + len(up.Events) + len(peer.Events)
	if processed != 0 || strings.Contains(w.Body.String(), `"status":202`) {
		t.Fatalf("status %d was answered for the whole request, yet %d events were processed; body: %s", w.Code, processed, w.Body.String())
	}
}
