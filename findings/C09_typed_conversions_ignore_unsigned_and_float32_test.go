package config

// Witness for C09: with Datatype int or float a rule converts the span's value with tryConvertToInt /
// tryConvertToFloat, which refused uint64 and float32 - the types msgpack decoding produces for integers
// encoded unsigned and for 32-bit floats - so `status >= 500` (Datatype int) never matched a span whose
// client happened to encode 500 as an unsigned integer.
// tools/witness.sh config findings/C09_typed_conversions_ignore_unsigned_and_float32_test.go TestVerifC09TypedConversionsByValue

import "testing"

func TestVerifC09TypedConversionsByValue(t *testing.T) {
	for _, v := range []any{int(500), int64(500), uint64(500), float64(500), float32(500)} {
		if n, ok := tryConvertToInt(v); !ok || n != 500 {
			t.Errorf("tryConvertToInt(%T(%v)) = (%d, %v), want (500, true)", v, v, n, ok)
		}
		if f, ok := tryConvertToFloat(v); !ok || f != 500 {
			t.Errorf("tryConvertToFloat(%T(%v)) = (%v, %v), want (500, true)", v, v, f, ok)
		}
	}
	c := &RulesBasedSamplerCondition{Field: "status", Operator: GTE, Value: 500, Datatype: "int"}
	if err := c.Init(); err != nil {
		t.Fatal(err)
	}
	for _, v := range []any{int64(500), uint64(500), float64(500), float32(500)} {
		if !c.Matches(v, true) {
			t.Errorf("status >= 500 (Datatype int) does not match %T(%v)", v, v)
		}
	}
}
