package sample

// Witness for the open finding F-C12-1: two sampler definitions under one rules
// sampler that differ in tuning parameters (ClearFrequency, MaxKeys,
// UseTraceLength) share one dynsampler instance, because the registry key is
// built from prefix, type, rate and field list only.

import (
	"testing"
	"time"

	"github.com/honeycombio/refinery/config"
	"github.com/honeycombio/refinery/logger"
	"github.com/honeycombio/refinery/metrics"
)

func TestVerifC12DifferentDefinitionsDoNotShareState(t *testing.T) {
	f := &SamplerFactory{Config: &config.MockConfig{}, Logger: &logger.NullLogger{}, Metrics: &metrics.NullMetrics{}}
	if err := f.Start(); err != nil {
		t.Fatal(err)
	}
	a := &config.DynamicSamplerConfig{SampleRate: 10, FieldList: []string{"service"}, ClearFrequency: config.Duration(10 * time.Second), MaxKeys: 100}
	b := &config.DynamicSamplerConfig{SampleRate: 10, FieldList: []string{"service"}, ClearFrequency: config.Duration(5 * time.Minute), MaxKeys: 5000, UseTraceLength: true}
	sa := f.createSampler(a, "rules:env:").(*DynamicSampler)
	sb := f.createSampler(b, "rules:env:").(*DynamicSampler)
	if sa.dynsampler == sb.dynsampler {
		t.Fatalf("two different DynamicSampler definitions share one dynsampler instance (%p)", sa.dynsampler)
	}
}
