package config

// Witness for C09: conditions that compare text (Datatype string, contains, starts-with, in, regexp) format the
// span's value with convertToString, which used %v: a float64 prints in exponent notation from 1e+06 up and a
// float32 prints with fewer digits than the same number held in a float64. JSON numbers always arrive as float64,
// msgpack integers as int64/uint64, so `account = 1000000` (Datatype string) matched a span sent by a msgpack
// client and not the same span sent as JSON.
// tools/witness.sh config findings/C09_string_form_of_a_number_depends_on_its_type_test.go TestVerifC09StringFormByValue

import "testing"

func TestVerifC09StringFormByValue(t *testing.T) {
	same := [][]any{
		{int64(1000000), uint64(1000000), float64(1000000), float32(1000000)},
		{int64(123456789), float64(123456789)},
		{float32(0.1), float64(float32(0.1))},
		{float32(2.5e-05), float64(float32(2.5e-05))},
	}
	for _, group := range same {
		want := convertToString(group[0])
		for _, v := range group[1:] {
			if got := convertToString(v); got != want {
				t.Errorf("convertToString(%T(%v)) = %q but convertToString(%T(%v)) = %q: the same number", v, v, got, group[0], group[0], want)
			}
		}
	}
	c := &RulesBasedSamplerCondition{Field: "account", Operator: EQ, Value: 1000000, Datatype: "string"}
	if err := c.Init(); err != nil {
		t.Fatal(err)
	}
	for _, v := range []any{int64(1000000), float64(1000000)} {
		if !c.Matches(v, true) {
			t.Errorf("account = 1000000 (Datatype string) does not match %T(%v)", v, v)
		}
	}
}
