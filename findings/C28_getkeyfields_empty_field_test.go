package config

// Witness for C28 (fixed): a FieldList containing an empty string passes
// validation (`notempty` only tests scalars) and made GetKeyFields panic with an
// index out of range in a collector worker.

import "testing"

func TestVerifC28GetKeyFieldsEmptyField(t *testing.T) {
	defer func() {
		if r := recover(); r != nil {
			t.Fatalf("GetKeyFields panicked on an empty field name: %v", r)
		}
	}()
	all, nonRoot := GetKeyFields([]string{"", "service.name", "root.http.status"})
	if len(all) != 2 || len(nonRoot) != 1 {
		t.Fatalf("unexpected result %v %v", all, nonRoot)
	}
}
