package config

// Witness for C27 (fixed): a configuration that start-up accepts with a warning
// (a deprecated option) was refused by every later Reload, so a changed, acceptable
// file was never applied and no listener was notified.

import (
	"os"
	"path/filepath"
	"testing"
)

func TestVerifC27ReloadAppliesWarningOnlyConfig(t *testing.T) {
	dir := t.TempDir()
	cfgFile := filepath.Join(dir, "config.yaml")
	rulesFile := filepath.Join(dir, "rules.yaml")
	write := func(dryRun string) {
		body := "General:\n  ConfigurationVersion: 2\nCollection:\n  CacheCapacity: 1000\nDebugging:\n  DryRun: " + dryRun + "\n"
		if err := os.WriteFile(cfgFile, []byte(body), 0o644); err != nil {
			t.Fatal(err)
		}
	}
	write("false")
	if err := os.WriteFile(rulesFile, []byte("RulesVersion: 2\nSamplers:\n  __default__:\n    DeterministicSampler:\n      SampleRate: 1\n"), 0o644); err != nil {
		t.Fatal(err)
	}
	opts, err := NewCmdEnvOptions([]string{"--config", cfgFile, "--rules_config", rulesFile})
	if err != nil {
		t.Fatal(err)
	}
	c, err := NewConfig(opts)
	if c == nil {
		t.Fatalf("start-up rejected the configuration: %v", err)
	}
	if err == nil {
		t.Skip("the configuration produced no warning; the scenario needs a warning-only config")
	}
	notified := 0
	c.RegisterReloadCallback(func(configHash, ruleCfgHash string) { notified++ })
	if c.GetIsDryRun() {
		t.Fatal("setup: DryRun should start false")
	}
	write("true")
	reloadErr := c.(*fileConfig).Reload()
	if !c.GetIsDryRun() || notified != 1 {
		t.Fatalf("a changed configuration that start-up accepts (with a warning) was not applied by Reload: DryRun=%v notified=%d err=%v", c.GetIsDryRun(), notified, reloadErr)
	}
}
