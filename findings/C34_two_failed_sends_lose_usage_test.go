package agent

// Witness for C34 (fixed): after two consecutive failed sends the usage of the
// first interval was dropped (NewReport overwrote lastDataPoints).

import (
	"strings"
	"testing"
	"time"
)

func TestVerifC34FailedSendsKeepUsage(t *testing.T) {
	ur := newUsageTracker()
	now := time.Unix(1700000000, 0)
	total := 0.0
	deliver := func(ok bool) float64 {
		data, err := ur.NewReport("refinery", "v", "host", now)
		if err != nil {
			t.Fatalf("NewReport: %v", err)
		}
		sum := 0.0
		// every data point is {"asInt":"<n>"}; add them up
		for _, part := range strings.Split(string(data), `"asInt":"`)[1:] {
			n := 0.0
			for _, c := range part {
				if c < '0' || c > '9' {
					break
				}
				n = n*10 + float64(c-'0')
			}
			sum += n
		}
		if ok {
			ur.completeSend()
			total += sum
		}
		return sum
	}
	ur.Add(signal_traces, 10)
	deliver(false) // send fails
	ur.Add(signal_traces, 40)
	deliver(false) // send fails again
	ur.Add(signal_traces, 100)
	deliver(true) // delivered
	if total != 100 {
		t.Fatalf("counter grew by 100 and nothing is pending, but delivered reports carry %v", total)
	}
}
