package config

// Witness for C08: "If the field is not present, then the condition will not match" (rules.md), yet the typed
// comparison functions built at start-up answered true for an absent field with Datatype string and operator
// != / < / <=, with does-not-contain, with not-in, and with contains "nil" (the absent value was formatted as "<nil>").
// tools/witness.sh config findings/C08_absent_field_matches_typed_operators_test.go TestVerifC08AbsentFieldNeverMatches

import "testing"

func TestVerifC08AbsentFieldNeverMatches(t *testing.T) {
	cases := []RulesBasedSamplerCondition{
		{Field: "f", Operator: NEQ, Value: "x", Datatype: "string"},
		{Field: "f", Operator: LT, Value: "x", Datatype: "string"},
		{Field: "f", Operator: LTE, Value: "x", Datatype: "string"},
		{Field: "f", Operator: DoesNotContain, Value: "x"},
		{Field: "f", Operator: Contains, Value: "nil"},
		{Field: "f", Operator: StartsWith, Value: "<"},
		{Field: "f", Operator: NotIn, Value: []any{"a", "b"}},
		{Field: "f", Operator: In, Value: []any{"<nil>"}},
		{Field: "f", Operator: MatchesRegexp, Value: "n.l"},
	}
	for i := range cases {
		c := &cases[i]
		if err := c.Init(); err != nil {
			t.Fatalf("%s: Init: %v", c.Operator, err)
		}
		if c.Matches == nil {
			continue
		}
		if c.Matches(nil, false) {
			t.Errorf("operator %q (datatype %q, value %v) matches a field that is absent", c.Operator, c.Datatype, c.Value)
		}
	}
}
