package sample

// Witness for C09: compare(), which decides the untyped rule operators (=, !=, <, <=, >, >=), only knew the
// dynamic types int64 / float64 (left) and int / int64 / float64 (right). msgpack decoding (msgp.ReadIntfBytes)
// yields uint64 for integers a client encoded unsigned and float32 for 32-bit floats, so the same number
// compared as "not comparable" depending on how the client encoded it.
// tools/witness.sh sample findings/C09_compare_ignores_unsigned_and_float32_test.go TestVerifC09CompareByValue

import "testing"

func TestVerifC09CompareByValue(t *testing.T) {
	cases := []struct {
		a, b any
		want int
	}{
		{float64(0), uint64(0), 0},
		{uint64(200), int(200), 0},
		{uint64(200), int64(100), 1},
		{float32(1.5), float64(1.5), 0},
		{float32(1.5), int(2), -1},
		{int64(3), uint64(2), 1},
		{int64(3), float32(3), 0},
	}
	for _, c := range cases {
		got, ok := compare(c.a, c.b)
		if !ok || got != c.want {
			t.Errorf("compare(%T(%v), %T(%v)) = (%d, %v), want (%d, true)", c.a, c.a, c.b, c.b, got, ok, c.want)
		}
	}
}
