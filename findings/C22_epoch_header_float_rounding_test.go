package route

// Witness for C22 (fixed): millisecond / microsecond / nanosecond epoch values in the
// event-time header went through float64 and lost the exact instant.

import (
	"testing"
	"time"
)

func TestVerifC22EpochHeaderExact(t *testing.T) {
	cases := map[string]time.Time{
		"1535589382":          time.Unix(1535589382, 0),
		"1535589382641":       time.Unix(1535589382, 641000000),
		"6735714409478":       time.Unix(6735714409, 478000000),
		"1535589382641123":    time.Unix(1535589382, 641123000),
		"1535589382641123456": time.Unix(1535589382, 641123456),
	}
	for h, want := range cases {
		if got := getEventTime(h); !got.Equal(want) {
			t.Errorf("getEventTime(%q) = %d.%09d, want %d.%09d", h, got.Unix(), got.Nanosecond(), want.Unix(), want.Nanosecond())
		}
	}
}
