package collect

// Witness for the open finding F-C36-1 (fails while the finding is open): a span buffered in a worker when
// the collector is stopped gracefully is neither decided nor forwarded - the worker loop returns as soon as
// its input channel is closed.
// tools/witness.sh collect findings/C36_shutdown_drops_buffered_traces_test.go TestVerifC36ShutdownDecidesBufferedTraces

import (
	"testing"
	"time"

	"github.com/jonboulle/clockwork"
	"github.com/stretchr/testify/require"
	"go.opentelemetry.io/otel/trace/noop"

	"github.com/honeycombio/refinery/config"
	"github.com/honeycombio/refinery/internal/health"
	"github.com/honeycombio/refinery/internal/peer"
	"github.com/honeycombio/refinery/logger"
	"github.com/honeycombio/refinery/metrics"
	"github.com/honeycombio/refinery/pubsub"
	"github.com/honeycombio/refinery/sample"
	"github.com/honeycombio/refinery/sharder"
	"github.com/honeycombio/refinery/transmit"
	"github.com/honeycombio/refinery/types"
)

func TestVerifC36ShutdownDecidesBufferedTraces(t *testing.T) {
	conf := &config.MockConfig{
		GetTracesConfigVal: config.TracesConfig{
			SendTicker:   config.Duration(2 * time.Millisecond),
			SendDelay:    config.Duration(10 * time.Second),
			TraceTimeout: config.Duration(60 * time.Second),
			MaxBatchSize: 500,
		},
		SampleCache:        config.SampleCacheConfig{KeptSize: 100, DroppedSize: 100, SizeCheckInterval: config.Duration(1 * time.Second)},
		GetSamplerTypeVal:  &config.DeterministicSamplerConfig{SampleRate: 1}, // keep everything
		TraceIdFieldNames:  []string{"trace.trace_id", "traceId"},
		ParentIdFieldNames: []string{"trace.parent_id", "parentId"},
		GetCollectionConfigVal: config.CollectionConfig{WorkerCount: 2, ShutdownDelay: config.Duration(1 * time.Millisecond), IncomingQueueSize: 5, PeerQueueSize: 5},
	}
	transmission := &transmit.MockTransmission{}
	require.NoError(t, transmission.Start())
	peerTransmission := &transmit.MockTransmission{}
	require.NoError(t, peerTransmission.Start())
	s := &metrics.MockMetrics{}
	s.Start()
	clock := clockwork.NewRealClock()
	healthReporter := &health.Health{Clock: clock}
	healthReporter.Start()
	localPubSub := &pubsub.LocalPubSub{Config: conf, Metrics: s}
	localPubSub.Start()
	sf := &sample.SamplerFactory{Config: conf, Metrics: s, Logger: &logger.NullLogger{}}
	require.NoError(t, sf.Start())
	c := &InMemCollector{
		TestMode: true, Config: conf, Clock: clock, Logger: &logger.NullLogger{},
		Tracer: noop.NewTracerProvider().Tracer("test"), Health: healthReporter,
		Transmission: transmission, PeerTransmission: peerTransmission, PubSub: localPubSub, Metrics: s,
		StressRelief: &MockStressReliever{}, SamplerFactory: sf, done: make(chan struct{}),
		Peers:   peer.NewMockPeers([]string{"api1", "api2"}, "api1"),
		Sharder: &sharder.MockSharder{Self: &sharder.TestShard{Addr: "api1"}, Other: &sharder.TestShard{Addr: "api2"}},
	}
	require.NoError(t, c.Start())

	// one span of a trace whose root has not arrived: it stays buffered (deadline 60 s away)
	require.NoError(t, c.AddSpan(&types.Span{
		TraceID: "trace-still-buffered-at-shutdown",
		Event:   &types.Event{Dataset: "aoeu", APIKey: legacyAPIKey},
	}))
	time.Sleep(50 * time.Millisecond) // let the worker take it into its buffer

	require.NoError(t, c.Stop()) // graceful shutdown

	events := transmission.GetBlock(0)
	if len(events) != 1 {
		t.Errorf("graceful shutdown: the buffered span of a trace every sampler keeps must be forwarded; %d events reached the transmission", len(events))
	}
	transmission.Stop()
	peerTransmission.Stop()
	healthReporter.Stop()
	sf.Stop()
}
