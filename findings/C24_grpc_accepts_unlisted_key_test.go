package route

// Witness for C24: the gRPC trace endpoint replaces the client's key first and
// then tests AcceptOnlyListedKeys on the replacement, so an unlisted client key
// is accepted whenever SendKeyMode replaces it.

import (
	"context"
	"testing"

	huskyotlp "github.com/honeycombio/husky/otlp"
	"github.com/honeycombio/refinery/config"
	"github.com/honeycombio/refinery/logger"
	"github.com/honeycombio/refinery/metrics"
	"go.opentelemetry.io/otel/trace/noop"
	"google.golang.org/grpc/codes"
	"google.golang.org/grpc/metadata"
	"google.golang.org/grpc/status"
)

func TestVerifC24GrpcRejectsUnlistedKey(t *testing.T) {
	const listed = "11111111111111111111111111111111"
	const sendKey = "22222222222222222222222222222222"
	const unlisted = "33333333333333333333333333333333"
	cfg := config.AccessKeyConfig{ReceiveKeys: []string{listed}, AcceptOnlyListedKeys: true, SendKey: sendKey, SendKeyMode: "all"}
	if err := cfg.IsAccepted(unlisted, ""); err == nil {
		t.Fatalf("test setup: the unlisted key should not be acceptable")
	}
	router := &Router{
		Config:  &config.MockConfig{GetAccessKeyConfigVal: cfg},
		Logger:  &logger.NullLogger{},
		Metrics: &metrics.NullMetrics{},
		Tracer:  noop.Tracer{},
	}
	ts := NewTraceServer(router)
	ctx := metadata.NewIncomingContext(context.Background(), metadata.New(map[string]string{
		"x-honeycomb-team":    unlisted,
		"x-honeycomb-dataset": "ds",
	}))
	dec := func(v any) error {
		v.(*translatedTraceServiceRequest).result = &huskyotlp.TranslateOTLPRequestResultMsgp{}
		return nil
	}
	_, err := customTraceExportHandler(ts, ctx, dec, nil)
	if status.Code(err) != codes.Unauthenticated {
		t.Fatalf("gRPC export with an unlisted client key under AcceptOnlyListedKeys was not refused: err=%v", err)
	}
}
