package route

// Witness for C37: the proxy relayed multi-valued headers joined into one value.
// An upstream answer with two Set-Cookie lines reached the client as ONE Set-Cookie value
// "a=1; Path=/,b=2; Path=/" (a different cookie), and two request header values reached upstream joined.
// tools/witness.sh route findings/C37_proxy_joins_header_values_test.go TestVerifC37ProxyKeepsHeaderValues

import (
	"net/http"
	"net/http/httptest"
	"testing"

	"github.com/honeycombio/refinery/config"
	"github.com/honeycombio/refinery/logger"
	"github.com/honeycombio/refinery/metrics"
)

func TestVerifC37ProxyKeepsHeaderValues(t *testing.T) {
	var seenAccept []string
	upstream := httptest.NewServer(http.HandlerFunc(func(w http.ResponseWriter, req *http.Request) {
		seenAccept = req.Header.Values("Accept")
		w.Header().Add("Set-Cookie", "a=1; Path=/")
		w.Header().Add("Set-Cookie", "b=2; Path=/")
		w.WriteHeader(http.StatusOK)
		w.Write([]byte("ok"))
	}))
	defer upstream.Close()

	r := &Router{
		Config:      &config.MockConfig{GetHoneycombAPIVal: upstream.URL},
		Logger:      &logger.NullLogger{},
		Metrics:     &metrics.NullMetrics{},
		proxyClient: upstream.Client(),
	}
	req := httptest.NewRequest(http.MethodGet, "/1/markers/foo?x=1", nil)
	req.Header.Add("Accept", "text/plain")
	req.Header.Add("Accept", "application/json")
	rec := httptest.NewRecorder()
	r.proxy(rec, req)

	if got := rec.Result().Header.Values("Set-Cookie"); len(got) != 2 || got[0] != "a=1; Path=/" || got[1] != "b=2; Path=/" {
		t.Errorf("client must see the upstream's two Set-Cookie values unchanged, got %q", got)
	}
	if len(seenAccept) != 2 || seenAccept[0] != "text/plain" || seenAccept[1] != "application/json" {
		t.Errorf("upstream must see the client's two Accept values unchanged, got %q", seenAccept)
	}
}
