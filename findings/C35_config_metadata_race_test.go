package config

// Witness for C35 (run with the race detector): GetConfigMetadata read mainHash / rulesHash /
// lastLoadTime without holding mux while Reload writes them under mux.Lock.
// tools/witness.sh config findings/C35_config_metadata_race_test.go TestVerifC35ConfigMetadataRace  (add -race)

import (
	"os"
	"sync"
	"testing"
)

func TestVerifC35ConfigMetadataRace(t *testing.T) {
	cfgText := func(level string) string {
		return "General:\n  ConfigurationVersion: 2\nLogger:\n  Level: " + level + "\n"
	}
	rulesText := "RulesVersion: 2\nSamplers:\n  __default__:\n    DeterministicSampler:\n      SampleRate: 1\n"
	dir := t.TempDir()
	cfgPath, rulesPath := dir+"/config.yaml", dir+"/rules.yaml"
	if err := os.WriteFile(cfgPath, []byte(cfgText("info")), 0o644); err != nil {
		t.Fatal(err)
	}
	if err := os.WriteFile(rulesPath, []byte(rulesText), 0o644); err != nil {
		t.Fatal(err)
	}
	c, err := NewConfig(&CmdEnv{ConfigLocations: []string{cfgPath}, RulesLocations: []string{rulesPath}})
	if err != nil {
		t.Fatalf("NewConfig: %v", err)
	}
	f := c.(*fileConfig)
	var wg sync.WaitGroup
	wg.Add(2)
	done := make(chan struct{})
	reads, sink := 0, 0
	go func() {
		defer wg.Done()
		defer close(done)
		levels := []string{"debug", "warn", "info", "error"}
		for i := 0; i < 40; i++ {
			os.WriteFile(cfgPath, []byte(cfgText(levels[i%len(levels)])), 0o644)
			before, _ := f.GetHashes()
			if err := f.Reload(); err != nil {
				t.Errorf("Reload: %v", err)
				return
			}
			if after, _ := f.GetHashes(); after == before {
				t.Errorf("reload %d did not change the configuration hash", i)
				return
			}
		}
	}()
	go func() {
		defer wg.Done()
		for {
			select {
			case <-done:
				return
			default:
				md := f.GetConfigMetadata()
				sink += len(md[0].Hash) + len(md[1].Hash)
				reads++
			}
		}
	}()
	wg.Wait()
	t.Logf("%d unsynchronised reads of the configuration metadata ran beside 40 reloads (%d)", reads, sink)
}
