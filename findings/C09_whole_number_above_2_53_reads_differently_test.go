package sample

// Witness for C09: a whole number above 2^53 that a float64 carries exactly (2^62, as JSON sends it) was written
// into the dynamic samplers' key with the shortest digits that round-trip ("4611686018427388000"), while the same
// number held in an int64 / uint64 (msgpack) is written exactly ("4611686018427387904"): the same number, two keys.
// tools/witness.sh sample findings/C09_whole_number_above_2_53_reads_differently_test.go TestVerifC09WholeNumbersReadExactly

import "testing"

func TestVerifC09WholeNumbersReadExactly(t *testing.T) {
	text := func(v any) string {
		d := &distinctValue{}
		d.Reset([]string{"f"}, maxKeyLength)
		d.AddAsString(v, 0)
		vals := d.Values(0)
		if len(vals) != 1 {
			t.Fatalf("%T(%v): %d values", v, v, len(vals))
		}
		return vals[0]
	}
	same := [][]any{
		{int64(1 << 62), uint64(1 << 62), float64(1 << 62)},
		{uint64(1 << 63), float64(1 << 63)},
		{int64(9007199254740993 - 1), float64(9007199254740992)},
	}
	for _, group := range same {
		want := text(group[0])
		for _, v := range group[1:] {
			if got := text(v); got != want {
				t.Errorf("key text of %T(%v) is %q but of %T(%v) is %q: the same number", v, v, got, group[0], group[0], want)
			}
		}
	}
}
