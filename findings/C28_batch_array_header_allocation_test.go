package route

// Witness for C28 (fixed): a msgpack batch body whose array header claims 2^32-1
// elements made UnmarshalMsg allocate that many batchedEvent values before reading
// a single one (hundreds of gigabytes: the process dies with "out of memory").
// The test caps its own address space so that the failure is quick and harmless.

import (
	"syscall"
	"testing"
)

func TestVerifC28BatchArrayHeaderAllocation(t *testing.T) {
	lim := syscall.Rlimit{Cur: 6 << 30, Max: 6 << 30}
	if err := syscall.Setrlimit(syscall.RLIMIT_AS, &lim); err != nil {
		t.Skipf("cannot limit address space: %v", err)
	}
	b := &batchedEvents{}
	body := []byte{0xdd, 0xff, 0xff, 0xff, 0xff} // array32 header, 4294967295 elements, no elements
	if _, err := b.UnmarshalMsg(body); err == nil {
		t.Fatalf("a 5-byte body claiming 4294967295 events was accepted")
	}
}
