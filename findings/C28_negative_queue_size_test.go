package collect

// Witness for the open finding F-C28-4: Collection.IncomingQueueSize (and
// PeerQueueSize) have no validation minimum; `refinery --validate` accepts -5 and
// start-up then panics in make(chan, size).

import (
	"testing"

	"github.com/honeycombio/refinery/config"
	"github.com/honeycombio/refinery/logger"
	"github.com/honeycombio/refinery/metrics"
)

func TestVerifC28NegativeQueueSize(t *testing.T) {
	defer func() {
		if r := recover(); r != nil {
			t.Fatalf("NewCollectorWorker panicked with a queue size that passes validation: %v", r)
		}
	}()
	cc := config.CollectionConfig{IncomingQueueSize: -5, PeerQueueSize: 30000, WorkerCount: 1}
	parent := &InMemCollector{Config: &config.MockConfig{SampleCache: config.SampleCacheConfig{KeptSize: 100, DroppedSize: 100, SizeCheckInterval: config.Duration(1000000000)}}, Metrics: &metrics.NullMetrics{}, Logger: &logger.NullLogger{}}
	_, _ = NewCollectorWorker(0, parent, cc.GetIncomingQueueSizePerWorker(), cc.GetPeerQueueSizePerWorker())
}
