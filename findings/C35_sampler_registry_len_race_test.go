package sample

// Witness for C35 (race detector): createSampler reads len(s.sharedDynsamplers) for a gauge after
// updatePeerCounts has released the factory mutex, while other workers insert into the registry under it.
// tools/witness_race.sh sample findings/C35_sampler_registry_len_race_test.go TestVerifC35RegistryLenRace

import (
	"fmt"
	"sync"
	"testing"

	"github.com/honeycombio/refinery/config"
	"github.com/honeycombio/refinery/internal/peer"
	"github.com/honeycombio/refinery/logger"
	"github.com/honeycombio/refinery/metrics"
)

func TestVerifC35RegistryLenRace(t *testing.T) {
	samplers := map[string]*config.V2SamplerChoice{}
	for i := 0; i < 40; i++ {
		samplers[fmt.Sprintf("env%d", i)] = &config.V2SamplerChoice{
			DynamicSampler: &config.DynamicSamplerConfig{SampleRate: int64(2 + i), FieldList: []string{"f"}},
		}
	}
	factory := &SamplerFactory{
		Config:  &config.MockConfig{Samplers: samplers},
		Logger:  &logger.NullLogger{},
		Metrics: &metrics.NullMetrics{},
		Peers:   peer.NewMockPeers([]string{"foo", "bar"}, ""),
	}
	factory.Start()
	defer factory.ClearDynsamplers()
	var wg sync.WaitGroup
	for w := 0; w < 4; w++ {
		wg.Add(1)
		go func(w int) {
			defer wg.Done()
			for i := w; i < 40; i += 4 {
				if s := factory.GetSamplerImplementationForKey(fmt.Sprintf("env%d", i)); s == nil {
					t.Errorf("no sampler for env%d", i)
				}
			}
		}(w)
	}
	wg.Wait()
}
