package peer

// Witness for the open finding F-C18-1: a peer address that contains a comma does
// not round-trip through the membership message codec (the decoder splits at the
// FIRST comma).

import "testing"

func TestVerifC18CommaInAddressRoundTrips(t *testing.T) {
	in := newPeerCommand(Register, "http://a,b:8081", "id1")
	var out peerCommand
	if !out.unmarshal(in.marshal()) {
		t.Fatalf("unmarshal refused %q", in.marshal())
	}
	if out.address != in.address || out.id != in.id {
		t.Fatalf("round trip changed the message: address %q -> %q, id %q -> %q", in.address, out.address, in.id, out.id)
	}
}
