package route

// Witness for C16 (fixed): under stress relief a kept span is queued for Honeycomb
// inside ProcessSpanImmediately; processEvent then marked the SAME event as a probe
// and re-addressed it to the owning peer, so the event waiting in the upstream queue
// ended with the peer's APIHost and meta.refinery.probe = true.

import (
	"testing"

	"github.com/honeycombio/refinery/config"
	"github.com/honeycombio/refinery/logger"
	"github.com/honeycombio/refinery/metrics"
	"github.com/honeycombio/refinery/sharder"
	"github.com/honeycombio/refinery/transmit"
	"github.com/honeycombio/refinery/types"
)

// a collector under stress relief that keeps every span and forwards it upstream,
// as InMemCollector.ProcessSpanImmediately does
type verifC16Collector struct{ upstream transmit.Transmission }

func (c *verifC16Collector) AddSpan(*types.Span) error         { return nil }
func (c *verifC16Collector) AddSpanFromPeer(*types.Span) error { return nil }
func (c *verifC16Collector) Stressed() bool                    { return true }
func (c *verifC16Collector) GetStressedSampleRate(string) (uint, bool, string) {
	return 1, true, "stress"
}
func (c *verifC16Collector) ProcessSpanImmediately(sp *types.Span) (bool, bool) {
	sp.Data.MetaStressed.Set(true)
	c.upstream.EnqueueSpan(sp)
	return true, true
}

func TestVerifC16KeptStressSpanDeliveredIntact(t *testing.T) {
	up := &transmit.MockTransmission{}
	up.Start()
	peer := &transmit.MockTransmission{}
	peer.Start()
	cfg := &config.MockConfig{TraceIdFieldNames: []string{"trace.trace_id"}, ParentIdFieldNames: []string{"trace.parent_id"}}
	r := &Router{
		Config:               cfg,
		Logger:               &logger.NullLogger{},
		Metrics:              &metrics.NullMetrics{},
		UpstreamTransmission: up,
		PeerTransmission:     peer,
		Collector:            &verifC16Collector{upstream: up},
		Sharder:              &sharder.MockSharder{Self: &sharder.TestShard{Addr: "http://self:8081"}, Other: &sharder.TestShard{Addr: "http://peer:8081", TraceIDs: []string{"t1"}}},
		routerType:           types.RouterTypeIncoming,
	}
	r.iopLogger = iopLogger{Logger: r.Logger, incomingOrPeer: "incoming"}
	ev := &types.Event{APIHost: "https://api.honeycomb.io", APIKey: "k", Dataset: "ds", Data: types.NewPayload(cfg, map[string]any{"trace.trace_id": "t1", "name": "x"})}
	if err := r.processEvent(ev, "req"); err != nil {
		t.Fatal(err)
	}
	got := up.GetBlock(1)
	if len(got) != 1 {
		t.Fatalf("expected one event for Honeycomb, got %d", len(got))
	}
	if got[0].APIHost != "https://api.honeycomb.io" || (got[0].Data.MetaRefineryProbe.HasValue && got[0].Data.MetaRefineryProbe.Value) {
		t.Fatalf("the kept span queued for Honeycomb was changed after it was queued: APIHost=%q probe=%v", got[0].APIHost, got[0].Data.MetaRefineryProbe.Value)
	}
	probes := peer.GetBlock(1)
	if len(probes) != 1 || !probes[0].Data.MetaRefineryProbe.Value || probes[0].APIHost != "http://peer:8081" {
		t.Fatalf("expected one probe for the owning peer, got %v", probes)
	}
}
