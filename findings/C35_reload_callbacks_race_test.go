package config

// Witness for C35 (race detector): Reload compared f.mainHash / f.rulesHash and ranged over f.callbacks
// without holding mux, while a concurrent Reload writes the hashes and RegisterReloadCallback appends to
// the callback list under mux.Lock. Two reload sources exist in production (the file watcher's ticker and
// the OpAMP agent's remote-config handler), and components register callbacks while starting.
// tools/witness_race.sh config findings/C35_reload_callbacks_race_test.go TestVerifC35ReloadRace

import (
	"os"
	"sync"
	"testing"
)

func TestVerifC35ReloadRace(t *testing.T) {
	cfgText := func(level string) string {
		return "General:\n  ConfigurationVersion: 2\nLogger:\n  Level: " + level + "\n"
	}
	rulesText := "RulesVersion: 2\nSamplers:\n  __default__:\n    DeterministicSampler:\n      SampleRate: 1\n"
	dir := t.TempDir()
	cfgPath, rulesPath := dir+"/config.yaml", dir+"/rules.yaml"
	os.WriteFile(cfgPath, []byte(cfgText("info")), 0o644)
	os.WriteFile(rulesPath, []byte(rulesText), 0o644)
	c, err := NewConfig(&CmdEnv{ConfigLocations: []string{cfgPath}, RulesLocations: []string{rulesPath}})
	if err != nil {
		t.Fatalf("NewConfig: %v", err)
	}
	f := c.(*fileConfig)
	var wg sync.WaitGroup
	wg.Add(3)
	levels := []string{"debug", "warn", "info", "error"}
	for w := 0; w < 2; w++ {
		go func(w int) {
			defer wg.Done()
			for i := 0; i < 25; i++ {
				os.WriteFile(cfgPath, []byte(cfgText(levels[(i+w)%len(levels)])), 0o644)
				f.Reload()
			}
		}(w)
	}
	go func() {
		defer wg.Done()
		for i := 0; i < 200; i++ {
			f.RegisterReloadCallback(func(string, string) {})
		}
	}()
	wg.Wait()
}
