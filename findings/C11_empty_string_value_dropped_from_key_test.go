package sample

// Witness for C11: a field whose value set is {"", "a"} and one whose value set is {"a"} produced the same
// sample key ("a•,"): the empty-string value was dropped because the duplicate filter starts from prevStr == "".
// tools/witness.sh sample findings/C11_empty_string_value_dropped_from_key_test.go TestVerifC11EmptyStringValueIsPartOfTheKey

import (
	"testing"

	"github.com/honeycombio/refinery/types"
)

func TestVerifC11EmptyStringValueIsPartOfTheKey(t *testing.T) {
	mk := func(vals ...string) *types.Trace {
		tr := &types.Trace{}
		for _, v := range vals {
			p := types.NewPayload(nil, map[string]any{"f": v})
			tr.AddSpan(&types.Span{Event: &types.Event{Data: p}})
		}
		return tr
	}
	k1, n1 := newTraceKey([]string{"f"}, false).build(mk("", "a"))
	k2, n2 := newTraceKey([]string{"f"}, false).build(mk("a"))
	if k1 == k2 {
		t.Errorf("value sets {\"\", \"a\"} and {\"a\"} of field f must give different keys, both gave %q", k1)
	}
	if n1 != 2 || n2 != 1 {
		t.Errorf("distinct values counted: %d for {\"\", \"a\"} (want 2), %d for {\"a\"} (want 1)", n1, n2)
	}
}
