package generics

// Witness for C32 (fixed): at the exact expiry instant SetWithTTL.Contains said
// "absent" while Members/Length still reported the item.
// Run in-package through an overlay: /verif/tools/witness.sh generics findings/C32_setttl_expiry_instant_test.go TestVerifC32SetTTLExpiryInstant

import (
	"testing"
	"time"

	"github.com/jonboulle/clockwork"
)

func TestVerifC32SetTTLExpiryInstant(t *testing.T) {
	fc := clockwork.NewFakeClock()
	s := NewSetWithTTL[string](10 * time.Second)
	s.Clock = fc
	s.Add("a")
	fc.Advance(10 * time.Second) // now == expiration exactly
	contains := s.Contains("a")
	members := s.Members()
	length := s.Length()
	if contains != (len(members) == 1) || contains != (length == 1) {
		t.Fatalf("queries disagree at the expiry instant: Contains=%v Members=%v Length=%d", contains, members, length)
	}
}
