//go:build verif

package agent

// Contracts for package agent (comment-only; read by /verif/govc).
// C34: usage reports neither lose nor double-count usage.
//
// Ghost state: sentUsage(ur, g) — usage of signal g carried by reports whose
// delivery has been confirmed (completeSend); reported(om, g) — usage of signal g
// written into one report under construction.

//@ ghost sentUsage(ref, usageSignal) float64
//@ ghost reported(ref, usageSignal) float64

// Conservation: what was delivered, plus what is waiting (current interval and
// the unconfirmed previous report), equals the growth of the cumulative counter.
//@ objinv agent.usageTracker conservation : forall g usageSignal :: sentUsage(this, g) + this.currentDataPoints[g] + this.lastDataPoints[g] == this.lastUsageData[g]

//@ contract agent.convertFloat64ToInt64 props C34
//@   ensures[negatives-rejected] value < 0 ==> result1 != nil
//@   ensures[accepted-nonnegative] result1 == nil ==> value >= 0 && result0 >= 0 && toReal(result0) <= value && value < toReal(result0) + 1
//@   modifies nothing

//@ contract agent.(*otlpMetrics).getOrCreateSum props C34
//@   requires om != nil
//@   modifies om.sums

//@ contract agent.(*otlpMetrics).addOTLPSum props C34
//@   requires om != nil
//@   ghostupdate reported(om) :: result == nil ==> (forall g usageSignal :: reported(om, g) == old(reported(om, g)) + ite(g == signal, value, 0))
//@   ensures[never-negative] result == nil ==> value >= 0
//@   modifies om.sums

//@ contract agent.(*usageTracker).Add props C34
//@   requires ur != nil
//@   ensures[delta-recorded] data != 0 ==> ur.currentDataPoints == mapset(old(ur.currentDataPoints), signal, old(ur.currentDataPoints)[signal] + (data - old(ur.lastUsageData)[signal])) && ur.lastUsageData == mapset(old(ur.lastUsageData), signal, data)
//@   ensures[zero-ignored] data == 0 ==> ur.currentDataPoints == old(ur.currentDataPoints) && ur.lastUsageData == old(ur.lastUsageData)
//@   ensures[pending-untouched] ur.lastDataPoints == old(ur.lastDataPoints)
//@   modifies ur.currentDataPoints, ur.lastUsageData

//@ ghost confirmedN(ref) int
//@ contract agent.(*usageTracker).completeSend props C34
//@   requires ur != nil
//@   ghostupdate confirmedN(ur) :: confirmedN(ur) == old(confirmedN(ur)) + 1
//@   ghostupdate sentUsage(ur) :: forall g usageSignal :: sentUsage(ur, g) == old(sentUsage(ur, g)) + old(ur.lastDataPoints)[g]
//@   ensures[pending-cleared] forall g usageSignal :: ur.lastDataPoints[g] == 0
//@   modifies ur.lastDataPoints

//@ assume agent.newOTLPMetrics
//@   ensures result != nil && isFresh(result)
//@   ensures forall g usageSignal :: reported(result, g) == 0

//@ contract agent.(*usageTracker).NewReport props C34
//@   requires ur != nil
//@   ensures[report-carries-everything-unsent] result1 == nil ==> (forall g usageSignal :: reported(otlpMetrics, g) == old(ur.currentDataPoints)[g] + old(ur.lastDataPoints)[g])
//@   ensures[nothing-unsent-forgotten] result1 == nil ==> (forall g usageSignal :: ur.currentDataPoints[g] == 0 && ur.lastDataPoints[g] == old(ur.currentDataPoints)[g] + old(ur.lastDataPoints)[g])
//@   ensures[failure-changes-nothing] result1 != nil ==> ur.currentDataPoints == old(ur.currentDataPoints) && ur.lastDataPoints == old(ur.lastDataPoints)
//@   ensures[readings-untouched] ur.lastUsageData == old(ur.lastUsageData)
//@   loop 1 invariant ur.currentDataPoints == old(ur.currentDataPoints) && ur.lastDataPoints == old(ur.lastDataPoints) && (forall g usageSignal :: reported(otlpMetrics, g) == ite(seen(g), ur.currentDataPoints[g], 0)) && (forall g usageSignal :: seen(g) ==> in(ur.currentDataPoints, g))
//@   loop 2 invariant ur.currentDataPoints == old(ur.currentDataPoints) && ur.lastDataPoints == old(ur.lastDataPoints) && (forall g usageSignal :: reported(otlpMetrics, g) == ur.currentDataPoints[g] + ite(seen(g), ur.lastDataPoints[g], 0)) && (forall g usageSignal :: seen(g) ==> in(ur.lastDataPoints, g))
//@   loop 3 invariant ur.currentDataPoints == old(ur.currentDataPoints) && (forall g usageSignal :: ur.lastDataPoints[g] == old(ur.lastDataPoints)[g] + ite(seen(g), ur.currentDataPoints[g], 0)) && (forall g usageSignal :: seen(g) ==> in(ur.currentDataPoints, g)) && (forall g usageSignal :: reported(otlpMetrics, g) == old(ur.currentDataPoints)[g] + old(ur.lastDataPoints)[g])
//@   modifies ur.currentDataPoints, ur.lastDataPoints

// The send loop: a report counts as delivered (completeSend) only after the OpAMP client has TAKEN it - its last
// answer to SendCustomMessage was "no error" - and has signalled that it went out. "Pending" (another message is
// queued; the channel returned belongs to that other message) is not taking it: the report is offered once more,
// and if it is still not taken the usage stays with the tracker for the next report.
//@ ghost offeredN(ref) int
//@ ghost offerTaken(ref) bool
//@ package github.com/open-telemetry/opamp-go/client
//@ assume github.com/open-telemetry/opamp-go/client.OpAMPClient.SendCustomMessage
//@   ghostupdate offeredN(this), offerTaken(this) :: offeredN(this) == old(offeredN(this)) + 1 && offerTaken(this) == (result1 == nil)
//@ package agent
//@ assume agent.(*Logger).Debugf
// the tracker and the client are set when the agent is built
//@ final agent.Agent.usageTracker
//@ final agent.Agent.opampClient
//@ contract agent.(*Agent).sendUsageReport props C34 havocheap noinv
//@   arith math
//@   assert only none
//@   requires agent != nil && agent.usageTracker != nil && agent.opampClient != nil
//@   let ur = agent.usageTracker
//@   let c = agent.opampClient
//@   ensures[delivered-at-most-once] confirmedN(ur) == old(confirmedN(ur)) || confirmedN(ur) == old(confirmedN(ur)) + 1
//@   ensures[delivered-only-after-the-client-took-the-report] confirmedN(ur) != old(confirmedN(ur)) ==> offeredN(c) > old(offeredN(c)) && offerTaken(c)
//@   modifies all(confirmedN), all(offeredN), all(offerTaken), all(sentUsage)

// ---- C35: usage is added by the metrics reader goroutine and reported / acknowledged by the agent's own
//@ guarded_by agent.usageTracker.mut: lastUsageData, lastDataPoints, currentDataPoints
//@ lockdiscipline agent.usageTracker mut props C35
