//go:build verif

package config

// Contracts for package config (comment-only; read by /verif/govc).

// ---- C14: legacy-key classification (README: classic keys are 32 hex chars, or hc[a-z]ic_ + 58 lowercase alphanumerics)

//@ spec isHexLower(c byte) bool := (c >= '0' && c <= '9') || (c >= 'a' && c <= 'f')
//@ spec isAlnumLower(c byte) bool := (c >= '0' && c <= '9') || (c >= 'a' && c <= 'z')
//@ spec legacyClassic(key string) bool := len(key) == 32 && (forall j int :: 0 <= j && j < 32 ==> isHexLower(key[j]))
//@ spec legacyIngest(key string) bool := len(key) == 64 && key[0] == 'h' && key[1] == 'c' && key[2] >= 'a' && key[2] <= 'z' && key[3] == 'i' && key[4] == 'c' && key[5] == '_' && (forall j int :: 6 <= j && j < 64 ==> isAlnumLower(key[j]))

//@ contract config.IsLegacyAPIKey props C14,C28
//@   ensures[classify] result == (legacyClassic(key) || legacyIngest(key))
//@   loop 1 invariant 0 <= i && i <= keyLen && keyLen == 32 && (forall j int :: 0 <= j && j < i ==> isHexLower(key[j]))
//@   loop 2 invariant 6 <= i && i <= keyLen && keyLen == 64 && (forall j int :: 6 <= j && j < i ==> isAlnumLower(key[j]))
//@   modifies nothing
