//go:build verif

package config

// Contracts for package config (comment-only; read by /verif/govc).

// ---- C14: legacy-key classification (README: classic keys are 32 hex chars, or hc[a-z]ic_ + 58 lowercase alphanumerics)

//@ spec isHexLower(c byte) bool := (c >= '0' && c <= '9') || (c >= 'a' && c <= 'f')
//@ spec isAlnumLower(c byte) bool := (c >= '0' && c <= '9') || (c >= 'a' && c <= 'z')
//@ spec legacyClassic(key string) bool := len(key) == 32 && (forall j int :: 0 <= j && j < 32 ==> isHexLower(key[j]))
//@ spec legacyIngest(key string) bool := len(key) == 64 && key[0] == 'h' && key[1] == 'c' && key[2] >= 'a' && key[2] <= 'z' && key[3] == 'i' && key[4] == 'c' && key[5] == '_' && (forall j int :: 6 <= j && j < 64 ==> isAlnumLower(key[j]))

//@ contract config.IsLegacyAPIKey props C14,C28
//@   ensures[classify] result == (legacyClassic(key) || legacyIngest(key))
//@   loop 1 invariant 0 <= i && i <= keyLen && keyLen == 32 && (forall j int :: 0 <= j && j < i ==> isHexLower(key[j]))
//@   loop 2 invariant 6 <= i && i <= keyLen && keyLen == 64 && (forall j int :: 6 <= j && j < i ==> isAlnumLower(key[j]))
//@   modifies nothing

// ---- C24: ingest authorization and key replacement.
// Oracle: refinery_config.md (AcceptOnlyListedKeys "is applied **before** the SendKey
// and SendKeyMode settings"; the SendKeyMode option list) and the property statement.

//@ spec keyListed(a AccessKeyConfig, key string, keyID string) bool := slices.Contains(a.ReceiveKeys, key) || (keyID != "" && slices.Contains(a.ReceiveKeyIDs, keyID))
//@ spec keyAccepted(a AccessKeyConfig, key string, keyID string) bool := !a.AcceptOnlyListedKeys || (a.SendKey != "" && key == a.SendKey) || keyListed(a, key, keyID)
//@ spec keyReplaced(a AccessKeyConfig, key string, keyID string) string := ite(a.SendKey == "", key, ite(a.SendKeyMode == "all", a.SendKey, ite(a.SendKeyMode == "nonblank", ite(key != "", a.SendKey, key), ite(a.SendKeyMode == "listedonly", ite(keyListed(a, key, keyID), a.SendKey, key), ite(a.SendKeyMode == "missingonly", ite(key == "", a.SendKey, key), ite(a.SendKeyMode == "unlisted", ite(key != "" && !keyListed(a, key, keyID), a.SendKey, key), key))))))

//@ contract config.(*AccessKeyConfig).IsAccepted props C24
//@   requires a != nil
//@   ensures[accepted-iff] (result == nil) == keyAccepted(*a, key, keyID)
//@   modifies nothing

//@ contract config.(*AccessKeyConfig).GetReplaceKey props C24
//@   requires a != nil
//@   ensures[table] result1 == nil ==> result0 == keyReplaced(*a, apiKey, keyID)
//@   ensures[never-blank] (result1 == nil) == (keyReplaced(*a, apiKey, keyID) != "")
//@   ensures[no-key-on-error] result1 != nil ==> result0 == ""
//@   modifies nothing

//@ contract config.(*AccessKeyConfig).HasKeyIDs props C24
//@   requires a != nil
//@   ensures result == (len(a.ReceiveKeyIDs) > 0)
//@   modifies nothing

// ---- C28: panic-freedom sweep (zero-annotation safety obligations: index, slice
// bounds, division, type assertion, make size) for functions that consume request
// bytes or validated configuration. Preconditions are admitted only where a
// validation rule enforces them.

//@ contract config.GetKeyFields props C28 function
//@   modifies nothing

//@ contract config.ConfigHashMetrics props C28
//@   modifies nothing

//@ contract config.CollectionConfig.GetWorkerCount props C28
//@   ensures[at-least-one-worker] result >= 1
//@   ensures[configured-count] c.WorkerCount > 0 ==> result == c.WorkerCount
//@   ensures[negative-count-is-one] c.WorkerCount < 0 ==> result == 1
//@   ensures[default-is-gomaxprocs] c.WorkerCount == 0 ==> result <= 1<<20
//@   modifies nothing
//@ contract config.CollectionConfig.GetIncomingQueueSizePerWorker props C28
//@   arith wraps
//@   ensures[nonnegative-if-configured-so] c.IncomingQueueSize >= 0 && c.IncomingQueueSize < 1<<62 && c.WorkerCount < 1<<62 ==> result >= 0
//@   modifies nothing
//@ contract config.CollectionConfig.GetPeerQueueSizePerWorker props C28
//@   arith wraps
//@   ensures[nonnegative-if-configured-so] c.PeerQueueSize >= 0 && c.PeerQueueSize < 1<<62 && c.WorkerCount < 1<<62 ==> result >= 0
//@   modifies nothing

// ---- C27: config reloads apply exactly the acceptable changes.
// Ghosts: how many calls were made through function values (the reload callbacks),
// and the result of the most recent newFileConfig (startup's own acceptance test).
//@ ghost fnCallsT(int) int
//@ ghost loadN() int
//@ ghost loadedCfg() ref

// newFileConfig's documented three-way result: (nil, err) fatal, (cfg, err) warnings only, (cfg, nil) clean.
//@ contract config.newFileConfig props C27 noframe
//@   ghostupdate loadN(), loadedCfg() :: loadN() == old(loadN()) + 1 && toInt(loadedCfg()) == toInt(result0)
//@   ensures[nil-config-means-error] result0 == nil ==> result1 != nil
//@   ensures[new-object] result0 != nil ==> isFresh(result0)

//@ contract config.(*fileConfig).Reload props C27 localcalls
//@   requires f != nil
//@   let attempted = loadN() == old(loadN()) + 1
//@   ensures[acceptable-change-is-applied] loadN() == old(loadN()) + 1 && cfg != nil && toInt(loadedCfg()) == toInt(cfg) && (old(f.mainHash) != cfg.mainHash || old(f.rulesHash) != cfg.rulesHash) ==> f.mainHash == cfg.mainHash && f.rulesHash == cfg.rulesHash && f.mainConfig == cfg.mainConfig && f.rulesConfig == cfg.rulesConfig && callsOf(ConfigReloadCallback) == old(callsOf(ConfigReloadCallback)) + len(f.callbacks)
//@   ensures[rejected-or-unchanged-leaves-everything] !(loadN() == old(loadN()) + 1 && cfg != nil && toInt(loadedCfg()) == toInt(cfg) && (old(f.mainHash) != cfg.mainHash || old(f.rulesHash) != cfg.rulesHash)) ==> callsOf(ConfigReloadCallback) == old(callsOf(ConfigReloadCallback)) && f.mainHash == old(f.mainHash) && f.rulesHash == old(f.rulesHash) && f.mainConfig == old(f.mainConfig) && f.rulesConfig == old(f.rulesConfig)
//@   loop 1 invariant callsOf(ConfigReloadCallback) == old(callsOf(ConfigReloadCallback))
//@   loop 2 invariant[calls] callsOf(ConfigReloadCallback) == old(callsOf(ConfigReloadCallback)) + iter
//@   loop 2 invariant[copy] len(callbacks) == len(f.callbacks)
//@   loop 2 invariant[applied] f.mainHash == cfg.mainHash && f.rulesHash == cfg.rulesHash && f.mainConfig == cfg.mainConfig && f.rulesConfig == cfg.rulesConfig
//@   modifies all(fnCallsT), loadN(), loadedCfg(), f.mainConfig, f.mainHash, f.rulesConfig, f.rulesHash

// Reading and parsing the files, and building a new fileConfig from them, allocate new
// objects but do not modify existing ones, load no other fileConfig and run no reload
// callbacks (assumed frames: plain file I/O, decoding and validation).
//@ assume config.newConfigAndRules

//@ contract config.(*DefaultTrue).Get inline

// ---- accessors used by the collector (C03)
//@ contract config.TracesConfig.GetSendDelay inline
//@ contract config.TracesConfig.GetTraceTimeout inline

// ---- C35: lock discipline of the live configuration. Reload swaps mainConfig / rulesConfig (and their
// hashes, the load time, the callback list) under mux while every getter reads them concurrently: each
// method of fileConfig must hold mux (write-held for writes) at every access to these fields, must not
// hold it on entry and must have released it on every return path.
//@ guarded_by config.fileConfig.mux: mainConfig, mainHash, rulesConfig, rulesHash, callbacks, lastLoadTime
//@ lockdiscipline config.fileConfig mux props C35

// ---- C14: which sampler definition a trace gets. The selector is the environment for environment-scoped
// keys and the (optionally prefixed) dataset for classic keys; the definition is the one configured under
// that name, else the one under __default__; the fields extracted at ingestion come from the same definition.
//@ spec samplerSelector(prefix string, apiKey string, env string, dataset string) string := ite(!IsLegacyAPIKey(apiKey), env, ite(prefix != "", prefix + "." + dataset, dataset))
//@ spec chosen(m map[string]*V2SamplerChoice, name string) *V2SamplerChoice := ite(in(m, name), m[name], ite(in(m, "__default__"), m["__default__"], nil))
//@ assume config.(*V2SamplerChoice).Sampler getter
//@ assume config.(*V2SamplerChoice).GetSamplingFields getter
//@ contract config.(*fileConfig).GetDatasetPrefix props C14 function
//@   requires[config-loaded@C14] f != nil && f.mainConfig != nil
//@   ensures result == f.mainConfig.General.DatasetPrefix
//@   modifies nothing
//@ contract config.(*fileConfig).DetermineSamplerKey props C14
//@   requires[config-loaded@C14] f != nil && f.mainConfig != nil
//@   ensures[selector] result == samplerSelector(f.mainConfig.General.DatasetPrefix, apiKey, env, dataset)
//@   modifies nothing
//@ contract config.(*fileConfig).GetSamplerConfigForDestName props C14
//@   requires[rules-loaded@C14] f != nil && f.rulesConfig != nil
//@   requires[definitions-present@C14] forall k string :: in(f.rulesConfig.Samplers, k) ==> f.rulesConfig.Samplers[k] != nil
//@   let c = chosen(f.rulesConfig.Samplers, destname)
//@   ensures[named-definition-else-default] c != nil ==> result0 == result0of(c.Sampler()) && result1 == result1of(c.Sampler())
//@   ensures[nothing-configured] c == nil ==> isNil(result0) && result1 == "not found"
//@   modifies nothing
//@ contract config.(*fileConfig).GetSamplingKeyFieldsForDestName props C14
//@   requires[rules-loaded@C14] f != nil && f.rulesConfig != nil
//@   requires[definitions-present@C14] forall k string :: in(f.rulesConfig.Samplers, k) ==> f.rulesConfig.Samplers[k] != nil
//@   let c = chosen(f.rulesConfig.Samplers, samplerKey)
//@   ensures[fields-of-the-same-definition] c != nil ==> result == c.GetSamplingFields()
//@   ensures[nothing-configured] c == nil ==> len(result) == 0
//@   modifies nothing

// ---- C08: "If the field is not present, then the condition will not match" (rules.md). The typed
// comparison functions built at start-up (closures stored in condition.Matches) receive `exists`; every one
// of them except the exists / not-exists operators must answer false for an absent field.
//@ contract config.(*RulesBasedSamplerCondition).setMatchesFunction$lit1 props C08
//@   ensures[exists-operator] result == exists
//@   modifies nothing
//@ contract config.(*RulesBasedSamplerCondition).setMatchesFunction$lit2 props C08
//@   ensures[not-exists-operator] result == !exists
//@   modifies nothing
//@ contract config.setCompareOperators$lit* props C08 havoc
//@   assert only none
//@   requires[an-absent-field-has-no-value] !exists ==> isNil(spanValue)
//@   ensures[absent-field-never-matches] !exists ==> !result
//@ contract config.setMatchStringBasedOperators$lit* props C08 havoc
//@   assert only none
//@   requires[an-absent-field-has-no-value] !exists ==> isNil(spanValue)
//@   ensures[absent-field-never-matches] !exists ==> !result
//@ contract config.setInBasedOperators$lit* props C08 havoc
//@   assert only none
//@   requires[an-absent-field-has-no-value] !exists ==> isNil(spanValue)
//@   ensures[absent-field-never-matches] !exists ==> !result
//@ contract config.setRegexStringMatchOperator$lit* props C08 havoc
//@   assert only none
//@   requires[an-absent-field-has-no-value] !exists ==> isNil(spanValue)
//@   ensures[absent-field-never-matches] !exists ==> !result
// the conversions used by the typed operators: nothing converts from an absent (nil) value
//@ contract config.tryConvertToInt props C08,C09
//@   arith wraps
//@   ensures[nil-does-not-convert] isNil(v) ==> !result1
// C09: the conversion depends on the number, not on the Go type the wire encoding produced for it
//@   ensures[integers-convert-by-value-whatever-their-type@C09] (isInt64(v) || isInt(v) || isUint64(v)) && anyInt(v) <= 9223372036854775807 ==> result1 && result0 == anyInt(v)
//@   ensures[floats-convert-whatever-their-width@C09] isFloat64(v) || isFloat32(v) ==> result1 && result0 == int(anyFloat(v))
//@   modifies nothing
//@ contract config.tryConvertToFloat props C08,C09
//@   arith wraps
//@   ensures[nil-does-not-convert] isNil(v) ==> !result1
//@   ensures[floats-convert-by-value-whatever-their-width@C09] isFloat64(v) || isFloat32(v) ==> result1 && result0 == anyFloat(v)
//@   ensures[integers-convert-by-value-whatever-their-type@C09] (isInt64(v) || isInt(v) || isUint64(v)) && anyInt(v) <= 9223372036854775807 ==> result1 && result0 == float64(anyInt(v))
//@   modifies nothing

// ---- C09: the text a value is compared as (Datatype string, contains / starts-with / in / regexp operators) depends
// on the number, not on the Go type the wire encoding produced for it: JSON numbers arrive as float64, msgpack
// integers as int64 or uint64, msgpack floats as float32 or float64.
//@ spec cfgIsNumeric(v any) bool := isInt64(v) || isInt(v) || isUint64(v) || isFloat64(v) || isFloat32(v)
//@ spec cfgNumOf(v any) float64 := ite(isFloat64(v) || isFloat32(v), anyFloat(v), toReal(anyInt(v)))
// a whole number reads as its decimal integer whatever its size; any other number in plain decimal notation
//@ spec cfgNumText(x float64) string := ite(x == math.Trunc(x) && math.Abs(x) < 18446744073709551616.0, strconv.FormatFloat(x, 'f', 0, 64), strconv.FormatFloat(x, 'f', -1, 64))
//@ contract config.formatFloat inline
//@ contract config.convertToString props C09
//@   arith math
//@   split isString(v)
//@   split isInt64(v)
//@   split isInt(v)
//@   split isUint64(v)
//@   split isFloat64(v)
//@   split isFloat32(v)
//@   ensures[a-number-formats-by-value-whatever-its-type] cfgIsNumeric(v) ==> result == cfgNumText(cfgNumOf(v))
//@   ensures[a-string-is-itself] isString(v) ==> result == anyString(v)
//@   modifies nothing

// ---- C25: the token a /query/ request is compared with is the one configured NOW - read from the configuration in
// force at the time of the request, not remembered from an earlier one (a reload may rotate or remove it).
//@ contract config.(*fileConfig).GetQueryAuthToken props C25
//@   assert only none
//@   requires f != nil && f.mainConfig != nil
//@   ensures[the-token-in-force-is-the-configured-one] result == f.mainConfig.Debugging.QueryAuthToken
//@   modifies f.mux

// ---- C08 (a rule with a downstream sampler delegates to it): the rules sampler keeps its downstream samplers in a map
// keyed by this string, at start-up and at every decision. The key is the rendering of the WHOLE rule - every field,
// the downstream sampler's address included - which is what keeps two rules (same name, same scope) from sharing an
// entry. (That fmt renders different rules differently is assumed; that the key is the whole rule is proved.)
//@ contract config.(*RulesBasedSamplerRule).String#key props C08
//@   assert only none
//@   requires r != nil
//@   ensures[the-key-is-the-rendering-of-the-whole-rule] result == fmt.Sprintf("%+v", *r)
//@   modifies nothing
