//go:build verif

package types

// Contracts for package types (comment-only; read by /verif/govc).
//
// (*Payload).Set dispatches through the package-level table `metadataFields` of
// closures, which the executor does not follow: its contract is ASSUMED and
// cross-checked (thorough tier; bounded, not a proof) by the stand-in test
// /verif/standins/payload_set_test.go: every key of the table x 14 values x 3 start states.
//@ standin types.(*Payload).Set types standins/payload_set_test.go TestVerifStandinPayloadSet
//@ spec isMetaKey(k string) bool := k == MetaSignalType || k == MetaTraceID || k == MetaAnnotationType || k == MetaRefineryIncomingUserAgent || k == MetaRefineryLocalHostname || k == MetaRefineryReason || k == MetaRefinerySendReason || k == MetaRefinerySampleKey || k == MetaSpanEventCount || k == MetaSpanLinkCount || k == MetaSpanCount || k == MetaEventCount || k == MetaRefineryOriginalSampleRate || k == MetaRefineryFinalSampleRate || k == MetaRefineryProbe || k == MetaRefineryRoot || k == MetaStressed
//@ assume types.(*Payload).Set
//@   ensures[generic-fields] p.memoizedFields == ite(isMetaKey(key), old(p.memoizedFields), mapset(old(p.memoizedFields), key, value))
//@   ensures p.MetaSignalType == ite(key == MetaSignalType && isString(value), anyString(value), old(p.MetaSignalType))
//@   ensures p.MetaTraceID == ite(key == MetaTraceID && isString(value), anyString(value), old(p.MetaTraceID))
//@   ensures p.MetaAnnotationType == ite(key == MetaAnnotationType && isString(value), anyString(value), old(p.MetaAnnotationType))
//@   ensures p.MetaRefineryIncomingUserAgent == ite(key == MetaRefineryIncomingUserAgent && isString(value), anyString(value), old(p.MetaRefineryIncomingUserAgent))
//@   ensures p.MetaRefineryLocalHostname == ite(key == MetaRefineryLocalHostname && isString(value), anyString(value), old(p.MetaRefineryLocalHostname))
//@   ensures p.MetaRefineryReason == ite(key == MetaRefineryReason && isString(value), anyString(value), old(p.MetaRefineryReason))
//@   ensures p.MetaRefinerySendReason == ite(key == MetaRefinerySendReason && isString(value), anyString(value), old(p.MetaRefinerySendReason))
//@   ensures p.MetaRefinerySampleKey == ite(key == MetaRefinerySampleKey && isString(value), anyString(value), old(p.MetaRefinerySampleKey))
//@   ensures p.MetaSpanEventCount == ite(key == MetaSpanEventCount && isInt64(value), anyInt(value), old(p.MetaSpanEventCount))
//@   ensures p.MetaSpanLinkCount == ite(key == MetaSpanLinkCount && isInt64(value), anyInt(value), old(p.MetaSpanLinkCount))
//@   ensures p.MetaSpanCount == ite(key == MetaSpanCount && isInt64(value), anyInt(value), old(p.MetaSpanCount))
//@   ensures p.MetaEventCount == ite(key == MetaEventCount && isInt64(value), anyInt(value), old(p.MetaEventCount))
//@   ensures p.MetaRefineryOriginalSampleRate == ite(key == MetaRefineryOriginalSampleRate && isInt64(value), anyInt(value), old(p.MetaRefineryOriginalSampleRate))
//@   ensures p.MetaRefineryFinalSampleRate == ite(key == MetaRefineryFinalSampleRate && isInt64(value), anyInt(value), old(p.MetaRefineryFinalSampleRate))
//@   ensures p.MetaRefineryProbe.HasValue == (old(p.MetaRefineryProbe.HasValue) || (key == MetaRefineryProbe && isBool(value)))
//@   ensures p.MetaRefineryProbe.Value == ite(key == MetaRefineryProbe && isBool(value), anyBool(value), old(p.MetaRefineryProbe.Value))
//@   ensures p.MetaRefineryRoot.HasValue == (old(p.MetaRefineryRoot.HasValue) || (key == MetaRefineryRoot && isBool(value)))
//@   ensures p.MetaRefineryRoot.Value == ite(key == MetaRefineryRoot && isBool(value), anyBool(value), old(p.MetaRefineryRoot.Value))
//@   ensures p.MetaStressed.HasValue == (old(p.MetaStressed.HasValue) || (key == MetaStressed && isBool(value)))
//@   ensures p.MetaStressed.Value == ite(key == MetaStressed && isBool(value), anyBool(value), old(p.MetaStressed.Value))
//@   modifies p.MetaSignalType, p.MetaTraceID, p.MetaAnnotationType, p.MetaRefineryIncomingUserAgent, p.MetaRefineryLocalHostname, p.MetaRefineryReason, p.MetaRefinerySendReason, p.MetaRefinerySampleKey, p.MetaSpanEventCount, p.MetaSpanLinkCount, p.MetaSpanCount, p.MetaEventCount, p.MetaRefineryOriginalSampleRate, p.MetaRefineryFinalSampleRate, p.MetaRefineryProbe, p.MetaRefineryRoot, p.MetaStressed, p.memoizedFields

//@ contract types.RouterType.IsIncoming inline
//@ contract types.(*nullableBool).Set inline

// ExtractMetadata fills the cached meta.* fields from the payload; it touches nothing else.
// (Its functional contract is C21's business.)
//@ assume types.(*Payload).ExtractMetadata
//@   modifies p.MetaSignalType, p.MetaTraceID, p.MetaAnnotationType, p.MetaRefineryProbe, p.MetaRefineryRoot, p.MetaRefineryIncomingUserAgent, p.MetaRefineryLocalHostname, p.MetaStressed, p.MetaRefineryReason, p.MetaRefinerySendReason, p.MetaSpanEventCount, p.MetaSpanLinkCount, p.MetaSpanCount, p.MetaEventCount, p.MetaRefineryOriginalSampleRate, p.MetaRefineryFinalSampleRate, p.MetaRefinerySampleKey, p.hasExtractedMetadata, p.memoizedFields, p.missingFields

//@ assume types.(*Event).GetDataSize
//@   modifies e.dataSize
//@ assume types.(*Span).GetDataSize getter
//@   modifies sp.Event.dataSize
//@ contract types.(*Payload).IsEmpty inline

// ---- C14: the fields extracted at ingestion are those of the sampler definition selected for the event's
// destination: same selector (DetermineSamplerKey), same definition lookup (GetSamplingKeyFieldsForDestName).
//@ contract types.NewCoreFieldsUnmarshaler props C14
//@   let sel = opt.Config.DetermineSamplerKey(opt.APIKey, opt.Env, opt.Dataset)
//@   ensures[fields-of-the-selected-definition] result.samplingKeyFields == result0of(config.GetKeyFields(opt.Config.GetSamplingKeyFieldsForDestName(sel)))
//@   ensures[id-fields-as-configured] result.traceIdFieldNames == opt.Config.GetTraceIdFieldNames() && result.parentIdFieldNames == opt.Config.GetParentIdFieldNames()
//@   modifies nothing

// ---- C07: the impact estimate that orders memory-pressure ejection ("heaviest estimated impact first"): a span
// weighs its data size once, plus once more for every quarter of the trace timeout it has been buffered.
//@ contract types.(*Span).CacheImpact props C07
//@   arith math
//@   assert only none
//@   requires sp != nil
//@   domain[timeout-positive-and-arrival-not-in-the-future] traceTimeout > 0 && !wallclock(1).Before(sp.ArrivalTime)
//@   ensures[size-weighted-by-age-in-quarters-of-the-timeout] result == (4 * toInt(wallclock(1).Sub(sp.ArrivalTime)) / toInt(traceTimeout) + 1) * sp.GetDataSize()
//@   modifies nothing
