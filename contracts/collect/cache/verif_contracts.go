//go:build verif

package cache

// Contracts for package collect/cache (comment-only; read by /verif/govc).

// ---- C03: the in-memory trace buffer. A map id -> trace plus a keyed priority queue of deadlines.
// The queue (github.com/rdleal/go-priorityq/kpq) is a dependency: its contract is ASSUMED, as an
// abstract map key -> priority (ghosts pqHas / pqVal) whose Pop returns a minimal entry.
//@ ghost pqHas(ref, string) bool
//@ ghost pqVal(ref, string) time
//@ assume github.com/rdleal/go-priorityq/kpq.(*KeyedPriorityQueue).IsEmpty
//@   ensures result == (forall k string :: !pqHas(pq, k))
//@ assume github.com/rdleal/go-priorityq/kpq.(*KeyedPriorityQueue).Pop
//@   ensures[ok-iff-nonempty] result2 == !(forall k string :: !old(pqHas(pq, k)))
//@   ensures[minimal] result2 ==> old(pqHas(pq, result0)) && result1 == old(pqVal(pq, result0)) && (forall k string :: old(pqHas(pq, k)) ==> !old(pqVal(pq, k)).Before(result1))
//@   ghostupdate pqHas(pq) :: forall k string :: pqHas(pq, k) == (old(pqHas(pq, k)) && !(result2 && k == result0))
//@ assume github.com/rdleal/go-priorityq/kpq.(*KeyedPriorityQueue).Push
//@   ghostupdate pqHas(pq), pqVal(pq) :: (forall k string :: pqHas(pq, k) == (old(pqHas(pq, k)) || k == p0)) && (forall k string :: pqVal(pq, k) == ite(k == p0 && !old(pqHas(pq, k)), p1, old(pqVal(pq, k))))
//@ assume github.com/rdleal/go-priorityq/kpq.(*KeyedPriorityQueue).Set
//@   ghostupdate pqHas(pq), pqVal(pq) :: (forall k string :: pqHas(pq, k) == (old(pqHas(pq, k)) || k == p0)) && (forall k string :: pqVal(pq, k) == ite(k == p0, p1, old(pqVal(pq, k))))
//@ assume github.com/rdleal/go-priorityq/kpq.(*KeyedPriorityQueue).Remove
//@   ghostupdate pqHas(pq) :: forall k string :: pqHas(pq, k) == (old(pqHas(pq, k)) && k != p0)

// Representation invariant: every buffered trace is stored under its own ID and queued with its deadline.
//@ spec synced(d *DefaultInMemCache) bool := forall k string :: in(d.cache, k) ==> d.cache[k] != nil && d.cache[k].TraceID == k && pqHas(d.pq, k) && pqVal(d.pq, k) == d.cache[k].SendBy

//@ contract collect/cache.(*DefaultInMemCache).Get props C03,C01,C02 function
//@   requires d != nil
//@   ensures result == ite(in(d.cache, traceID), d.cache[traceID], nil)
//@   modifies nothing

//@ contract collect/cache.(*DefaultInMemCache).Set props C03,C01,C02
//@   requires d != nil && d.pq != nil && synced(d)
//@   ensures[stored-under-its-id] trace != nil ==> d.cache == mapset(old(d.cache), trace.TraceID, trace)
//@   ensures[nil-is-ignored] trace == nil ==> d.cache == old(d.cache)
//@   ensures[queued-with-its-deadline] synced(d)
//@   modifies d.cache, pqHas(d.pq), pqVal(d.pq)

//@ contract collect/cache.(*DefaultInMemCache).TakeExpiredTraces props C03,C01,C02 localcalls
//@   arith math
//@   requires d != nil && d.pq != nil && synced(d)
//@   requires[no-filter] filter == nil
//@   ensures[taken-were-buffered-and-expired] forall j int :: 0 <= j && j < len(result) ==> result[j] != nil && in(old(d.cache), result[j].TraceID) && old(d.cache)[result[j].TraceID] == result[j] && !in(d.cache, result[j].TraceID) && !now.Before(result[j].SendBy)
//@   ensures[at-most-max] max > 0 ==> len(result) <= max
//@   ensures[earliest-first] forall a int, b int :: 0 <= a && a < b && b < len(result) ==> !result[b].SendBy.Before(result[a].SendBy)
//@   ensures[others-stay] forall k string :: in(d.cache, k) ==> in(old(d.cache), k) && d.cache[k] == old(d.cache)[k]
//@   ensures[nothing-expired-is-left-behind-below-max] (max <= 0 || len(result) < max) ==> (forall k string :: in(d.cache, k) ==> now.Before(d.cache[k].SendBy))
//@   ensures[only-returned-traces-leave-the-buffer] forall k string :: in(old(d.cache), k) && !in(d.cache, k) ==> (exists j int :: 0 <= j && j < len(result) && result[j].TraceID == k)
//@   ensures[still-synced] synced(d)
//@   loop 1 invariant[synced] d != nil && d.pq != nil && synced(d) && len(skipped) == 0
//@   loop 1 invariant[only-taken-traces-have-left] forall k string :: in(old(d.cache), k) && !in(d.cache, k) ==> (exists j int :: 0 <= j && j < len(expired) && expired[j].TraceID == k)
//@   loop 1 invariant[bounded] max > 0 ==> len(expired) <= max
//@   loop 1 invariant[taken] forall j int :: 0 <= j && j < len(expired) ==> expired[j] != nil && in(old(d.cache), expired[j].TraceID) && old(d.cache)[expired[j].TraceID] == expired[j] && !in(d.cache, expired[j].TraceID) && !now.Before(expired[j].SendBy)
//@   loop 1 invariant[sorted] forall a int, b int :: 0 <= a && a < b && b < len(expired) ==> !expired[b].SendBy.Before(expired[a].SendBy)
//@   loop 1 invariant[rest-is-later] forall k string, j int :: pqHas(d.pq, k) && 0 <= j && j < len(expired) ==> !pqVal(d.pq, k).Before(expired[j].SendBy)
//@   loop 1 invariant[others-stay] forall k string :: in(d.cache, k) ==> in(old(d.cache), k) && d.cache[k] == old(d.cache)[k]
//@   loop 2 invariant d != nil && d.pq != nil && synced(d)
//@   loop 1 exits[complete-unless-max] (max <= 0 || len(expired) < max) ==> (forall k string :: in(d.cache, k) ==> now.Before(d.cache[k].SendBy))
//@   modifies d.cache, pqHas(d.pq), pqVal(d.pq)

//@ contract collect/cache.(*DefaultInMemCache).RemoveTraces props C03,C07,C01,C02
//@   requires d != nil && d.pq != nil && synced(d)
//@   ensures[removed] forall k string :: in(d.cache, k) == (in(old(d.cache), k) && !in(toDelete, k))
//@   ensures[others-stay] forall k string :: in(d.cache, k) ==> d.cache[k] == old(d.cache)[k]
//@   ensures[still-synced] synced(d)
//@   loop 1 invariant d != nil && d.pq != nil && synced(d) && (forall k string :: in(d.cache, k) ==> in(old(d.cache), k) && d.cache[k] == old(d.cache)[k]) && (forall k string :: in(old(d.cache), k) && !in(toDelete, k) ==> in(d.cache, k))
//@   loop 1 invariant[visited-are-gone] forall j int :: 0 <= j && j < iter ==> !in(d.cache, ranged[j])
//@   loop 1 invariant[members-are-listed] forall j int :: 0 <= j && j < len(ranged) ==> in(toDelete, ranged[j])
//@   modifies d.cache, pqHas(d.pq), pqVal(d.pq)

// ---- C31: the decision cache.
// KeptReasonsCache interns reason strings: Get(Set(r)) gives back r.
//@ spec reasonHash(c *KeptReasonsCache, s string) uint64 := wyhash.Hash([]byte(s), c.hashSeed)
//@ spec indexed(c *KeptReasonsCache) bool := forall h uint64 :: in(c.keys, h) ==> 1 <= c.keys[h] && toInt(c.keys[h]) <= len(c.data) && reasonHash(c, c.data[toInt(c.keys[h]) - 1]) == h
//@ objinv collect/cache.KeptReasonsCache indexed : indexed(this)
//@ contract collect/cache.(*KeptReasonsCache).Set props C31
//@   arith math
//@   requires c != nil
//@   domain[table-fits] len(c.data) < 1<<31
// two different reasons with the same 64-bit hash would share an entry: excluded (not claimed)
//@   domain[no-hash-collision] in(c.keys, reasonHash(c, key)) ==> c.data[toInt(c.keys[reasonHash(c, key)]) - 1] == key
//@   ensures[index-names-the-reason] 1 <= result && toInt(result) <= len(c.data) && c.data[toInt(result) - 1] == key
//@   ensures[earlier-entries-stay] len(c.data) >= old(len(c.data)) && (forall j int :: 0 <= j && j < old(len(c.data)) ==> c.data[j] == old(c.data)[j])
//@   modifies c.data, c.keys, c.mu
//@ contract collect/cache.(*KeptReasonsCache).Get props C31,C28
//@   arith math
//@   requires c != nil
//@   domain[index-is-a-32-bit-value] key < 1<<32
//@   ensures[known-index] 1 <= key && toInt(key) <= len(c.data) ==> result1 && result0 == c.data[toInt(key) - 1]
//@   ensures[unknown-index] !(1 <= key && toInt(key) <= len(c.data)) ==> !result1 && result0 == ""
//@   modifies c.mu

// The kept-decision LRU (github.com/hashicorp/golang-lru/v2) and the dropped-trace filter are dependencies /
// concurrent components: ASSUMED, as abstract maps. Which entries an LRU of a given capacity retains is the
// library's contract; here: an entry just added or just read is present.
//@ ghost lruHas(ref, string) bool
//@ ghost lruVal(ref, string) ref
//@ ghost lruLen(ref) int
//@ ghost lruCap(ref) int
//@ ghost lruAge(ref, string) int
//@ assume github.com/hashicorp/golang-lru/v2.(*Cache).Add
//@   ghostupdate lruHas(c), lruVal(c), lruLen(c), lruAge(c) :: lruHas(c, p0) && toInt(lruVal(c, p0)) == toInt(p1) && (forall k string :: k != p0 ==> (lruHas(c, k) ==> old(lruHas(c, k))) && toInt(lruVal(c, k)) == toInt(old(lruVal(c, k)))) && ((old(lruHas(c, p0)) || old(lruLen(c)) < lruCap(c)) ==> (forall k string :: k != p0 ==> lruHas(c, k) == old(lruHas(c, k))) && lruLen(c) == old(lruLen(c)) + ite(old(lruHas(c, p0)), 0, 1)) && lruLen(c) <= lruCap(c) && lruAge(c, p0) == lruLen(c) - 1
// Get counts as use: the entry becomes the newest. Peek reads without touching recency.
//@ assume github.com/hashicorp/golang-lru/v2.(*Cache).Get
//@   ensures result1 == lruHas(c, p0) && (result1 ==> toInt(result0) == toInt(lruVal(c, p0)))
//@   ghostupdate lruAge(c) :: result1 ==> lruAge(c, p0) == lruLen(c) - 1
//@ assume github.com/hashicorp/golang-lru/v2.(*Cache).Peek
//@   ensures result1 == lruHas(c, p0) && (result1 ==> toInt(result0) == toInt(lruVal(c, p0)))
// droppedSet: IDs added to the filter and still within its promise (no queue overflow, not yet rotated out)
//@ ghost droppedSet(ref, string) bool
//@ assume collect/cache.(*CuckooTraceChecker).Add
//@   ghostupdate droppedSet(c) :: forall k string :: droppedSet(c, k) == (old(droppedSet(c, k)) || k == traceID)
//@ assume collect/cache.(*CuckooTraceChecker).Check
//@   ensures[no-false-negative] droppedSet(c, traceID) ==> result
// The trace handed to Record is a *types.Trace (the only implementation of KeptTrace outside tests).
//@ assume collect/cache.KeptTrace.ID
//@   ensures result == asPtr(this, *types.Trace).TraceID
//@ assume collect/cache.KeptTrace.SampleRate
//@   ensures result == asPtr(this, *types.Trace).sampleRate
//@ assume collect/cache.KeptTrace.KeptReason
//@   ensures result == asPtr(this, *types.Trace).keptReason
//@ assume collect/cache.KeptTrace.SetKeptReason
//@   ensures asPtr(this, *types.Trace).keptReason == p0
//@   modifies asPtr(this, *types.Trace).keptReason
//@ assume collect/cache.KeptTrace.DescendantCount getter
//@ assume collect/cache.KeptTrace.SpanEventCount getter
//@ assume collect/cache.KeptTrace.SpanLinkCount getter
//@ assume collect/cache.KeptTrace.SpanCount getter
//@ contract collect/cache.NewKeptTraceCacheEntry props C31,C01
//@   arith wraps
//@   requires asPtr(t, *types.Trace) != nil
//@   ensures[fresh-entry-with-the-traces-rate-and-reason] result != nil && isFresh(result) && toInt(result.rate) == toInt(asPtr(t, *types.Trace).sampleRate) % 4294967296 && toInt(result.reason) == toInt(asPtr(t, *types.Trace).keptReason) % 4294967296
//@   modifies nothing
//@ contract collect/cache.(*keptTraceCacheEntry).Kept inline
//@ contract collect/cache.(*cuckooDroppedRecord).Kept inline

// Record: a kept decision is stored with the trace's rate and an index naming its reason; a dropped one is
// put into the dropped-trace filter. CheckSpan / CheckTrace: dropped wins over kept; a kept entry answers
// with the recorded rate and reason; nothing remembered answers not-found.
//@ contract collect/cache.(*cuckooSentCache).Record props C31,C01
//@   arith math
//@   requires c != nil && c.kept != nil && c.dropped != nil && c.recentDroppedIDs != nil && c.keptReasons != nil && asPtr(trace, *types.Trace) != nil
//@   requires[reasons-indexed] indexed(c.keptReasons)
//@   domain[table-fits] len(c.keptReasons.data) < 1<<31
//@   domain[no-hash-collision] in(c.keptReasons.keys, reasonHash(c.keptReasons, reason)) ==> c.keptReasons.data[toInt(c.keptReasons.keys[reasonHash(c.keptReasons, reason)]) - 1] == reason
//@   let id = asPtr(trace, *types.Trace).TraceID
//@   ensures[kept-is-remembered] keep ==> lruHas(c.kept, id) && isFresh(lruVal(c.kept, id))
//@   ensures[recording-makes-it-the-newest] keep ==> lruAge(c.kept, id) == lruLen(c.kept) - 1
//@   ensures[kept-rate] keep ==> toInt(asPtr(lruVal(c.kept, id), *keptTraceCacheEntry).rate) == toInt(asPtr(trace, *types.Trace).sampleRate) % 4294967296
//@   ensures[kept-reason] keep && len(c.keptReasons.data) < 1<<31 ==> 1 <= asPtr(lruVal(c.kept, id), *keptTraceCacheEntry).reason && toInt(asPtr(lruVal(c.kept, id), *keptTraceCacheEntry).reason) <= len(c.keptReasons.data) && c.keptReasons.data[toInt(asPtr(lruVal(c.kept, id), *keptTraceCacheEntry).reason) - 1] == reason
//@   ensures[dropped-is-remembered] !keep ==> droppedSet(c.dropped, id)
// the filter is filled through a queue drained a moment later (and drops IDs when the queue is full): the set of
// recent drops is what makes a drop decision visible to the very next lookup
//@   ensures[a-drop-is-visible-at-once] !keep ==> in(c.recentDroppedIDs.Items, id)
//@   ensures[dropped-decisions-are-never-forgotten-by-record] forall k string :: old(droppedSet(c.dropped, k)) ==> droppedSet(c.dropped, k)
//@   modifies c.keptReasons.data, c.keptReasons.keys, c.keptReasons.mu, asPtr(trace, *types.Trace).keptReason, all(lruHas), all(lruVal), all(lruLen), all(lruAge), all(droppedSet), c.recentDroppedIDs.Items

//@ contract collect/cache.(*cuckooSentCache).CheckTrace props C31
//@   arith math
//@   requires c != nil && c.kept != nil && c.dropped != nil && c.keptReasons != nil
//@   requires[reasons-indexed] indexed(c.keptReasons)
//@   ensures[dropped-wins] droppedSet(c.dropped, traceID) ==> result2 && isType(result0, *cuckooDroppedRecord) && !result0.Kept()
//@   ensures[nothing-remembered-means-not-found] !result2 ==> !lruHas(c.kept, traceID) && !droppedSet(c.dropped, traceID)
//@   ensures[kept-record-is-the-stored-one] result2 && !isType(result0, *cuckooDroppedRecord) ==> lruHas(c.kept, traceID) && toInt(result0) == toInt(lruVal(c.kept, traceID))
//@   ensures[kept-reason-is-the-interned-one] result2 && !isType(result0, *cuckooDroppedRecord) && 1 <= asPtr(lruVal(c.kept, traceID), *keptTraceCacheEntry).reason && toInt(asPtr(lruVal(c.kept, traceID), *keptTraceCacheEntry).reason) <= len(c.keptReasons.data) ==> result1 == c.keptReasons.data[toInt(asPtr(lruVal(c.kept, traceID), *keptTraceCacheEntry).reason) - 1]
//@   modifies c.keptReasons.mu, all(lruAge)

// CheckSpan is CheckTrace plus a short-lived memo of recently seen dropped IDs and the span count of kept entries.
//@ assume collect/cache.(*keptTraceCacheEntry).Count
//@   modifies t.eventCount, t.spanEventCount, t.spanLinkCount, t.spanCount, s.annotationType
//@ contract collect/cache.(*cuckooSentCache).CheckSpan props C31,C01
//@   arith math
//@   requires c != nil && c.kept != nil && c.dropped != nil && c.keptReasons != nil && c.recentDroppedIDs != nil && span != nil
//@   requires[reasons-indexed] indexed(c.keptReasons)
//@   let id = span.TraceID
//@   ensures[dropped-wins] droppedSet(c.dropped, id) ==> result2 && isType(result0, *cuckooDroppedRecord) && !result0.Kept()
//@   ensures[nothing-remembered-means-not-found] !result2 ==> !lruHas(c.kept, id) && !droppedSet(c.dropped, id)
//@   ensures[kept-is-found] lruHas(c.kept, id) ==> result2
//@   ensures[kept-record-is-the-stored-one] result2 && !isType(result0, *cuckooDroppedRecord) ==> lruHas(c.kept, id) && toInt(result0) == toInt(lruVal(c.kept, id))
//@   ensures[consulting-makes-it-the-newest] result2 && !isType(result0, *cuckooDroppedRecord) ==> lruAge(c.kept, id) == lruLen(c.kept) - 1
//@   ensures[kept-reason-is-the-interned-one] result2 && !isType(result0, *cuckooDroppedRecord) && 1 <= asPtr(lruVal(c.kept, id), *keptTraceCacheEntry).reason && toInt(asPtr(lruVal(c.kept, id), *keptTraceCacheEntry).reason) <= len(c.keptReasons.data) ==> result1 == c.keptReasons.data[toInt(asPtr(lruVal(c.kept, id), *keptTraceCacheEntry).reason) - 1]
//@   ensures[remembered-decisions-stay] (forall k string :: lruHas(c.kept, k) == old(lruHas(c.kept, k)) && toInt(lruVal(c.kept, k)) == toInt(old(lruVal(c.kept, k)))) && (forall k string :: droppedSet(c.dropped, k) == old(droppedSet(c.dropped, k)))
//@   modifies c.keptReasons.mu, c.recentDroppedIDs.Items, all(lruAge), span.annotationType, field(keptTraceCacheEntry, eventCount), field(keptTraceCacheEntry, spanEventCount), field(keptTraceCacheEntry, spanLinkCount), field(keptTraceCacheEntry, spanCount)

// Resize: the new kept-decision LRU holds exactly the newest entries of the old one, up to the new
// capacity, with their records; nothing is invented. (Which entries are "newest" is the order of the
// library's Keys(): oldest first - assumed.)
//@ assume github.com/hashicorp/golang-lru/v2.New
//@   ensures size > 0 ==> result1 == nil
//@   ensures result1 == nil ==> result0 != nil && isFresh(result0) && (forall k string :: !lruHas(result0, k)) && lruLen(result0) == 0 && lruCap(result0) == size
//@ assume github.com/hashicorp/golang-lru/v2.(*Cache).Keys
//@   ensures[oldest-first-listing] len(result) == lruLen(c) && (forall i int :: 0 <= i && i < len(result) ==> lruHas(c, result[i]) && lruAge(c, result[i]) == i) && (forall k string :: lruHas(c, k) ==> 0 <= lruAge(c, k) && lruAge(c, k) < len(result) && result[lruAge(c, k)] == k)
//@ assume collect/cache.(*CuckooTraceChecker).SetNextCapacity
//@ contract config.SampleCacheConfig.GetKeptSizePerWorker inline
//@ contract config.SampleCacheConfig.GetDroppedSizePerWorker inline
// the monitor goroutine the cache starts reads cfg without a lock: it is written only while the cache is built
//@ final collect/cache.cuckooSentCache.cfg
//@ contract collect/cache.(*cuckooSentCache).Resize props C31,C01,C35,C16 havocheap
//@   arith math
//@   requires c != nil && c.kept != nil && c.dropped != nil
//@   let old0 = c.kept
//@   let n = lruLen(c.kept)
//@   let size = toInt(cfg.GetKeptSizePerWorker())
//@   domain[capacity-is-positive] 0 < size && size < 1<<31
//@   ensures[newest-survive-with-their-records] result == nil ==> (forall k string :: lruHas(old0, k) && old(lruAge(old0, k)) >= n - size ==> lruHas(c.kept, k) && toInt(lruVal(c.kept, k)) == toInt(lruVal(old0, k)))
//@   ensures[nothing-invented] result == nil ==> (forall k string :: lruHas(c.kept, k) ==> lruHas(old0, k) && toInt(lruVal(c.kept, k)) == toInt(lruVal(old0, k)) && old(lruAge(old0, k)) >= n - size)
//@   loop 1 invariant[same-caches] c != nil && toInt(c.kept) == toInt(old0) && stc != nil && toInt(stc) != toInt(old0) && n == lruLen(old0)
//@   loop 1 invariant[suffix-size] len(keys) <= size && len(keys) <= n && (len(keys) == n || len(keys) == size)
//@   loop 1 invariant[suffix-ages] forall j int :: 0 <= j && j < len(keys) ==> lruHas(old0, keys[j]) && old(lruAge(old0, keys[j])) == n - len(keys) + j
//@   loop 1 invariant[suffix-complete] forall k string :: lruHas(old0, k) && old(lruAge(old0, k)) >= n - len(keys) ==> old(lruAge(old0, k)) < n && keys[old(lruAge(old0, k)) - (n - len(keys))] == k
//@   loop 1 invariant[room-left] lruLen(stc) <= iter && lruCap(stc) == size
//@   loop 1 invariant[copied-so-far] forall j int :: 0 <= j && j < iter ==> lruHas(stc, keys[j]) && toInt(lruVal(stc, keys[j])) == toInt(lruVal(old0, keys[j]))
//@   loop 1 invariant[nothing-invented] forall k string :: lruHas(stc, k) ==> lruHas(old0, k) && toInt(lruVal(stc, k)) == toInt(lruVal(old0, k)) && old(lruAge(old0, k)) >= n - size
//@   loop 1 invariant[old-untouched] forall k string :: lruHas(old0, k) == old(lruHas(old0, k)) && toInt(lruVal(old0, k)) == toInt(old(lruVal(old0, k)))
//@   modifies c.kept, all(lruHas), all(lruVal), all(lruLen), all(lruAge), all(sentN)

// ---- C35: the reason table is shared by all users of one decision cache
//@ guarded_by collect/cache.KeptReasonsCache.mu: data, keys
//@ lockdiscipline collect/cache.KeptReasonsCache mu props C35

// ---- C31 (dropped-trace filter): the two-generation cuckoo filter. filterHas(f, id): id was inserted into filter f.
// drain moves IDs from the add queue into the current filter and, once it exists, into the future filter as well;
// Maintain starts the future filter when the current one is half full and, when the current one is full, promotes
// the future filter (which holds everything recorded since it was started) and starts a new empty one - it never
// replaces the current filter by nothing.
//@ ghost filterHas(ref, string) bool
//@ package github.com/panmari/cuckoofilter
//@ assume github.com/panmari/cuckoofilter.(*Filter).Insert
//@   ghostupdate filterHas(cf) :: forall k string :: filterHas(cf, k) == (old(filterHas(cf, k)) || k == string(data))
//@ assume github.com/panmari/cuckoofilter.(*Filter).LoadFactor getter
//@ assume github.com/panmari/cuckoofilter.NewFilter
//@   ensures result != nil && isFresh(result) && (forall k string :: !filterHas(result, k))
//@ package collect/cache
//@ assume time.NewTimer
//@ assume time.(*Timer).Stop
//@ assume time.Duration.Microseconds getter
//@ final collect/cache.CuckooTraceChecker.met
//@ fragment collect/cache.(*CuckooTraceChecker).drain loop 1 body props C31 noinv
//@   assert only none
//@   requires c != nil && c.current != nil
//@   let cur = c.current
//@   let fut = c.future
//@   ensures[the-filters-themselves-stay] toInt(c.current) == toInt(cur) && toInt(c.future) == toInt(fut)
//@   ensures[nothing-recorded-is-forgotten] (forall k string :: old(filterHas(cur, k)) ==> filterHas(cur, k)) && (fut != nil ==> (forall k string :: old(filterHas(fut, k)) ==> filterHas(fut, k)))
//@   ensures[what-enters-the-current-filter-enters-the-future-one-too] fut != nil ==> (forall k string :: filterHas(cur, k) && !old(filterHas(cur, k)) ==> filterHas(fut, k))
//@   modifies all(filterHas)
//@ contract collect/cache.(*CuckooTraceChecker).drain props C31 noinv
//@   assert only none
//@   requires c != nil && c.current != nil
//@   ensures[the-filters-themselves-stay] toInt(c.current) == toInt(old(c.current)) && toInt(c.future) == toInt(old(c.future))
//@   ensures[nothing-recorded-is-forgotten] forall f *cuckoo.Filter, k string :: old(filterHas(f, k)) ==> filterHas(f, k)
//@   loop 1 invariant[the-filters-themselves-stay] toInt(c.current) == toInt(old(c.current)) && toInt(c.future) == toInt(old(c.future)) && (forall f *cuckoo.Filter, k string :: old(filterHas(f, k)) ==> filterHas(f, k))
//@   modifies all(filterHas)
//@ contract collect/cache.(*CuckooTraceChecker).Maintain props C31 havocheap noinv
//@   arith math
//@   assert only none
//@   requires c != nil && c.current != nil
//@   ensures[there-is-always-a-current-filter] c.current != nil
//@   ensures[a-promoted-filter-is-the-future-one-and-the-new-future-is-empty] toInt(c.current) != toInt(old(c.current)) ==> c.future != nil && (forall k string :: !filterHas(c.future, k))
//@   modifies c.current, c.future, all(filterHas)
