//go:build verif

package cache

// Contracts for package collect/cache (comment-only; read by /verif/govc).

// ---- C03: the in-memory trace buffer. A map id -> trace plus a keyed priority queue of deadlines.
// The queue (github.com/rdleal/go-priorityq/kpq) is a dependency: its contract is ASSUMED, as an
// abstract map key -> priority (ghosts pqHas / pqVal) whose Pop returns a minimal entry.
//@ ghost pqHas(ref, string) bool
//@ ghost pqVal(ref, string) time
//@ assume github.com/rdleal/go-priorityq/kpq.(*KeyedPriorityQueue).IsEmpty
//@   ensures result == (forall k string :: !pqHas(pq, k))
//@ assume github.com/rdleal/go-priorityq/kpq.(*KeyedPriorityQueue).Pop
//@   ensures[ok-iff-nonempty] result2 == !(forall k string :: !old(pqHas(pq, k)))
//@   ensures[minimal] result2 ==> old(pqHas(pq, result0)) && result1 == old(pqVal(pq, result0)) && (forall k string :: old(pqHas(pq, k)) ==> !old(pqVal(pq, k)).Before(result1))
//@   ghostupdate pqHas(pq) :: forall k string :: pqHas(pq, k) == (old(pqHas(pq, k)) && !(result2 && k == result0))
//@ assume github.com/rdleal/go-priorityq/kpq.(*KeyedPriorityQueue).Push
//@   ghostupdate pqHas(pq), pqVal(pq) :: (forall k string :: pqHas(pq, k) == (old(pqHas(pq, k)) || k == p0)) && (forall k string :: pqVal(pq, k) == ite(k == p0 && !old(pqHas(pq, k)), p1, old(pqVal(pq, k))))
//@ assume github.com/rdleal/go-priorityq/kpq.(*KeyedPriorityQueue).Set
//@   ghostupdate pqHas(pq), pqVal(pq) :: (forall k string :: pqHas(pq, k) == (old(pqHas(pq, k)) || k == p0)) && (forall k string :: pqVal(pq, k) == ite(k == p0, p1, old(pqVal(pq, k))))
//@ assume github.com/rdleal/go-priorityq/kpq.(*KeyedPriorityQueue).Remove
//@   ghostupdate pqHas(pq) :: forall k string :: pqHas(pq, k) == (old(pqHas(pq, k)) && k != p0)

// Representation invariant: every buffered trace is stored under its own ID and queued with its deadline.
//@ spec synced(d *DefaultInMemCache) bool := forall k string :: in(d.cache, k) ==> d.cache[k] != nil && d.cache[k].TraceID == k && pqHas(d.pq, k) && pqVal(d.pq, k) == d.cache[k].SendBy

//@ contract collect/cache.(*DefaultInMemCache).Get props C03 function
//@   requires d != nil
//@   ensures result == ite(in(d.cache, traceID), d.cache[traceID], nil)
//@   modifies nothing

//@ contract collect/cache.(*DefaultInMemCache).Set props C03
//@   requires d != nil && d.pq != nil && synced(d)
//@   ensures[stored-under-its-id] trace != nil ==> d.cache == mapset(old(d.cache), trace.TraceID, trace)
//@   ensures[nil-is-ignored] trace == nil ==> d.cache == old(d.cache)
//@   ensures[queued-with-its-deadline] synced(d)
//@   modifies d.cache, pqHas(d.pq), pqVal(d.pq)

//@ contract collect/cache.(*DefaultInMemCache).TakeExpiredTraces props C03 localcalls
//@   arith math
//@   requires d != nil && d.pq != nil && synced(d)
//@   requires[no-filter] filter == nil
//@   ensures[taken-were-buffered-and-expired] forall j int :: 0 <= j && j < len(result) ==> result[j] != nil && in(old(d.cache), result[j].TraceID) && old(d.cache)[result[j].TraceID] == result[j] && !in(d.cache, result[j].TraceID) && !now.Before(result[j].SendBy)
//@   ensures[at-most-max] max > 0 ==> len(result) <= max
//@   ensures[earliest-first] forall a int, b int :: 0 <= a && a < b && b < len(result) ==> !result[b].SendBy.Before(result[a].SendBy)
//@   ensures[others-stay] forall k string :: in(d.cache, k) ==> in(old(d.cache), k) && d.cache[k] == old(d.cache)[k]
//@   ensures[nothing-expired-is-left-behind-below-max] (max <= 0 || len(result) < max) ==> (forall k string :: in(d.cache, k) ==> now.Before(d.cache[k].SendBy))
//@   ensures[still-synced] synced(d)
//@   loop 1 invariant[synced] d != nil && d.pq != nil && synced(d) && len(skipped) == 0
//@   loop 1 invariant[bounded] max > 0 ==> len(expired) <= max
//@   loop 1 invariant[taken] forall j int :: 0 <= j && j < len(expired) ==> expired[j] != nil && in(old(d.cache), expired[j].TraceID) && old(d.cache)[expired[j].TraceID] == expired[j] && !in(d.cache, expired[j].TraceID) && !now.Before(expired[j].SendBy)
//@   loop 1 invariant[sorted] forall a int, b int :: 0 <= a && a < b && b < len(expired) ==> !expired[b].SendBy.Before(expired[a].SendBy)
//@   loop 1 invariant[rest-is-later] forall k string, j int :: pqHas(d.pq, k) && 0 <= j && j < len(expired) ==> !pqVal(d.pq, k).Before(expired[j].SendBy)
//@   loop 1 invariant[others-stay] forall k string :: in(d.cache, k) ==> in(old(d.cache), k) && d.cache[k] == old(d.cache)[k]
//@   loop 2 invariant d != nil && d.pq != nil && synced(d)
//@   loop 1 exits[complete-unless-max] (max <= 0 || len(expired) < max) ==> (forall k string :: in(d.cache, k) ==> now.Before(d.cache[k].SendBy))
//@   modifies d.cache, pqHas(d.pq), pqVal(d.pq)

//@ contract collect/cache.(*DefaultInMemCache).RemoveTraces props C03,C07
//@   requires d != nil && d.pq != nil && synced(d)
//@   ensures[removed] forall k string :: in(d.cache, k) == (in(old(d.cache), k) && !in(toDelete, k))
//@   ensures[others-stay] forall k string :: in(d.cache, k) ==> d.cache[k] == old(d.cache)[k]
//@   ensures[still-synced] synced(d)
//@   loop 1 invariant d != nil && d.pq != nil && synced(d) && (forall k string :: in(d.cache, k) ==> in(old(d.cache), k) && d.cache[k] == old(d.cache)[k]) && (forall k string :: in(old(d.cache), k) && !in(toDelete, k) ==> in(d.cache, k))
//@   loop 1 invariant[visited-are-gone] forall j int :: 0 <= j && j < iter ==> !in(d.cache, ranged[j])
//@   loop 1 invariant[members-are-listed] forall j int :: 0 <= j && j < len(ranged) ==> in(toDelete, ranged[j])
//@   modifies d.cache, pqHas(d.pq), pqVal(d.pq)
