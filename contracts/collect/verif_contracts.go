//go:build verif

package collect

// Contracts for package collect (comment-only; read by /verif/govc).

//@ spec clientRate(r uint) uint := ite(r == 0, 1, r)

//@ contract collect.mergeTraceAndSpanSampleRates props C04,C05
//@   requires sp != nil && sp.Event != nil
//@   requires old(sp.SampleRate) < 1<<31
//@   requires 1 <= traceSampleRate && traceSampleRate < 1<<32
//@   ensures[final-rate] !dryRunMode ==> toInt(sp.SampleRate) == toInt(clientRate(old(sp.SampleRate))) * toInt(traceSampleRate)
//@   ensures[final-meta] !dryRunMode ==> toInt(sp.Data.MetaRefineryFinalSampleRate) == toInt(clientRate(old(sp.SampleRate))) * toInt(traceSampleRate)
//@   ensures[dryrun-rate] dryRunMode ==> sp.SampleRate == clientRate(old(sp.SampleRate))
//@   ensures[orig-meta-set] old(sp.SampleRate) != 0 ==> toInt(sp.Data.MetaRefineryOriginalSampleRate) == toInt(old(sp.SampleRate))
//@   ensures[orig-meta-kept] old(sp.SampleRate) == 0 ==> sp.Data.MetaRefineryOriginalSampleRate == old(sp.Data.MetaRefineryOriginalSampleRate)
//@   modifies sp.SampleRate, sp.Data
