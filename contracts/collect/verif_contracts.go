//go:build verif

package collect

// Contracts for package collect (comment-only; read by /verif/govc).

//@ spec clientRate(r uint) uint := ite(r == 0, 1, r)

//@ contract collect.mergeTraceAndSpanSampleRates props C04,C05
//@   requires sp != nil && sp.Event != nil
//@   requires old(sp.SampleRate) < 1<<31
//@   requires 1 <= traceSampleRate && traceSampleRate < 1<<32
//@   ensures[final-rate] !dryRunMode ==> toInt(sp.SampleRate) == toInt(clientRate(old(sp.SampleRate))) * toInt(traceSampleRate)
//@   ensures[final-meta] !dryRunMode ==> toInt(sp.Data.MetaRefineryFinalSampleRate) == toInt(clientRate(old(sp.SampleRate))) * toInt(traceSampleRate)
//@   ensures[dryrun-rate] dryRunMode ==> sp.SampleRate == clientRate(old(sp.SampleRate))
//@   ensures[orig-meta-set] old(sp.SampleRate) != 0 ==> toInt(sp.Data.MetaRefineryOriginalSampleRate) == toInt(old(sp.SampleRate))
//@   ensures[orig-meta-kept] old(sp.SampleRate) == 0 ==> sp.Data.MetaRefineryOriginalSampleRate == old(sp.Data.MetaRefineryOriginalSampleRate)
//@   modifies sp.SampleRate, sp.Data

// ---- C10: stress-relief deterministic sampling

//@ spec stressHash(id string) uint64 := wyhash.Hash([]byte(id), hashSeed)
//@ spec keepStress(id string, n uint64) bool := n <= 1 || toInt(stressHash(id)) <= 18446744073709551615 / toInt(n)

//@ objinv collect.StressRelief bound : this.sampleRate >= 1 ==> toInt(this.upperBound) == 18446744073709551615 / toInt(this.sampleRate)

//@ contract collect.(*StressRelief).UpdateFromConfig props C10 unshared
//@   requires s != nil
//@   let cfg = s.Config.GetStressReliefConfig()
//@   ensures[rate] s.sampleRate == ite(cfg.SamplingRate == 0, 1, cfg.SamplingRate)
//@   ensures[bound] toInt(s.upperBound) == 18446744073709551615 / toInt(s.sampleRate)
//@   ensures[levels] s.activateLevel == cfg.ActivationLevel && s.deactivateLevel == cfg.DeactivationLevel && toInt(s.minDuration) == toInt(cfg.MinimumActivationDuration)
//@   ensures[keeps-state] s.stressed == old(s.stressed) && s.stayOnUntil == old(s.stayOnUntil)
//@   modifies s.mode, s.activateLevel, s.deactivateLevel, s.sampleRate, s.minDuration, s.upperBound

//@ contract collect.(*StressRelief).GetSampleRate props C10
//@   requires s != nil
//@   ensures[keep] keep == keepStress(traceID, s.sampleRate)
//@   ensures[rate] toInt(rate) == ite(s.sampleRate <= 1, 1, toInt(s.sampleRate))
//@   modifies nothing

//@ lemma C10.stress-nested-keep props C10 : forall id string, m uint64, n uint64 :: 1 <= m && m <= n && keepStress(id, n) ==> keepStress(id, m)
//@ lemma C10.stress-rate1-keeps-all props C10 : forall id string :: keepStress(id, 1) && keepStress(id, 0)
