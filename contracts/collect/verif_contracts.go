//go:build verif

package collect

// Contracts for package collect (comment-only; read by /verif/govc).

//@ spec clientRate(r uint) uint := ite(r == 0, 1, r)

//@ contract collect.mergeTraceAndSpanSampleRates props C04,C05,C16
//@   requires sp != nil && sp.Event != nil
//@   requires old(sp.SampleRate) < 1<<31
//@   requires 1 <= traceSampleRate && traceSampleRate < 1<<32
//@   ensures[final-rate] !dryRunMode ==> toInt(sp.SampleRate) == toInt(clientRate(old(sp.SampleRate))) * toInt(traceSampleRate)
//@   ensures[final-meta] !dryRunMode ==> toInt(sp.Data.MetaRefineryFinalSampleRate) == toInt(clientRate(old(sp.SampleRate))) * toInt(traceSampleRate)
//@   ensures[dryrun-rate] dryRunMode ==> sp.SampleRate == clientRate(old(sp.SampleRate))
//@   ensures[orig-meta-set] old(sp.SampleRate) != 0 ==> toInt(sp.Data.MetaRefineryOriginalSampleRate) == toInt(old(sp.SampleRate))
//@   ensures[orig-meta-kept] old(sp.SampleRate) == 0 ==> sp.Data.MetaRefineryOriginalSampleRate == old(sp.Data.MetaRefineryOriginalSampleRate)
//@   ensures[generic-fields] forall k string :: k != "meta.dryrun.sample_rate" ==> in(sp.Data.memoizedFields, k) == in(old(sp.Data.memoizedFields), k) && sp.Data.memoizedFields[k] == old(sp.Data.memoizedFields)[k]
//@   ensures[generic-fields-untouched-outside-dry-run] !dryRunMode ==> sp.Data.memoizedFields == old(sp.Data.memoizedFields)
//@   modifies sp.SampleRate, sp.Data.MetaRefineryOriginalSampleRate, sp.Data.MetaRefineryFinalSampleRate, sp.Data.memoizedFields

// ---- C10: stress-relief deterministic sampling

//@ spec stressHash(id string) uint64 := wyhash.Hash([]byte(id), hashSeed)
//@ spec keepStress(id string, n uint64) bool := n <= 1 || toInt(stressHash(id)) <= 18446744073709551615 / toInt(n)

//@ objinv collect.StressRelief bound : this.sampleRate >= 1 ==> toInt(this.upperBound) == 18446744073709551615 / toInt(this.sampleRate)

//@ contract collect.(*StressRelief).UpdateFromConfig props C10 unshared
//@   requires s != nil
//@   let cfg = s.Config.GetStressReliefConfig()
//@   ensures[rate] s.sampleRate == ite(cfg.SamplingRate == 0, 1, cfg.SamplingRate)
//@   ensures[bound] toInt(s.upperBound) == 18446744073709551615 / toInt(s.sampleRate)
//@   ensures[levels] s.activateLevel == cfg.ActivationLevel && s.deactivateLevel == cfg.DeactivationLevel && toInt(s.minDuration) == toInt(cfg.MinimumActivationDuration)
//@   ensures[keeps-state] s.stressed == old(s.stressed) && s.stayOnUntil == old(s.stayOnUntil)
//@   modifies s.mode, s.activateLevel, s.deactivateLevel, s.sampleRate, s.minDuration, s.upperBound

//@ contract collect.(*StressRelief).GetSampleRate props C10
//@   requires s != nil
//@   ensures[keep] keep == keepStress(traceID, s.sampleRate)
//@   ensures[rate] toInt(rate) == ite(s.sampleRate <= 1, 1, toInt(s.sampleRate))
//@   modifies nothing

//@ lemma C10.stress-nested-keep props C10 : forall id string, m uint64, n uint64 :: 1 <= m && m <= n && keepStress(id, n) ==> keepStress(id, m)
//@ lemma C10.stress-rate1-keeps-all props C10 : forall id string :: keepStress(id, 1) && keepStress(id, 0)

// ---- C16: a span of a trace first seen under stress relief is decided on the spot by the
// deterministic rule, the decision is recorded, and a kept span goes upstream exactly once,
// marked meta.stressed, with key / dataset / host as they came in.
//@ contract collect.(*InMemCollector).getWorkerIDForTrace props C16,C01 function
//@   requires i != nil && len(i.workers) > 0
//@   ensures[index-in-range] 0 <= result && result < len(i.workers)
//@   modifies nothing
//@ contract types.(*Trace).SetSampleRate inline
//@ contract collect.(*InMemCollector).addAdditionalAttributes props C16,C06
//@   requires i != nil && sp != nil && sp.Event != nil
//@   let attrs = i.Config.GetAdditionalAttributes()
//@   domain[additional-attributes-are-user-fields] attrsAreUserFields(attrs)
//@   ensures[dedicated-fields-untouched] sp.Data.MetaStressed == old(sp.Data.MetaStressed) && sp.Data.MetaRefineryProbe == old(sp.Data.MetaRefineryProbe) && sp.Data.MetaRefineryLocalHostname == old(sp.Data.MetaRefineryLocalHostname) && sp.Data.MetaRefineryReason == old(sp.Data.MetaRefineryReason) && sp.Data.MetaRefinerySendReason == old(sp.Data.MetaRefinerySendReason) && sp.Data.MetaRefinerySampleKey == old(sp.Data.MetaRefinerySampleKey) && sp.Data.MetaSpanCount == old(sp.Data.MetaSpanCount) && sp.Data.MetaSpanEventCount == old(sp.Data.MetaSpanEventCount) && sp.Data.MetaSpanLinkCount == old(sp.Data.MetaSpanLinkCount) && sp.Data.MetaEventCount == old(sp.Data.MetaEventCount) && sp.Data.MetaRefineryOriginalSampleRate == old(sp.Data.MetaRefineryOriginalSampleRate) && sp.Data.MetaRefineryFinalSampleRate == old(sp.Data.MetaRefineryFinalSampleRate) && sp.Data.MetaTraceID == old(sp.Data.MetaTraceID)
//@   ensures[every-attribute-set] forall k string :: in(attrs, k) ==> in(sp.Data.memoizedFields, k) && isString(sp.Data.memoizedFields[k]) && anyString(sp.Data.memoizedFields[k]) == attrs[k]
//@   ensures[other-fields-kept] forall k string :: !in(attrs, k) ==> in(sp.Data.memoizedFields, k) == in(old(sp.Data.memoizedFields), k) && sp.Data.memoizedFields[k] == old(sp.Data.memoizedFields)[k]
//@   loop 1 invariant[dedicated] sp.Data.MetaStressed == old(sp.Data.MetaStressed) && sp.Data.MetaRefineryProbe == old(sp.Data.MetaRefineryProbe) && sp.Data.MetaRefineryLocalHostname == old(sp.Data.MetaRefineryLocalHostname) && sp.Data.MetaRefineryReason == old(sp.Data.MetaRefineryReason) && sp.Data.MetaRefinerySendReason == old(sp.Data.MetaRefinerySendReason) && sp.Data.MetaRefinerySampleKey == old(sp.Data.MetaRefinerySampleKey) && sp.Data.MetaSpanCount == old(sp.Data.MetaSpanCount) && sp.Data.MetaSpanEventCount == old(sp.Data.MetaSpanEventCount) && sp.Data.MetaSpanLinkCount == old(sp.Data.MetaSpanLinkCount) && sp.Data.MetaEventCount == old(sp.Data.MetaEventCount) && sp.Data.MetaRefineryOriginalSampleRate == old(sp.Data.MetaRefineryOriginalSampleRate) && sp.Data.MetaRefineryFinalSampleRate == old(sp.Data.MetaRefineryFinalSampleRate) && sp.Data.MetaTraceID == old(sp.Data.MetaTraceID)
//@   loop 1 invariant[seen-in-attrs] forall q string :: seen(q) ==> in(attrs, q)
//@   loop 1 invariant[seen-set] forall q string :: seen(q) ==> in(sp.Data.memoizedFields, q) && isString(sp.Data.memoizedFields[q]) && anyString(sp.Data.memoizedFields[q]) == attrs[q]
//@   loop 1 invariant[unseen-kept] forall q string :: !seen(q) ==> in(sp.Data.memoizedFields, q) == in(old(sp.Data.memoizedFields), q) && sp.Data.memoizedFields[q] == old(sp.Data.memoizedFields)[q]
//@   modifies sp.Data

//@ contract collect.(*InMemCollector).ProcessSpanImmediately props C16,C04
//@   requires i != nil && sp != nil && sp.Event != nil && owns(sp.Event) && len(i.workers) > 0
//@   requires[workers-built] forall k int :: 0 <= k && k < len(i.workers) ==> i.workers[k] != nil
//@   domain[additional-attributes-are-user-fields] attrsAreUserFields(i.Config.GetAdditionalAttributes())
//@   domain[rates-in-range] sp.SampleRate < 1<<31
//@   let w = i.workers[i.getWorkerIDForTrace(sp.TraceID)]
//@   let sc = w.sampleCache
//@   let found = result2of(sc.CheckSpan(sp))
//@   let rec = result0of(sc.CheckSpan(sp))
//@   let srKeep = result1of(i.StressRelief.GetSampleRate(sp.TraceID))
//@   let srRate = result0of(i.StressRelief.GetSampleRate(sp.TraceID))
//@   let rate = ite(found, rec.Rate(), srRate)
//@   domain[rate-in-range] 1 <= rate && rate < 1<<32
//@   ensures[always-processed] processed
//@   ensures[decision-follows-record-or-rule] keep == ite(found, rec.Kept(), srKeep)
//@   ensures[new-decision-recorded-once] !found ==> recN(sc) == old(recN(sc)) + 1 && recKept(sc) == srKeep && recID(sc) == sp.TraceID && recRate(sc) == toInt(srRate)
//@   ensures[known-decision-not-rerecorded] found ==> recN(sc) == old(recN(sc))
//@   ensures[kept-goes-upstream-exactly-once-marked] keep ==> enqN(i.Transmission) == old(enqN(i.Transmission)) + 1 && toInt(enqLast(i.Transmission)) == toInt(sp.Event) && enqStressed(i.Transmission) && enqKey(i.Transmission) == old(sp.APIKey) && enqDataset(i.Transmission) == old(sp.Dataset) && enqHost(i.Transmission) == old(sp.APIHost)
//@   ensures[kept-not-a-probe] keep && !(old(sp.Data.MetaRefineryProbe.HasValue) && old(sp.Data.MetaRefineryProbe.Value)) ==> !enqProbe(i.Transmission)
//@   ensures[kept-rate-is-client-times-trace] keep && !i.Config.GetIsDryRun() ==> enqRate(i.Transmission) == toInt(clientRate(old(sp.SampleRate))) * toInt(rate)
//@   ensures[dropped-goes-nowhere] !keep ==> enqN(i.Transmission) == old(enqN(i.Transmission)) && owns(sp.Event)
//@   ensures[never-buffered] addedN(i) == old(addedN(i))
//@   modifies sp.SampleRate, sp.Data, all(recN), all(recKept), all(recID), all(recRate), all(askedN), all(enqN), all(enqLast), all(enqHost), all(enqKey), all(enqDataset), all(enqProbe), all(enqStressed), all(enqRate), all(owns)

// ---- C05 / C06 / C01: a span arriving after its trace was decided follows that decision.
// Forwarded (exactly once) iff the trace was kept or dry run is on; never for a dropped trace.
//@ spec attrsAreUserFields(m map[string]string) bool := forall k string :: in(m, k) ==> !isMetaKey(k) && k != config.DryRunFieldName && k != "meta.dryrun.sample_rate"
//@ contract collect.(*InMemCollector).dealWithSentTrace props C05,C06,C01,C04,C02
//@   requires i != nil && sp != nil && sp.Event != nil && owns(sp.Event) && tr != nil
//@   domain[additional-attributes-are-user-fields] attrsAreUserFields(i.Config.GetAdditionalAttributes())
//@   domain[rates-in-range] sp.SampleRate < 1<<31 && 1 <= tr.Rate() && tr.Rate() < 1<<32
//@   domain[counts-in-range] tr.SpanCount() < 1<<62 && tr.SpanEventCount() < 1<<62 && tr.SpanLinkCount() < 1<<62 && tr.DescendantCount() < 1<<62
//@   let dry = i.Config.GetIsDryRun()
//@   let keep = tr.Kept()
//@   let attrs = i.Config.GetAdditionalAttributes()
//@   ensures[forwarded-exactly-once-iff-kept-or-dry-run] enqN(i.Transmission) == old(enqN(i.Transmission)) + ite(keep || dry, 1, 0) && (keep || dry ==> toInt(enqLast(i.Transmission)) == toInt(sp.Event))
//@   ensures[dropped-keeps-ownership] !(keep || dry) ==> owns(sp.Event)
//@   ensures[destination-unchanged] sp.APIKey == old(sp.APIKey) && sp.Dataset == old(sp.Dataset) && sp.APIHost == old(sp.APIHost)
//@   ensures[dry-run-carries-the-decision] dry ==> in(sp.Data.memoizedFields, config.DryRunFieldName) && isBool(sp.Data.memoizedFields[config.DryRunFieldName]) && anyBool(sp.Data.memoizedFields[config.DryRunFieldName]) == keep
//@   ensures[dry-run-keeps-client-rate] dry ==> clientRate(sp.SampleRate) == clientRate(old(sp.SampleRate))
//@   ensures[kept-rate-is-client-times-trace] !dry && keep ==> toInt(sp.SampleRate) == toInt(clientRate(old(sp.SampleRate))) * toInt(tr.Rate())
//@   ensures[hostname] (keep || dry) && i.hostname != "" ==> sp.Data.MetaRefineryLocalHostname == i.hostname
//@   ensures[late-reason] (keep || dry) && i.Config.GetAddRuleReasonToTrace() ==> sp.Data.MetaRefinerySendReason == TraceSendLateSpan && (len(keptReason) == 0 ==> sp.Data.MetaRefineryReason == "late arriving span")
//@   ensures[additional-attributes] (keep || dry) ==> (forall k string :: in(attrs, k) ==> in(sp.Data.memoizedFields, k) && isString(sp.Data.memoizedFields[k]) && anyString(sp.Data.memoizedFields[k]) == attrs[k])
//@   ensures[late-root-counts] keep && sp.IsRoot && i.Config.GetAddCountsToRoot() ==> sp.Data.MetaSpanCount == toInt(tr.SpanCount()) && sp.Data.MetaSpanEventCount == toInt(tr.SpanEventCount()) && sp.Data.MetaSpanLinkCount == toInt(tr.SpanLinkCount()) && sp.Data.MetaEventCount == toInt(tr.DescendantCount())
//@   ensures[late-root-span-count-only] keep && sp.IsRoot && !i.Config.GetAddCountsToRoot() && i.Config.GetAddSpanCountToRoot() ==> sp.Data.MetaSpanCount == toInt(tr.DescendantCount())
//@   modifies sp.SampleRate, sp.Data, all(enqN), all(enqLast), all(enqHost), all(enqKey), all(enqDataset), all(enqProbe), all(enqStressed), all(enqRate), all(owns)

// ---- C02 / C05 / C06: the sender goroutine. One span of a decided trace: forwarded exactly once,
// decorated as configured, with the composed sample rate and (dry run) the would-be decision.
//@ contract types.(*Trace).SampleRate inline
//@ contract types.(*Trace).DescendantCount inline
//@ assume types.(*Trace).SpanCount getter
// the cache-impact estimate is memoised in the trace; read as a stable value during one ejection
//@ assume types.(*Trace).CacheImpact getter
//@ assume types.(*Trace).SpanEventCount getter
//@ assume types.(*Trace).SpanLinkCount getter
//@ fragment collect.(*InMemCollector).sendTraces loop 2 body props C02,C05,C06,C04
//@   requires i != nil && sp != nil && sp.Event != nil && owns(sp.Event) && t.Trace != nil
// what makeDecision built: the queued record repeats the trace's own decision and rate
//@   requires[as-decided] t.rate == t.Trace.sampleRate && t.shouldSend == t.Trace.KeepSample
//@   domain[additional-attributes-are-user-fields] attrsAreUserFields(i.Config.GetAdditionalAttributes())
//@   domain[rates-in-range] sp.SampleRate < 1<<31 && 1 <= t.Trace.sampleRate && t.Trace.sampleRate < 1<<32
//@   domain[counts-in-range] len(t.Trace.spans) < 1<<31
//@   let dry = i.Config.GetIsDryRun()
//@   let attrs = i.Config.GetAdditionalAttributes()
//@   ensures[forwarded-exactly-once] enqN(i.Transmission) == old(enqN(i.Transmission)) + 1 && toInt(enqLast(i.Transmission)) == toInt(sp.Event)
//@   ensures[destination] sp.Dataset == old(sp.Dataset) && sp.APIHost == old(sp.APIHost) && sp.APIKey == t.Trace.APIKey
//@   ensures[dry-run-carries-the-decision] dry ==> in(sp.Data.memoizedFields, config.DryRunFieldName) && isBool(sp.Data.memoizedFields[config.DryRunFieldName]) && anyBool(sp.Data.memoizedFields[config.DryRunFieldName]) == t.shouldSend
//@   ensures[dry-run-keeps-client-rate] dry ==> sp.SampleRate == clientRate(old(sp.SampleRate))
//@   ensures[rate-is-client-times-trace] !dry ==> toInt(sp.SampleRate) == toInt(clientRate(old(sp.SampleRate))) * toInt(t.Trace.sampleRate)
//@   ensures[hostname] i.hostname != "" ==> sp.Data.MetaRefineryLocalHostname == i.hostname
//@   ensures[reasons] i.Config.GetAddRuleReasonToTrace() ==> sp.Data.MetaRefineryReason == t.reason && sp.Data.MetaRefinerySendReason == t.sendReason && (t.sampleKey != "" ==> sp.Data.MetaRefinerySampleKey == t.sampleKey)
//@   ensures[additional-attributes] forall k string :: in(attrs, k) ==> in(sp.Data.memoizedFields, k) && isString(sp.Data.memoizedFields[k]) && anyString(sp.Data.memoizedFields[k]) == attrs[k]
//@   ensures[root-counts] sp.IsRoot && i.Config.GetAddCountsToRoot() ==> sp.Data.MetaSpanCount == toInt(t.Trace.SpanCount()) && sp.Data.MetaSpanEventCount == toInt(t.Trace.SpanEventCount()) && sp.Data.MetaSpanLinkCount == toInt(t.Trace.SpanLinkCount()) && sp.Data.MetaEventCount == len(t.Trace.spans)
//@   ensures[root-span-count-only] sp.IsRoot && !i.Config.GetAddCountsToRoot() && i.Config.GetAddSpanCountToRoot() ==> sp.Data.MetaSpanCount == len(t.Trace.spans)
//@   modifies sp.SampleRate, sp.APIKey, sp.Data, all(enqN), all(enqLast), all(enqHost), all(enqKey), all(enqDataset), all(enqProbe), all(enqStressed), all(enqRate), all(owns)

// send(): a decided trace is queued for the sender exactly once when it is kept or dry run is on,
// never when it is dropped (dry run off) or already sent.
//@ ghost sentN(ref) int
//@ ghost sendN(ref) int
//@ ghost sendLastReason(ref) string
//@ ghost sendLastTrace(ref) ref
//@ contract collect.(*InMemCollector).send props C02,C05,C03,C06
//@   requires i != nil && trace.Trace != nil
//@   ghostupdate sendN(i), sendLastReason(i), sendLastTrace(i) :: sendN(i) == old(sendN(i)) + 1 && sendLastReason(i) == trace.sendReason && toInt(sendLastTrace(i)) == toInt(trace.Trace)
//@   ensures[marks-sent] trace.Trace.Sent
//@   let dry = i.Config.GetIsDryRun()
//@   ensures[queued-once-iff-kept-or-dry-run] sentN(i.tracesToSend) == old(sentN(i.tracesToSend)) + ite(!old(trace.Sent) && (trace.KeepSample || dry), 1, 0)
//@   modifies trace.Trace.Sent, sentN(i.tracesToSend), field(types.Event, Data.MetaSpanEventCount), field(types.Event, Data.MetaSpanLinkCount), field(types.Event, Data.MetaSpanCount), field(types.Event, Data.MetaEventCount), field(types.Event, Data.memoizedFields)

// ---- C01 / C02 / C03 / C07: the worker decides each buffered trace once.
// makeDecision: refuses a trace already sent; otherwise asks the sampler configured for the trace's
// destination once, stores the answer in the trace, records it in the decision cache exactly once, and
// returns a record that repeats it together with the send reason it was given.
//@ assume types.(*Payload).MemoizeFields
//@   modifies p.memoizedFields, p.missingFields
//@ contract types.(*Trace).ID inline
//@ contract types.(*Trace).GetSpans inline
//@ contract collect.(*CollectorWorker).makeDecision props C01,C02,C03,C07,C14,C12
//@   requires cl != nil && cl.parent != nil && trace != nil
//@   requires[spans-present] forall k int :: 0 <= k && k < len(trace.spans) ==> trace.spans[k] != nil && trace.spans[k].Event != nil
//@   let sc = cl.sampleCache
//@   ensures[already-sent-is-refused] old(trace.Sent) ==> err != nil && recN(sc) == old(recN(sc)) && trace.KeepSample == old(trace.KeepSample) && trace.sampleRate == old(trace.sampleRate)
//@   ensures[decided-and-recorded-once] !old(trace.Sent) ==> err == nil && recN(sc) == old(recN(sc)) + 1 && recID(sc) == trace.TraceID && recKept(sc) == trace.KeepSample && recRate(sc) == toInt(trace.sampleRate)
//@   ensures[record-repeats-the-decision] err == nil ==> toInt(s.Trace) == toInt(trace) && s.shouldSend == trace.KeepSample && s.rate == trace.sampleRate && s.sendReason == sendReason
//@   ensures[not-marked-sent-yet] trace.Sent == old(trace.Sent)
// C14: the sampler asked is the one kept for the trace's selector (created for that selector on first use)
//@   let sel = cl.parent.Config.DetermineSamplerKey(trace.APIKey, trace.Environment, trace.Dataset)
//@   ensures[sampler-of-the-destination-decides] err == nil ==> in(cl.datasetSamplers, sel) && (forall q int :: q == toInt(refOf(cl.datasetSamplers[sel])) ==> askedN(q) == old(askedN(q)) + 1) && (in(old(cl.datasetSamplers), sel) ==> toInt(cl.datasetSamplers[sel]) == toInt(old(cl.datasetSamplers)[sel]))
//@   ensures[other-selectors-keep-their-samplers] forall k string :: k != sel ==> in(cl.datasetSamplers, k) == in(old(cl.datasetSamplers), k) && toInt(cl.datasetSamplers[k]) == toInt(old(cl.datasetSamplers)[k])
//@   loop 1 invariant cl != nil && trace != nil && trace.Sent == old(trace.Sent) && recN(sc) == old(recN(sc)) && trace.spans == old(trace.spans)
//@   modifies trace.sampleRate, trace.KeepSample, cl.datasetSamplers, all(recN), all(recKept), all(recID), all(recRate), field(types.Event, Data.memoizedFields), field(types.Event, Data.missingFields), all(askedN)

// AddSpan appends the span to the trace (verified here; it is in package types).
//@ contract types.(*Trace).AddSpan props C01,C03
//@   arith math
//@   requires t != nil && sp != nil && sp.Event != nil
//@   ensures[appended] len(t.spans) == old(len(t.spans)) + 1 && toInt(t.spans[old(len(t.spans))]) == toInt(sp) && (forall k int :: 0 <= k && k < old(len(t.spans)) ==> toInt(t.spans[k]) == toInt(old(t.spans)[k]))
//@   ensures[identity-and-deadline-kept] t.TraceID == old(t.TraceID) && t.SendBy == old(t.SendBy) && t.Sent == old(t.Sent) && t.KeepSample == old(t.KeepSample) && t.RootSpan == old(t.RootSpan) && t.APIKey == old(t.APIKey) && t.Dataset == old(t.Dataset)
//@   modifies t.spans, t.DataSize, t.totalImpact, t.Environment, sp.ArrivalTime, sp.Event.dataSize

// processSpan: one arriving span.
//  - its trace is neither buffered nor remembered: a new trace is buffered, deadline TraceTimeout from now
//  - its trace is buffered and undecided: the span joins it; a root span pulls the deadline in to SendDelay
//    from now, exceeding SpanLimit pulls it in to now; the deadline never moves out
//  - its trace was decided: the span follows the recorded decision (dealWithSentTrace), it is not buffered
// Buffered traces are undecided (worker invariant: decided traces leave the buffer in the same step).
//@ spec orDefault(d time.Duration, def time.Duration) time.Duration := ite(d == 0, def, d)
//@ spec buffered(c cache.Cache, id string) *types.Trace := asPtr(cached(c, id), *types.Trace)
//@ contract collect.(*CollectorWorker).processSpan props C01,C02,C03,C05
//@   arith math
//@   requires[span-in-hand@C01,C02,C03,C05] cl != nil && cl.parent != nil && sp != nil && sp.Event != nil && owns(sp.Event)
//@   let tr0 = buffered(cl.cache, sp.TraceID)
//@   requires[buffered-traces-are-undecided@C01,C02,C03,C05] tr0 != nil ==> !tr0.Sent
//@   requires[buffer-is-keyed-by-trace-id@C01,C02,C03,C05] tr0 != nil ==> tr0.TraceID == sp.TraceID
//@   domain[additional-attributes-are-user-fields] attrsAreUserFields(cl.parent.Config.GetAdditionalAttributes())
//@   domain[rates-in-range] sp.SampleRate < 1<<31
//@   let found = result2of(cl.sampleCache.CheckSpan(sp))
//@   let rec = result0of(cl.sampleCache.CheckSpan(sp))
//@   domain[recorded-rates-in-range] found ==> rec != nil && 1 <= rec.Rate() && rec.Rate() < 1<<32 && rec.SpanCount() < 1<<62 && rec.SpanEventCount() < 1<<62 && rec.SpanLinkCount() < 1<<62 && rec.DescendantCount() < 1<<62
//@   let now = clockNow(cl.parent.Clock)
//@   let tcfg = cl.parent.Config.GetTracesConfig()
//@   let dry = cl.parent.Config.GetIsDryRun()
//@   let T = cl.parent.Transmission
//@   let c = cl.cache
//@   let id = sp.TraceID
//@   let n0 = ite(tr0 == nil, 0, len(tr0.spans))
//@   domain[counts-in-range] n0 < 1<<31
//@   let overLimit = tcfg.SpanLimit > 0 && n0 + 1 > toInt(tcfg.SpanLimit)
//@   let pull = ite(overLimit, now, now.Add(orDefault(tcfg.GetSendDelay(), 2 * time.Second)))
//@   let deadline0 = ite(tr0 == nil, now.Add(orDefault(tcfg.GetTraceTimeout(), 60 * time.Second)), tr0.SendBy)
//@   ensures[decided-trace-span-follows-the-record] tr0 == nil && found ==> enqN(T) == old(enqN(T)) + ite(rec.Kept() || dry, 1, 0) && buffered(c, id) == nil
//@   ensures[undecided-span-is-buffered-not-forwarded] !(tr0 == nil && found) ==> enqN(T) == old(enqN(T)) && buffered(c, id) != nil && len(buffered(c, id).spans) == n0 + 1 && toInt(buffered(c, id).spans[n0]) == toInt(sp) && buffered(c, id).TraceID == id && !buffered(c, id).Sent
//@   ensures[new-trace-is-fresh] tr0 == nil && !found ==> isFresh(buffered(c, id)) && buffered(c, id).ArrivalTime == now
//@   ensures[joins-its-trace] tr0 != nil ==> buffered(c, id) == tr0
//@   ensures[deadline] !(tr0 == nil && found) ==> buffered(c, id).SendBy == ite((sp.IsRoot || overLimit) && deadline0.After(pull), pull, deadline0)
//@   ensures[root-remembered] !(tr0 == nil && found) && sp.IsRoot ==> toInt(buffered(c, id).RootSpan) == toInt(sp)
//@   ensures[other-traces-untouched] forall k string :: k != id ==> toInt(cached(c, k)) == toInt(old(cached(c, k)))
//@   modifies cl.localSpanProcessed, cl.localSpansWaiting, sp.SampleRate, sp.Data, sp.ArrivalTime, sp.Event.dataSize, all(cached), all(enqN), all(enqLast), all(enqHost), all(enqKey), all(enqDataset), all(enqProbe), all(enqStressed), all(enqRate), all(owns), field(types.Trace, spans), field(types.Trace, DataSize), field(types.Trace, totalImpact), field(types.Trace, Environment), field(types.Trace, SendBy), field(types.Trace, RootSpan)

// A send tick takes expired traces from the buffer once, as of the tick's time, at most MaxExpiredTraces.
//@ contract collect.(*CollectorWorker).sendExpiredTracesInCache props C03,C02
//@   arith math
//@   requires cl != nil && cl.parent != nil
//@   let c = cl.cache
//@   let max = cl.parent.Config.GetTracesConfig().MaxExpiredTraces
//@   domain[max-fits] max < 1<<31
//@   ensures[one-take-per-tick-bounded] takeN(c) == old(takeN(c)) + 1 && takeMax(c) == toInt(max) && takeNow(c) == now
//@   loop 1 invariant[take] takeN(c) == old(takeN(c)) + 1 && takeMax(c) == toInt(max) && takeNow(c) == now && cl != nil && cl.parent != nil
//@   loop 1 invariant[traces] forall j int :: 0 <= j && j < len(traces) ==> traces[j] != nil && spansPresent(traces[j])
//@   modifies all(recN), all(recKept), all(recID), all(recRate), all(askedN), all(sendN), all(sendLastReason), all(sendLastTrace), all(sentN), all(cached), all(takeN), all(takeMax), all(takeNow), cl.datasetSamplers, field(types.Trace, Sent), field(types.Trace, sampleRate), field(types.Trace, KeepSample), field(types.Event, Data.MetaSpanEventCount), field(types.Event, Data.MetaSpanLinkCount), field(types.Event, Data.MetaSpanCount), field(types.Event, Data.MetaEventCount), field(types.Event, Data.memoizedFields), field(types.Event, Data.missingFields)

// One expired trace of a send tick: decided once, with the documented send reason, and handed to send once.
//@ spec spansPresent(t *types.Trace) bool := forall k int :: 0 <= k && k < len(t.spans) ==> t.spans[k] != nil && t.spans[k].Event != nil
//@ spec expiryReason(hasRoot bool, n int, limit int) string := ite(hasRoot, TraceSendGotRoot, ite(limit > 0 && n > limit, TraceSendSpanLimit, TraceSendExpired))
//@ fragment collect.(*CollectorWorker).sendExpiredTracesInCache loop 1 body props C03,C02
//@   arith math
//@   requires cl != nil && cl.parent != nil && t != nil && spansPresent(t)
//@   domain[counts-in-range] len(t.spans) < 1<<31
//@   let sc = cl.sampleCache
//@   let par = cl.parent
//@   ensures[decided-once-with-the-documented-reason] !old(t.Sent) ==> recN(sc) == old(recN(sc)) + 1 && recID(sc) == t.TraceID && sendN(par) == old(sendN(par)) + 1 && toInt(sendLastTrace(par)) == toInt(t) && sendLastReason(par) == expiryReason(t.RootSpan != nil, len(t.spans), toInt(spanLimit)) && t.Sent
//@   ensures[already-sent-is-skipped] old(t.Sent) ==> recN(sc) == old(recN(sc)) && sendN(par) == old(sendN(par))
//@   modifies all(recN), all(recKept), all(recID), all(recRate), all(askedN), all(sendN), all(sendLastReason), all(sendLastTrace), all(sentN), cl.datasetSamplers, t.Sent, t.sampleRate, t.KeepSample, field(types.Event, Data.MetaSpanEventCount), field(types.Event, Data.MetaSpanLinkCount), field(types.Event, Data.MetaSpanCount), field(types.Event, Data.MetaEventCount), field(types.Event, Data.memoizedFields), field(types.Event, Data.missingFields)

// ---- C07: memory-pressure ejection. Heaviest first; each visited trace is decided with the memory
// reason and handed to send; the visit stops as soon as the released size exceeds the request;
// every decided trace leaves the buffer.
//@ fragment collect.(*CollectorWorker).sendTracesEarly loop 1 body props C07,C02
//@   arith math
//@   requires cl != nil && cl.parent != nil && trace != nil && spansPresent(trace)
//@   let sc = cl.sampleCache
//@   let par = cl.parent
//@   ensures[decided-with-the-memory-reason] !old(trace.Sent) ==> recN(sc) == old(recN(sc)) + 1 && recID(sc) == trace.TraceID && sendN(par) == old(sendN(par)) + 1 && toInt(sendLastTrace(par)) == toInt(trace) && sendLastReason(par) == TraceSendEjectedMemsize && trace.Sent
//@   ensures[released-size-counted] !old(trace.Sent) ==> totalDataSizeSent == old(totalDataSizeSent) + trace.DataSize && in(tracesSent, trace.TraceID)
//@   ensures[already-sent-is-skipped] old(trace.Sent) ==> recN(sc) == old(recN(sc)) && sendN(par) == old(sendN(par)) && totalDataSizeSent == old(totalDataSizeSent)
//@   modifies all(recN), all(recKept), all(recID), all(recRate), all(askedN), all(sendN), all(sendLastReason), all(sendLastTrace), all(sentN), cl.datasetSamplers, trace.Sent, trace.sampleRate, trace.KeepSample, field(types.Event, Data.MetaSpanEventCount), field(types.Event, Data.MetaSpanLinkCount), field(types.Event, Data.MetaSpanCount), field(types.Event, Data.MetaEventCount), field(types.Event, Data.memoizedFields), field(types.Event, Data.missingFields)

//@ contract collect.(*CollectorWorker).sendTracesEarly props C07,C02
//@   arith math
//@   requires cl != nil && cl.parent != nil
//@   requires[a-positive-amount-is-requested@C07,C02] sendEarlyBytes >= 0
//@   let c = cl.cache
//@   requires[buffered-traces-are-undecided@C07,C02] forall k string :: toInt(cached(c, k)) != 0 ==> !buffered(c, k).Sent && buffered(c, k).TraceID == k
//@   ensures[decided-traces-leave-the-buffer] forall k string :: toInt(cached(c, k)) != 0 ==> !buffered(c, k).Sent
//@   loop 1 invariant[visit] cl != nil && cl.parent != nil && toInt(c) == toInt(cl.cache) && (forall j int :: 0 <= j && j < len(allTraces) ==> allTraces[j] != nil && spansPresent(allTraces[j]) && toInt(cached(c, allTraces[j].TraceID)) == toInt(allTraces[j]))
//@   loop 1 invariant[heaviest-first] forall a int, b int :: 0 <= a && a < b && b < len(allTraces) ==> allTraces[a].CacheImpact(traceTimeout) >= allTraces[b].CacheImpact(traceTimeout)
//@   loop 1 invariant[stop-when-enough] totalDataSizeSent <= sendEarlyBytes
//@   loop 1 invariant[sent-are-listed] forall k string :: toInt(cached(c, k)) != 0 && buffered(c, k).Sent ==> in(tracesSent, k)
//@   loop 1 invariant[buffer-unchanged] forall k string :: toInt(cached(c, k)) == toInt(old(cached(c, k)))
//@   loop 1 exits[stops-only-when-enough-or-empty] totalDataSizeSent > sendEarlyBytes || iter == len(allTraces)
//@   modifies cl.lastCacheSize, all(recN), all(recKept), all(recID), all(recRate), all(askedN), all(sendN), all(sendLastReason), all(sendLastTrace), all(sentN), all(cached), cl.datasetSamplers, field(types.Trace, Sent), field(types.Trace, sampleRate), field(types.Trace, KeepSample), field(types.Event, Data.MetaSpanEventCount), field(types.Event, Data.MetaSpanLinkCount), field(types.Event, Data.MetaSpanCount), field(types.Event, Data.MetaEventCount), field(types.Event, Data.memoizedFields), field(types.Event, Data.missingFields)

// checkAlloc: over budget, every worker is asked exactly once to release an equal share of the overage;
// within budget nobody is asked.
//@ ghost sent_bytesToSend(ref, int) int
//@ contract config.CollectionConfig.GetMaxAlloc inline
//@ assume config.Config.GetCollectionConfig getter
//@ assume collect.(*CollectorWorker).GetCacheSize getter
//@ contract collect.(*InMemCollector).checkAlloc props C07
//@   arith math
//@   requires i != nil && len(i.workers) > 0 && len(i.memMetricSample) > 0
//@   requires[workers-built] forall k int :: 0 <= k && k < len(i.workers) ==> i.workers[k] != nil
//@   requires[own-channels] forall a int, b int :: 0 <= a && a < b && b < len(i.workers) ==> toInt(refOf(i.workers[a].sendEarly)) != toInt(refOf(i.workers[b].sendEarly))
//@   ensures[all-workers-asked-once-or-none] (forall k int :: 0 <= k && k < len(i.workers) ==> sentN(i.workers[k].sendEarly) == old(sentN(i.workers[k].sendEarly)) + 1) || (forall k int :: 0 <= k && k < len(i.workers) ==> sentN(i.workers[k].sendEarly) == old(sentN(i.workers[k].sendEarly)))
//@   loop 1 invariant[over-budget-equal-shares] maxAlloc != 0 && toInt(currentAlloc) >= toInt(maxAlloc) && (toInt(currentAlloc) - toInt(maxAlloc) < 1<<62 ==> perWorkerToRemove == (toInt(currentAlloc) - toInt(maxAlloc)) / len(i.workers))
//@   loop 1 invariant[asked-so-far] (forall k int :: 0 <= k && k < iter ==> sentN(i.workers[k].sendEarly) == old(sentN(i.workers[k].sendEarly)) + 1 && sent_bytesToSend(i.workers[k].sendEarly, old(sentN(i.workers[k].sendEarly))) == perWorkerToRemove) && (forall k int :: iter <= k && k < len(i.workers) ==> sentN(i.workers[k].sendEarly) == old(sentN(i.workers[k].sendEarly)))
//@   loop 1 exits[everyone-asked] iter == len(i.workers)
//@   loop 2 invariant forall k int :: 0 <= k && k < len(i.workers) ==> sentN(i.workers[k].sendEarly) == old(sentN(i.workers[k].sendEarly)) + 1
//@   modifies all(sentN), all(sent_bytesToSend)

// ---- C15: stress relief switches with hysteresis on a bounded stress level

//@ contract collect.clamp props C15
//@   ensures[inside-range] min <= max ==> min <= result && result <= max
//@   ensures[identity-inside] min <= f && f <= max ==> result == f
//@   modifies nothing

//@ contract collect.(*StressRelief).ratio props C15
//@   requires s != nil
//@   ensures[unit-interval] 0 <= result && result <= 1
//@   modifies nothing

//@ contract collect.(*StressRelief).linear props C15
//@   requires s != nil
//@   ensures[unit-interval] 0 <= result && result <= 1
//@   modifies nothing

//@ contract collect.(*StressRelief).sqrt props C15
//@   requires s != nil
//@   ensures[unit-interval] 0 <= result && result <= 1
//@   modifies nothing

//@ contract collect.(*StressRelief).square props C15
//@   requires s != nil
//@   ensures[unit-interval] 0 <= result && result <= 1
//@   modifies nothing

//@ contract collect.(*StressRelief).sigmoid props C15
//@   requires s != nil
//@   ensures[just-about-unit-interval] -0.0000001 <= result && result <= 1.0000001
//@   modifies nothing

// The cluster level: every level at most 100 in, at most 100 out; expired reports leave the table.
//@ lemma C15.square-bound props C15 : forall x uint :: x <= 100 ==> toInt(x) * toInt(x) <= 10000
//@ contract collect.(*StressRelief).clusterStressLevel props C15
//@   arith math
//@   assert uses C15.square-bound
//@   requires s != nil
//@   requires[levels-bounded@C15] localLevel <= 100 && (forall k string :: in(s.stressLevels, k) ==> s.stressLevels[k].level <= 100)
//@   requires[table-keyed-by-node@C15] forall k string :: in(s.stressLevels, k) ==> s.stressLevels[k].key == k
//@   ensures[bounded] result <= 100
//@   ensures[own-report-recorded-or-expired] forall k string :: in(s.stressLevels, k) ==> (in(old(s.stressLevels), k) || k == s.hostID)
// the node's own level as of this recalculation is what its entry says afterwards - whatever the level, zero included
// (a stale higher entry would keep feeding the cluster level after the node has calmed down)
//@   ensures[own-report-is-this-recalculation-s-level] in(s.stressLevels, s.hostID) && s.stressLevels[s.hostID].level == localLevel && s.stressLevels[s.hostID].key == s.hostID
//@   ensures[table-stays-keyed-by-node] forall k string :: in(s.stressLevels, k) ==> s.stressLevels[k].key == k
//@   ensures[levels-stay-bounded] forall k string :: in(s.stressLevels, k) ==> s.stressLevels[k].level <= 100
//@   loop 1 invariant[sum-bound] 0 <= availablePeers && 0 <= total && total <= toReal(availablePeers) * 10000
//@   loop 1 invariant[table] forall k string :: in(s.stressLevels, k) ==> s.stressLevels[k].level <= 100 && (in(old(s.stressLevels), k) || k == s.hostID)
//@   loop 1 invariant[own-report-stays] s != nil && in(s.stressLevels, s.hostID) && s.stressLevels[s.hostID].level == localLevel && s.stressLevels[s.hostID].timestamp == clockNow(s.Clock) && (forall k string :: in(s.stressLevels, k) ==> s.stressLevels[k].key == k)
//@   modifies s.stressLevels

// One step of the relief state machine (Monitor mode), as the statement words it.
//@ spec reliefOn(was bool, level uint, activate uint) bool := was || level >= activate
//@ spec nextStayOn(was bool, stay time.Time, level uint, activate uint, deactivate uint, now time.Time, minD time.Duration) time.Time := ite(reliefOn(was, level, activate) && level >= deactivate, now.Add(minD), stay)
//@ spec nextStressed(was bool, stay time.Time, level uint, activate uint, deactivate uint, now time.Time, minD time.Duration) bool := reliefOn(was, level, activate) && !(level < deactivate && now.After(nextStayOn(was, stay, level, activate, deactivate, now, minD)))

//@ contract collect.(*StressRelief).Recalc props C15 localcalls
//@   arith math
//@   assert callresults 0 <= result && result <= 1.0000001
//@   requires s != nil
//@   requires[peer-levels-bounded@C15] forall k string :: in(s.stressLevels, k) ==> s.stressLevels[k].level <= 100
//@   requires[table-keyed-by-node@C15] forall k string :: in(s.stressLevels, k) ==> s.stressLevels[k].key == k
//@   let now = clockNow(s.Clock)
//@   ensures[level-is-larger-of-own-and-cluster] s.overallStressLevel == max(clusterStressLevel, result)
//@   ensures[level-bounded] result <= 100 && s.overallStressLevel <= 100
//@   ensures[never-mode] s.mode == Never ==> !s.stressed
//@   ensures[always-mode] s.mode == Always ==> s.stressed
//@   ensures[monitor-stay-on] s.mode == Monitor ==> s.stayOnUntil == nextStayOn(old(s.stressed), old(s.stayOnUntil), s.overallStressLevel, s.activateLevel, s.deactivateLevel, now, s.minDuration)
//@   ensures[monitor-switch] s.mode == Monitor ==> s.stressed == nextStressed(old(s.stressed), old(s.stayOnUntil), s.overallStressLevel, s.activateLevel, s.deactivateLevel, now, s.minDuration)
//@   ensures[thresholds-untouched] s.mode == old(s.mode) && s.activateLevel == old(s.activateLevel) && s.deactivateLevel == old(s.deactivateLevel) && s.minDuration == old(s.minDuration)
//@   loop 1 invariant 0 <= maximumLevel && maximumLevel <= 100.00001
//@   modifies s.overallStressLevel, s.reason, s.formula, s.stressed, s.stayOnUntil, s.stressLevels

// History lemma (induction step over Recalc calls in Monitor mode; thresholds constant,
// deactivate <= activate as documented): with ghost lastHigh = the last instant at which
// relief was on and the level was at or above DeactivationLevel,
//   invariant: stressed ==> stayOnUntil == lastHigh + minDuration
// and relief switches off only below DeactivationLevel and more than MinimumActivationDuration
// after lastHigh; it switches on exactly when the level reaches ActivationLevel.
//@ lemma C15.hysteresis-step props C15 : forall was bool, stay time.Time, lastHigh time.Time, level uint, act uint, deact uint, now time.Time, minD time.Duration :: deact <= act && (was ==> stay == lastHigh.Add(minD)) ==> (nextStressed(was, stay, level, act, deact, now, minD) ==> nextStayOn(was, stay, level, act, deact, now, minD) == ite(reliefOn(was, level, act) && level >= deact, now, lastHigh).Add(minD)) && (was && !nextStressed(was, stay, level, act, deact, now, minD) ==> level < deact && now.Sub(lastHigh) > minD) && (!was ==> (nextStressed(was, stay, level, act, deact, now, minD) == (level >= act)))
//@ lemma C15.stays-on-while-high props C15 : forall was bool, stay time.Time, level uint, act uint, deact uint, now time.Time, minD time.Duration :: was && level >= deact ==> nextStressed(was, stay, level, act, deact, now, minD)

// ---- C28: panic-freedom of the peer stress message decoder, for every message
//@ contract collect.newStressReliefMessage inline
//@ contract collect.unmarshalStressReliefMessage props C28
//@   arith wraps
//@   modifies nothing

// ---- C28: start-up with validated settings. No validation rule gives the queue
// sizes a minimum, so the channel capacities are unconstrained here (open finding).
//@ contract collect.NewCollectorWorker props C28 havoc
//@   assert only make-chan-size
//@   assert finding F-C28-4 make-chan-size
//@   requires parent != nil

// ---- C35: lock discipline of the stress reliever. Recalc (its own goroutine), UpdateFromConfig (reload
// callback), the peer-message handler, Stressed() and GetSampleRate() (every router goroutine) share this state.
// (formula is written and read by the Recalc goroutine only; Start runs before the reliever is shared.)
//@ guarded_by collect.StressRelief.lock: mode, activateLevel, deactivateLevel, sampleRate, upperBound, overallStressLevel, reason, stressed, stayOnUntil, minDuration, stressLevels
//@ lockdiscipline collect.StressRelief lock props C35 skip: Start

// ---- C36: graceful shutdown. Stop() closes the worker's input channels; the worker's loop returns when it
// sees a closed channel. The statement (and the README's account of restarts) asks that every trace still
// buffered is decided first. The loop returns at once: nothing decides the remaining buffer (open finding
// F-C36-1, witness in /verif/findings).
// a worker's parent, buffer and decision cache are set when it is built and never replaced
//@ final collect.CollectorWorker.parent
//@ final collect.CollectorWorker.cache
//@ final collect.CollectorWorker.sampleCache
//@ contract collect.(*CollectorWorker).collect props C36 havocheap noinv
//@   arith math
//@   assert only none
//@   requires cl != nil && cl.parent != nil
//@   let c = cl.cache
//@   loop 1 invariant cl != nil && cl.parent != nil
//@   finding F-C36-1 ensures[leaving-the-loop-leaves-nothing-buffered] forall k string :: toInt(cached(c, k)) == 0
//@   modifies all(cached), all(takeN), all(takeMax), all(takeNow), all(enqN), all(enqLast), all(enqHost), all(enqKey), all(enqDataset), all(enqProbe), all(enqStressed), all(enqRate), all(owns), all(recN), all(recKept), all(recID), all(recRate), all(sendN), all(sendLastReason), all(sendLastTrace), all(sentN), all(askedN), all(lruHas), all(lruVal), all(lruLen), all(lruAge)

// InMemCollector.Stop: announces shutdown, marks the collector not ready, closes every worker's two input
// channels exactly once, and closes the outgoing queue exactly once (closing a closed or nil channel would
// panic: proved absent given the channels are open when Stop is called).
//@ ghost closedN(ref) int
//@ assume internal/health.Recorder.Unregister
//@   ghostupdate unregN(this) :: unregN(this) == old(unregN(this)) + 1
//@ ghost unregN(ref) int
//@ assume collect/cache.TraceSentCache.Stop
//@ contract collect.(*CollectorWorker).Stop props C36
//@   requires cw != nil
//@   modifies nothing
//@ final collect.InMemCollector.workers
//@ final collect.InMemCollector.done
//@ final collect.InMemCollector.tracesToSend
//@ final collect.InMemCollector.Health
//@ final collect.CollectorWorker.incoming
//@ final collect.CollectorWorker.fromPeer
// waitedN(wg): how often a wait group has been waited for; stoppedN(w): how often a worker's Stop ran (call logs)
//@ ghost waitedN(ref) int
//@ ghost stoppedN(ref) int
//@ package sync
//@ assume sync.(*WaitGroup).Wait
//@   ghostupdate[waited@C36] waitedN(wg) :: waitedN(wg) == old(waitedN(wg)) + 1
//@ package collect
//@ contract collect.(*InMemCollector).Stop props C36
//@   arith math
//@   requires i != nil && i.done != nil && i.tracesToSend != nil
//@   requires[workers-built] forall k int :: 0 <= k && k < len(i.workers) ==> i.workers[k] != nil && i.workers[k].incoming != nil && i.workers[k].fromPeer != nil
//@   requires[own-channels] forall a int, b int :: 0 <= a && a < b && b < len(i.workers) ==> toInt(refOf(i.workers[a].incoming)) != toInt(refOf(i.workers[b].incoming)) && toInt(refOf(i.workers[a].fromPeer)) != toInt(refOf(i.workers[b].fromPeer))
//@   requires[channels-distinct] forall a int, b int :: 0 <= a && a < len(i.workers) && 0 <= b && b < len(i.workers) ==> toInt(refOf(i.workers[a].incoming)) != toInt(refOf(i.workers[b].fromPeer)) && toInt(refOf(i.workers[a].incoming)) != toInt(refOf(i.done)) && toInt(refOf(i.workers[a].fromPeer)) != toInt(refOf(i.done)) && toInt(refOf(i.workers[a].incoming)) != toInt(refOf(i.tracesToSend)) && toInt(refOf(i.workers[a].fromPeer)) != toInt(refOf(i.tracesToSend))
//@   requires[nothing-closed-yet] closedN(i.done) == 0 && closedN(i.tracesToSend) == 0 && toInt(refOf(i.done)) != toInt(refOf(i.tracesToSend)) && (forall k int :: 0 <= k && k < len(i.workers) ==> closedN(i.workers[k].incoming) == 0 && closedN(i.workers[k].fromPeer) == 0)
//@   ensures[shutdown-announced-and-not-ready] closedN(i.done) == 1 && unregN(i.Health) == old(unregN(i.Health)) + 1
//@   ensures[every-worker-input-closed-once] forall k int :: 0 <= k && k < len(i.workers) ==> closedN(i.workers[k].incoming) == 1 && closedN(i.workers[k].fromPeer) == 1
//@   ensures[outgoing-queue-closed-once] closedN(i.tracesToSend) == 1
// a worker's decision cache is shut down (its add queue closed) only once the worker goroutines have been waited
// for: a worker still finishing an iteration that records a drop would otherwise send on a closed channel
//@   ensures[workers-are-awaited] waitedN(&i.workersWG) > old(waitedN(&i.workersWG))
//@   ensures[no-error] result == nil
//@   loop 1 invariant closedN(i.done) == 1 && closedN(i.tracesToSend) == 0 && (forall k int :: 0 <= k && k < iter ==> closedN(i.workers[k].incoming) == 1 && closedN(i.workers[k].fromPeer) == 1) && (forall k int :: iter <= k && k < len(i.workers) ==> closedN(i.workers[k].incoming) == 0 && closedN(i.workers[k].fromPeer) == 0)
//@   loop 2 invariant[caches-are-stopped-only-after-the-workers-have-finished] waitedN(&i.workersWG) > old(waitedN(&i.workersWG))
//@   loop 2 invariant closedN(i.done) == 1 && closedN(i.tracesToSend) == 0 && (forall k int :: 0 <= k && k < len(i.workers) ==> closedN(i.workers[k].incoming) == 1 && closedN(i.workers[k].fromPeer) == 1)
//@   modifies all(closedN), unregN(i.Health), all(waitedN)

// ---- C12 (reload): the shared registry is emptied BEFORE any worker is told to drop its own samplers. In the
// other order a worker that handles the signal at once and creates a sampler in between takes a shared dynsampler
// out of the old registry, which is then stopped and dropped: that worker keeps an orphan until the next reload
// while the others share a new one.
//@ assume collect.StressReliever.UpdateFromConfig
//@ final collect.InMemCollector.SamplerFactory
//@ contract collect.(*InMemCollector).reloadConfigs props C12 havocheap noinv
//@   assert only none
//@   requires i != nil && i.SamplerFactory != nil && i.StressRelief != nil
//@   let f = i.SamplerFactory
//@   ensures[the-registry-is-cleared] clearedN(f) > old(clearedN(f))
//@   loop 1 invariant[workers-are-told-only-after-the-registry-is-cleared] clearedN(f) > old(clearedN(f))
//@   modifies all(clearedN), all(sentN)

// ---- C36 (no goroutine left running): every goroutine a method of the collector starts is announced (an Add before
// the go statement, same or enclosing block) to one of the wait groups Stop waits for (see the waitedN log on Stop).
//@ gotracked collect.InMemCollector props C36 wait: workersWG, sendTracesWG, monitorWG
