//go:build verif

package collect

// Contracts for package collect (comment-only; read by /verif/govc).

//@ spec clientRate(r uint) uint := ite(r == 0, 1, r)

//@ contract collect.mergeTraceAndSpanSampleRates props C04,C05,C16
//@   requires sp != nil && sp.Event != nil
//@   requires old(sp.SampleRate) < 1<<31
//@   requires 1 <= traceSampleRate && traceSampleRate < 1<<32
//@   ensures[final-rate] !dryRunMode ==> toInt(sp.SampleRate) == toInt(clientRate(old(sp.SampleRate))) * toInt(traceSampleRate)
//@   ensures[final-meta] !dryRunMode ==> toInt(sp.Data.MetaRefineryFinalSampleRate) == toInt(clientRate(old(sp.SampleRate))) * toInt(traceSampleRate)
//@   ensures[dryrun-rate] dryRunMode ==> sp.SampleRate == clientRate(old(sp.SampleRate))
//@   ensures[orig-meta-set] old(sp.SampleRate) != 0 ==> toInt(sp.Data.MetaRefineryOriginalSampleRate) == toInt(old(sp.SampleRate))
//@   ensures[orig-meta-kept] old(sp.SampleRate) == 0 ==> sp.Data.MetaRefineryOriginalSampleRate == old(sp.Data.MetaRefineryOriginalSampleRate)
//@   ensures[generic-fields] forall k string :: k != "meta.dryrun.sample_rate" ==> in(sp.Data.memoizedFields, k) == in(old(sp.Data.memoizedFields), k) && sp.Data.memoizedFields[k] == old(sp.Data.memoizedFields)[k]
//@   ensures[generic-fields-untouched-outside-dry-run] !dryRunMode ==> sp.Data.memoizedFields == old(sp.Data.memoizedFields)
//@   modifies sp.SampleRate, sp.Data.MetaRefineryOriginalSampleRate, sp.Data.MetaRefineryFinalSampleRate, sp.Data.memoizedFields

// ---- C10: stress-relief deterministic sampling

//@ spec stressHash(id string) uint64 := wyhash.Hash([]byte(id), hashSeed)
//@ spec keepStress(id string, n uint64) bool := n <= 1 || toInt(stressHash(id)) <= 18446744073709551615 / toInt(n)

//@ objinv collect.StressRelief bound : this.sampleRate >= 1 ==> toInt(this.upperBound) == 18446744073709551615 / toInt(this.sampleRate)

//@ contract collect.(*StressRelief).UpdateFromConfig props C10 unshared
//@   requires s != nil
//@   let cfg = s.Config.GetStressReliefConfig()
//@   ensures[rate] s.sampleRate == ite(cfg.SamplingRate == 0, 1, cfg.SamplingRate)
//@   ensures[bound] toInt(s.upperBound) == 18446744073709551615 / toInt(s.sampleRate)
//@   ensures[levels] s.activateLevel == cfg.ActivationLevel && s.deactivateLevel == cfg.DeactivationLevel && toInt(s.minDuration) == toInt(cfg.MinimumActivationDuration)
//@   ensures[keeps-state] s.stressed == old(s.stressed) && s.stayOnUntil == old(s.stayOnUntil)
//@   modifies s.mode, s.activateLevel, s.deactivateLevel, s.sampleRate, s.minDuration, s.upperBound

//@ contract collect.(*StressRelief).GetSampleRate props C10
//@   requires s != nil
//@   ensures[keep] keep == keepStress(traceID, s.sampleRate)
//@   ensures[rate] toInt(rate) == ite(s.sampleRate <= 1, 1, toInt(s.sampleRate))
//@   modifies nothing

//@ lemma C10.stress-nested-keep props C10 : forall id string, m uint64, n uint64 :: 1 <= m && m <= n && keepStress(id, n) ==> keepStress(id, m)
//@ lemma C10.stress-rate1-keeps-all props C10 : forall id string :: keepStress(id, 1) && keepStress(id, 0)

// ---- C16: a span of a trace first seen under stress relief is decided on the spot by the
// deterministic rule, the decision is recorded, and a kept span goes upstream exactly once,
// marked meta.stressed, with key / dataset / host as they came in.
//@ contract collect.(*InMemCollector).getWorkerIDForTrace props C16 function
//@   requires i != nil && len(i.workers) > 0
//@   ensures[index-in-range] 0 <= result && result < len(i.workers)
//@   modifies nothing
//@ contract types.(*Trace).SetSampleRate inline
//@ contract collect.(*InMemCollector).addAdditionalAttributes props C16,C06
//@   requires i != nil && sp != nil && sp.Event != nil
//@   let attrs = i.Config.GetAdditionalAttributes()
//@   domain[additional-attributes-are-user-fields] attrsAreUserFields(attrs)
//@   ensures[dedicated-fields-untouched] sp.Data.MetaStressed == old(sp.Data.MetaStressed) && sp.Data.MetaRefineryProbe == old(sp.Data.MetaRefineryProbe) && sp.Data.MetaRefineryLocalHostname == old(sp.Data.MetaRefineryLocalHostname) && sp.Data.MetaRefineryReason == old(sp.Data.MetaRefineryReason) && sp.Data.MetaRefinerySendReason == old(sp.Data.MetaRefinerySendReason) && sp.Data.MetaRefinerySampleKey == old(sp.Data.MetaRefinerySampleKey) && sp.Data.MetaSpanCount == old(sp.Data.MetaSpanCount) && sp.Data.MetaSpanEventCount == old(sp.Data.MetaSpanEventCount) && sp.Data.MetaSpanLinkCount == old(sp.Data.MetaSpanLinkCount) && sp.Data.MetaEventCount == old(sp.Data.MetaEventCount) && sp.Data.MetaRefineryOriginalSampleRate == old(sp.Data.MetaRefineryOriginalSampleRate) && sp.Data.MetaRefineryFinalSampleRate == old(sp.Data.MetaRefineryFinalSampleRate) && sp.Data.MetaTraceID == old(sp.Data.MetaTraceID)
//@   ensures[every-attribute-set] forall k string :: in(attrs, k) ==> in(sp.Data.memoizedFields, k) && isString(sp.Data.memoizedFields[k]) && anyString(sp.Data.memoizedFields[k]) == attrs[k]
//@   ensures[other-fields-kept] forall k string :: !in(attrs, k) ==> in(sp.Data.memoizedFields, k) == in(old(sp.Data.memoizedFields), k) && sp.Data.memoizedFields[k] == old(sp.Data.memoizedFields)[k]
//@   loop 1 invariant[dedicated] sp.Data.MetaStressed == old(sp.Data.MetaStressed) && sp.Data.MetaRefineryProbe == old(sp.Data.MetaRefineryProbe) && sp.Data.MetaRefineryLocalHostname == old(sp.Data.MetaRefineryLocalHostname) && sp.Data.MetaRefineryReason == old(sp.Data.MetaRefineryReason) && sp.Data.MetaRefinerySendReason == old(sp.Data.MetaRefinerySendReason) && sp.Data.MetaRefinerySampleKey == old(sp.Data.MetaRefinerySampleKey) && sp.Data.MetaSpanCount == old(sp.Data.MetaSpanCount) && sp.Data.MetaSpanEventCount == old(sp.Data.MetaSpanEventCount) && sp.Data.MetaSpanLinkCount == old(sp.Data.MetaSpanLinkCount) && sp.Data.MetaEventCount == old(sp.Data.MetaEventCount) && sp.Data.MetaRefineryOriginalSampleRate == old(sp.Data.MetaRefineryOriginalSampleRate) && sp.Data.MetaRefineryFinalSampleRate == old(sp.Data.MetaRefineryFinalSampleRate) && sp.Data.MetaTraceID == old(sp.Data.MetaTraceID)
//@   loop 1 invariant[seen-in-attrs] forall q string :: seen(q) ==> in(attrs, q)
//@   loop 1 invariant[seen-set] forall q string :: seen(q) ==> in(sp.Data.memoizedFields, q) && isString(sp.Data.memoizedFields[q]) && anyString(sp.Data.memoizedFields[q]) == attrs[q]
//@   loop 1 invariant[unseen-kept] forall q string :: !seen(q) ==> in(sp.Data.memoizedFields, q) == in(old(sp.Data.memoizedFields), q) && sp.Data.memoizedFields[q] == old(sp.Data.memoizedFields)[q]
//@   modifies sp.Data

//@ contract collect.(*InMemCollector).ProcessSpanImmediately props C16
//@   requires i != nil && sp != nil && sp.Event != nil && owns(sp.Event) && len(i.workers) > 0
//@   requires[workers-built] forall k int :: 0 <= k && k < len(i.workers) ==> i.workers[k] != nil
//@   domain[additional-attributes-are-user-fields] attrsAreUserFields(i.Config.GetAdditionalAttributes())
//@   domain[rates-in-range] sp.SampleRate < 1<<31
//@   let w = i.workers[i.getWorkerIDForTrace(sp.TraceID)]
//@   let sc = w.sampleCache
//@   let found = result2of(sc.CheckSpan(sp))
//@   let rec = result0of(sc.CheckSpan(sp))
//@   let srKeep = result1of(i.StressRelief.GetSampleRate(sp.TraceID))
//@   let srRate = result0of(i.StressRelief.GetSampleRate(sp.TraceID))
//@   let rate = ite(found, rec.Rate(), srRate)
//@   domain[rate-in-range] 1 <= rate && rate < 1<<32
//@   ensures[always-processed] processed
//@   ensures[decision-follows-record-or-rule] keep == ite(found, rec.Kept(), srKeep)
//@   ensures[new-decision-recorded-once] !found ==> recN(sc) == old(recN(sc)) + 1 && recKept(sc) == srKeep && recID(sc) == sp.TraceID && recRate(sc) == toInt(srRate)
//@   ensures[known-decision-not-rerecorded] found ==> recN(sc) == old(recN(sc))
//@   ensures[kept-goes-upstream-exactly-once-marked] keep ==> enqN(i.Transmission) == old(enqN(i.Transmission)) + 1 && toInt(enqLast(i.Transmission)) == toInt(sp.Event) && enqStressed(i.Transmission) && enqKey(i.Transmission) == old(sp.APIKey) && enqDataset(i.Transmission) == old(sp.Dataset) && enqHost(i.Transmission) == old(sp.APIHost)
//@   ensures[kept-not-a-probe] keep && !(old(sp.Data.MetaRefineryProbe.HasValue) && old(sp.Data.MetaRefineryProbe.Value)) ==> !enqProbe(i.Transmission)
//@   ensures[kept-rate-is-client-times-trace] keep && !i.Config.GetIsDryRun() ==> enqRate(i.Transmission) == toInt(clientRate(old(sp.SampleRate))) * toInt(rate)
//@   ensures[dropped-goes-nowhere] !keep ==> enqN(i.Transmission) == old(enqN(i.Transmission)) && owns(sp.Event)
//@   ensures[never-buffered] addedN(i) == old(addedN(i))
//@   modifies sp.SampleRate, sp.Data, all(recN), all(recKept), all(recID), all(recRate), all(enqN), all(enqLast), all(enqHost), all(enqKey), all(enqDataset), all(enqProbe), all(enqStressed), all(enqRate), all(owns)

// ---- C05 / C06 / C01: a span arriving after its trace was decided follows that decision.
// Forwarded (exactly once) iff the trace was kept or dry run is on; never for a dropped trace.
//@ spec attrsAreUserFields(m map[string]string) bool := forall k string :: in(m, k) ==> !isMetaKey(k) && k != config.DryRunFieldName && k != "meta.dryrun.sample_rate"
//@ contract collect.(*InMemCollector).dealWithSentTrace props C05,C06,C01
//@   requires i != nil && sp != nil && sp.Event != nil && owns(sp.Event) && tr != nil
//@   domain[additional-attributes-are-user-fields] attrsAreUserFields(i.Config.GetAdditionalAttributes())
//@   domain[rates-in-range] sp.SampleRate < 1<<31 && 1 <= tr.Rate() && tr.Rate() < 1<<32
//@   domain[counts-in-range] tr.SpanCount() < 1<<62 && tr.SpanEventCount() < 1<<62 && tr.SpanLinkCount() < 1<<62 && tr.DescendantCount() < 1<<62
//@   let dry = i.Config.GetIsDryRun()
//@   let keep = tr.Kept()
//@   let attrs = i.Config.GetAdditionalAttributes()
//@   ensures[forwarded-exactly-once-iff-kept-or-dry-run] enqN(i.Transmission) == old(enqN(i.Transmission)) + ite(keep || dry, 1, 0) && (keep || dry ==> toInt(enqLast(i.Transmission)) == toInt(sp.Event))
//@   ensures[dropped-keeps-ownership] !(keep || dry) ==> owns(sp.Event)
//@   ensures[destination-unchanged] sp.APIKey == old(sp.APIKey) && sp.Dataset == old(sp.Dataset) && sp.APIHost == old(sp.APIHost)
//@   ensures[dry-run-carries-the-decision] dry ==> in(sp.Data.memoizedFields, config.DryRunFieldName) && isBool(sp.Data.memoizedFields[config.DryRunFieldName]) && anyBool(sp.Data.memoizedFields[config.DryRunFieldName]) == keep
//@   ensures[dry-run-keeps-client-rate] dry ==> clientRate(sp.SampleRate) == clientRate(old(sp.SampleRate))
//@   ensures[kept-rate-is-client-times-trace] !dry && keep ==> toInt(sp.SampleRate) == toInt(clientRate(old(sp.SampleRate))) * toInt(tr.Rate())
//@   ensures[hostname] (keep || dry) && i.hostname != "" ==> sp.Data.MetaRefineryLocalHostname == i.hostname
//@   ensures[late-reason] (keep || dry) && i.Config.GetAddRuleReasonToTrace() ==> sp.Data.MetaRefinerySendReason == TraceSendLateSpan && (len(keptReason) == 0 ==> sp.Data.MetaRefineryReason == "late arriving span")
//@   ensures[additional-attributes] (keep || dry) ==> (forall k string :: in(attrs, k) ==> in(sp.Data.memoizedFields, k) && isString(sp.Data.memoizedFields[k]) && anyString(sp.Data.memoizedFields[k]) == attrs[k])
//@   ensures[late-root-counts] keep && sp.IsRoot && i.Config.GetAddCountsToRoot() ==> sp.Data.MetaSpanCount == toInt(tr.SpanCount()) && sp.Data.MetaSpanEventCount == toInt(tr.SpanEventCount()) && sp.Data.MetaSpanLinkCount == toInt(tr.SpanLinkCount()) && sp.Data.MetaEventCount == toInt(tr.DescendantCount())
//@   ensures[late-root-span-count-only] keep && sp.IsRoot && !i.Config.GetAddCountsToRoot() && i.Config.GetAddSpanCountToRoot() ==> sp.Data.MetaSpanCount == toInt(tr.DescendantCount())
//@   modifies sp.SampleRate, sp.Data, all(enqN), all(enqLast), all(enqHost), all(enqKey), all(enqDataset), all(enqProbe), all(enqStressed), all(enqRate), all(owns)

// ---- C15: stress relief switches with hysteresis on a bounded stress level

//@ contract collect.clamp props C15
//@   ensures[inside-range] min <= max ==> min <= result && result <= max
//@   ensures[identity-inside] min <= f && f <= max ==> result == f
//@   modifies nothing

//@ contract collect.(*StressRelief).ratio props C15
//@   requires s != nil
//@   ensures[unit-interval] 0 <= result && result <= 1
//@   modifies nothing

//@ contract collect.(*StressRelief).linear props C15
//@   requires s != nil
//@   ensures[unit-interval] 0 <= result && result <= 1
//@   modifies nothing

//@ contract collect.(*StressRelief).sqrt props C15
//@   requires s != nil
//@   ensures[unit-interval] 0 <= result && result <= 1
//@   modifies nothing

//@ contract collect.(*StressRelief).square props C15
//@   requires s != nil
//@   ensures[unit-interval] 0 <= result && result <= 1
//@   modifies nothing

//@ contract collect.(*StressRelief).sigmoid props C15
//@   requires s != nil
//@   ensures[just-about-unit-interval] -0.0000001 <= result && result <= 1.0000001
//@   modifies nothing

// The cluster level: every level at most 100 in, at most 100 out; expired reports leave the table.
//@ lemma C15.square-bound props C15 : forall x uint :: x <= 100 ==> toInt(x) * toInt(x) <= 10000
//@ contract collect.(*StressRelief).clusterStressLevel props C15
//@   arith math
//@   assert uses C15.square-bound
//@   requires s != nil
//@   requires[levels-bounded] localLevel <= 100 && (forall k string :: in(s.stressLevels, k) ==> s.stressLevels[k].level <= 100)
//@   ensures[bounded] result <= 100
//@   ensures[own-report-recorded-or-expired] forall k string :: in(s.stressLevels, k) ==> (in(old(s.stressLevels), k) || k == s.hostID)
//@   ensures[levels-stay-bounded] forall k string :: in(s.stressLevels, k) ==> s.stressLevels[k].level <= 100
//@   loop 1 invariant[sum-bound] 0 <= availablePeers && 0 <= total && total <= toReal(availablePeers) * 10000
//@   loop 1 invariant[table] forall k string :: in(s.stressLevels, k) ==> s.stressLevels[k].level <= 100 && (in(old(s.stressLevels), k) || k == s.hostID)
//@   modifies s.stressLevels

// One step of the relief state machine (Monitor mode), as the statement words it.
//@ spec reliefOn(was bool, level uint, activate uint) bool := was || level >= activate
//@ spec nextStayOn(was bool, stay time.Time, level uint, activate uint, deactivate uint, now time.Time, minD time.Duration) time.Time := ite(reliefOn(was, level, activate) && level >= deactivate, now.Add(minD), stay)
//@ spec nextStressed(was bool, stay time.Time, level uint, activate uint, deactivate uint, now time.Time, minD time.Duration) bool := reliefOn(was, level, activate) && !(level < deactivate && now.After(nextStayOn(was, stay, level, activate, deactivate, now, minD)))

//@ contract collect.(*StressRelief).Recalc props C15 localcalls
//@   arith math
//@   assert callresults 0 <= result && result <= 1.0000001
//@   requires s != nil
//@   requires[peer-levels-bounded] forall k string :: in(s.stressLevels, k) ==> s.stressLevels[k].level <= 100
//@   let now = clockNow(s.Clock)
//@   ensures[level-is-larger-of-own-and-cluster] s.overallStressLevel == max(clusterStressLevel, result)
//@   ensures[level-bounded] result <= 100 && s.overallStressLevel <= 100
//@   ensures[never-mode] s.mode == Never ==> !s.stressed
//@   ensures[always-mode] s.mode == Always ==> s.stressed
//@   ensures[monitor-stay-on] s.mode == Monitor ==> s.stayOnUntil == nextStayOn(old(s.stressed), old(s.stayOnUntil), s.overallStressLevel, s.activateLevel, s.deactivateLevel, now, s.minDuration)
//@   ensures[monitor-switch] s.mode == Monitor ==> s.stressed == nextStressed(old(s.stressed), old(s.stayOnUntil), s.overallStressLevel, s.activateLevel, s.deactivateLevel, now, s.minDuration)
//@   ensures[thresholds-untouched] s.mode == old(s.mode) && s.activateLevel == old(s.activateLevel) && s.deactivateLevel == old(s.deactivateLevel) && s.minDuration == old(s.minDuration)
//@   loop 1 invariant 0 <= maximumLevel && maximumLevel <= 100.00001
//@   modifies s.overallStressLevel, s.reason, s.formula, s.stressed, s.stayOnUntil, s.stressLevels

// History lemma (induction step over Recalc calls in Monitor mode; thresholds constant,
// deactivate <= activate as documented): with ghost lastHigh = the last instant at which
// relief was on and the level was at or above DeactivationLevel,
//   invariant: stressed ==> stayOnUntil == lastHigh + minDuration
// and relief switches off only below DeactivationLevel and more than MinimumActivationDuration
// after lastHigh; it switches on exactly when the level reaches ActivationLevel.
//@ lemma C15.hysteresis-step props C15 : forall was bool, stay time.Time, lastHigh time.Time, level uint, act uint, deact uint, now time.Time, minD time.Duration :: deact <= act && (was ==> stay == lastHigh.Add(minD)) ==> (nextStressed(was, stay, level, act, deact, now, minD) ==> nextStayOn(was, stay, level, act, deact, now, minD) == ite(reliefOn(was, level, act) && level >= deact, now, lastHigh).Add(minD)) && (was && !nextStressed(was, stay, level, act, deact, now, minD) ==> level < deact && now.Sub(lastHigh) > minD) && (!was ==> (nextStressed(was, stay, level, act, deact, now, minD) == (level >= act)))
//@ lemma C15.stays-on-while-high props C15 : forall was bool, stay time.Time, level uint, act uint, deact uint, now time.Time, minD time.Duration :: was && level >= deact ==> nextStressed(was, stay, level, act, deact, now, minD)

// ---- C28: panic-freedom of the peer stress message decoder, for every message
//@ contract collect.newStressReliefMessage inline
//@ contract collect.unmarshalStressReliefMessage props C28
//@   arith wraps
//@   modifies nothing

// ---- C28: start-up with validated settings. No validation rule gives the queue
// sizes a minimum, so the channel capacities are unconstrained here (open finding).
//@ contract collect.NewCollectorWorker props C28 havoc
//@   assert only make-chan-size
//@   assert finding F-C28-4 make-chan-size
//@   requires parent != nil
