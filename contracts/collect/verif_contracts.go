//go:build verif

package collect

// Contracts for package collect (comment-only; read by /verif/govc).

//@ spec clientRate(r uint) uint := ite(r == 0, 1, r)

//@ contract collect.mergeTraceAndSpanSampleRates props C04,C05
//@   requires sp != nil && sp.Event != nil
//@   requires old(sp.SampleRate) < 1<<31
//@   requires 1 <= traceSampleRate && traceSampleRate < 1<<32
//@   ensures[final-rate] !dryRunMode ==> toInt(sp.SampleRate) == toInt(clientRate(old(sp.SampleRate))) * toInt(traceSampleRate)
//@   ensures[final-meta] !dryRunMode ==> toInt(sp.Data.MetaRefineryFinalSampleRate) == toInt(clientRate(old(sp.SampleRate))) * toInt(traceSampleRate)
//@   ensures[dryrun-rate] dryRunMode ==> sp.SampleRate == clientRate(old(sp.SampleRate))
//@   ensures[orig-meta-set] old(sp.SampleRate) != 0 ==> toInt(sp.Data.MetaRefineryOriginalSampleRate) == toInt(old(sp.SampleRate))
//@   ensures[orig-meta-kept] old(sp.SampleRate) == 0 ==> sp.Data.MetaRefineryOriginalSampleRate == old(sp.Data.MetaRefineryOriginalSampleRate)
//@   modifies sp.SampleRate, sp.Data

// ---- C10: stress-relief deterministic sampling

//@ spec stressHash(id string) uint64 := wyhash.Hash([]byte(id), hashSeed)
//@ spec keepStress(id string, n uint64) bool := n <= 1 || toInt(stressHash(id)) <= 18446744073709551615 / toInt(n)

//@ objinv collect.StressRelief bound : this.sampleRate >= 1 ==> toInt(this.upperBound) == 18446744073709551615 / toInt(this.sampleRate)

//@ contract collect.(*StressRelief).UpdateFromConfig props C10 unshared
//@   requires s != nil
//@   let cfg = s.Config.GetStressReliefConfig()
//@   ensures[rate] s.sampleRate == ite(cfg.SamplingRate == 0, 1, cfg.SamplingRate)
//@   ensures[bound] toInt(s.upperBound) == 18446744073709551615 / toInt(s.sampleRate)
//@   ensures[levels] s.activateLevel == cfg.ActivationLevel && s.deactivateLevel == cfg.DeactivationLevel && toInt(s.minDuration) == toInt(cfg.MinimumActivationDuration)
//@   ensures[keeps-state] s.stressed == old(s.stressed) && s.stayOnUntil == old(s.stayOnUntil)
//@   modifies s.mode, s.activateLevel, s.deactivateLevel, s.sampleRate, s.minDuration, s.upperBound

//@ contract collect.(*StressRelief).GetSampleRate props C10
//@   requires s != nil
//@   ensures[keep] keep == keepStress(traceID, s.sampleRate)
//@   ensures[rate] toInt(rate) == ite(s.sampleRate <= 1, 1, toInt(s.sampleRate))
//@   modifies nothing

//@ lemma C10.stress-nested-keep props C10 : forall id string, m uint64, n uint64 :: 1 <= m && m <= n && keepStress(id, n) ==> keepStress(id, m)
//@ lemma C10.stress-rate1-keeps-all props C10 : forall id string :: keepStress(id, 1) && keepStress(id, 0)

// ---- C15: stress relief switches with hysteresis on a bounded stress level

//@ contract collect.clamp props C15
//@   ensures[inside-range] min <= max ==> min <= result && result <= max
//@   ensures[identity-inside] min <= f && f <= max ==> result == f
//@   modifies nothing

//@ contract collect.(*StressRelief).ratio props C15
//@   requires s != nil
//@   ensures[unit-interval] 0 <= result && result <= 1
//@   modifies nothing

//@ contract collect.(*StressRelief).linear props C15
//@   requires s != nil
//@   ensures[unit-interval] 0 <= result && result <= 1
//@   modifies nothing

//@ contract collect.(*StressRelief).sqrt props C15
//@   requires s != nil
//@   ensures[unit-interval] 0 <= result && result <= 1
//@   modifies nothing

//@ contract collect.(*StressRelief).square props C15
//@   requires s != nil
//@   ensures[unit-interval] 0 <= result && result <= 1
//@   modifies nothing

//@ contract collect.(*StressRelief).sigmoid props C15
//@   requires s != nil
//@   ensures[just-about-unit-interval] -0.0000001 <= result && result <= 1.0000001
//@   modifies nothing

// The cluster level: every level at most 100 in, at most 100 out; expired reports leave the table.
//@ lemma C15.square-bound props C15 : forall x uint :: x <= 100 ==> toInt(x) * toInt(x) <= 10000
//@ contract collect.(*StressRelief).clusterStressLevel props C15
//@   arith math
//@   assert uses C15.square-bound
//@   requires s != nil
//@   requires[levels-bounded] localLevel <= 100 && (forall k string :: in(s.stressLevels, k) ==> s.stressLevels[k].level <= 100)
//@   ensures[bounded] result <= 100
//@   ensures[own-report-recorded-or-expired] forall k string :: in(s.stressLevels, k) ==> (in(old(s.stressLevels), k) || k == s.hostID)
//@   ensures[levels-stay-bounded] forall k string :: in(s.stressLevels, k) ==> s.stressLevels[k].level <= 100
//@   loop 1 invariant[sum-bound] 0 <= availablePeers && 0 <= total && total <= toReal(availablePeers) * 10000
//@   loop 1 invariant[table] forall k string :: in(s.stressLevels, k) ==> s.stressLevels[k].level <= 100 && (in(old(s.stressLevels), k) || k == s.hostID)
//@   modifies s.stressLevels

// One step of the relief state machine (Monitor mode), as the statement words it.
//@ spec reliefOn(was bool, level uint, activate uint) bool := was || level >= activate
//@ spec nextStayOn(was bool, stay time.Time, level uint, activate uint, deactivate uint, now time.Time, minD time.Duration) time.Time := ite(reliefOn(was, level, activate) && level >= deactivate, now.Add(minD), stay)
//@ spec nextStressed(was bool, stay time.Time, level uint, activate uint, deactivate uint, now time.Time, minD time.Duration) bool := reliefOn(was, level, activate) && !(level < deactivate && now.After(nextStayOn(was, stay, level, activate, deactivate, now, minD)))

//@ contract collect.(*StressRelief).Recalc props C15 localcalls
//@   arith math
//@   assert callresults 0 <= result && result <= 1.0000001
//@   requires s != nil
//@   requires[peer-levels-bounded] forall k string :: in(s.stressLevels, k) ==> s.stressLevels[k].level <= 100
//@   let now = clockNow(s.Clock)
//@   ensures[level-is-larger-of-own-and-cluster] s.overallStressLevel == max(clusterStressLevel, result)
//@   ensures[level-bounded] result <= 100 && s.overallStressLevel <= 100
//@   ensures[never-mode] s.mode == Never ==> !s.stressed
//@   ensures[always-mode] s.mode == Always ==> s.stressed
//@   ensures[monitor-stay-on] s.mode == Monitor ==> s.stayOnUntil == nextStayOn(old(s.stressed), old(s.stayOnUntil), s.overallStressLevel, s.activateLevel, s.deactivateLevel, now, s.minDuration)
//@   ensures[monitor-switch] s.mode == Monitor ==> s.stressed == nextStressed(old(s.stressed), old(s.stayOnUntil), s.overallStressLevel, s.activateLevel, s.deactivateLevel, now, s.minDuration)
//@   ensures[thresholds-untouched] s.mode == old(s.mode) && s.activateLevel == old(s.activateLevel) && s.deactivateLevel == old(s.deactivateLevel) && s.minDuration == old(s.minDuration)
//@   loop 1 invariant 0 <= maximumLevel && maximumLevel <= 100.00001
//@   modifies s.overallStressLevel, s.reason, s.formula, s.stressed, s.stayOnUntil, s.stressLevels

// History lemma (induction step over Recalc calls in Monitor mode; thresholds constant,
// deactivate <= activate as documented): with ghost lastHigh = the last instant at which
// relief was on and the level was at or above DeactivationLevel,
//   invariant: stressed ==> stayOnUntil == lastHigh + minDuration
// and relief switches off only below DeactivationLevel and more than MinimumActivationDuration
// after lastHigh; it switches on exactly when the level reaches ActivationLevel.
//@ lemma C15.hysteresis-step props C15 : forall was bool, stay time.Time, lastHigh time.Time, level uint, act uint, deact uint, now time.Time, minD time.Duration :: deact <= act && (was ==> stay == lastHigh.Add(minD)) ==> (nextStressed(was, stay, level, act, deact, now, minD) ==> nextStayOn(was, stay, level, act, deact, now, minD) == ite(reliefOn(was, level, act) && level >= deact, now, lastHigh).Add(minD)) && (was && !nextStressed(was, stay, level, act, deact, now, minD) ==> level < deact && now.Sub(lastHigh) > minD) && (!was ==> (nextStressed(was, stay, level, act, deact, now, minD) == (level >= act)))
//@ lemma C15.stays-on-while-high props C15 : forall was bool, stay time.Time, level uint, act uint, deact uint, now time.Time, minD time.Duration :: was && level >= deact ==> nextStressed(was, stay, level, act, deact, now, minD)

// ---- C28: panic-freedom of the peer stress message decoder, for every message
//@ contract collect.newStressReliefMessage inline
//@ contract collect.unmarshalStressReliefMessage props C28
//@   arith wraps
//@   modifies nothing

// ---- C28: start-up with validated settings. No validation rule gives the queue
// sizes a minimum, so the channel capacities are unconstrained here (open finding).
//@ contract collect.NewCollectorWorker props C28 havoc
//@   assert only make-chan-size
//@   assert finding F-C28-4 make-chan-size
//@   requires parent != nil
