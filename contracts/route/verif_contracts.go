//go:build verif

package route

// Contracts for package route (comment-only; read by /verif/govc).

// getKeyID consults the environment cache (an HTTP lookup on a miss). It is
// assumed to be a function of the key: the cache is transparent.
//@ assume route.(*Router).getKeyID getter

//@ contract route.(*Router).handlerReturnWithError props C23,C24,C25
//@   requires r != nil
//@   requires he.err != nil || err != nil
//@   ensures[one-status-one-body] statusWrites(w) == old(statusWrites(w)) + 1 && lastStatus(w) == he.status && bodyWrites(w) == old(bodyWrites(w)) + 1
//@   modifies statusWrites(w), lastStatus(w), bodyWrites(w)

// ---- C24: the HTTP key middleware (closure returned by apiKeyProcessor)
//@ contract route.(*Router).apiKeyProcessor$lit1 props C24 havoc
//@   requires r != nil && req != nil
//@   let clientKey = ite(hdr(req.Header, types.APIKeyHeader) == "", hdr(req.Header, types.APIKeyHeaderShort), hdr(req.Header, types.APIKeyHeader))
//@   let cfg = r.Config.GetAccessKeyConfig()
//@   let kid = ite(len(cfg.ReceiveKeyIDs) > 0, r.getKeyID(clientKey), "")
//@   let ok = keyAccepted(cfg, clientKey, kid) && keyReplaced(cfg, clientKey, kid) != ""
//@   ensures[passed-on-iff-accepted] ok ==> served(next) == old(served(next)) + 1
//@   ensures[refused-otherwise] !ok ==> served(next) == old(served(next)) && statusWrites(w) == old(statusWrites(w)) + 1 && lastStatus(w) == 401
//@   ensures[key-used-is-documented-replacement] ok ==> servedKey(next) == keyReplaced(cfg, clientKey, kid)
//@   ensures[never-blank] ok ==> servedKey(next) != ""

// ---- C25: the query-token middleware (closure returned by queryTokenChecker)
//@ contract route.(*Router).queryTokenChecker$lit1 props C25 havoc
//@   requires r != nil && req != nil
//@   let required = r.Config.GetQueryAuthToken()
//@   let token = hdr(req.Header, types.QueryTokenHeader)
//@   ensures[served-iff-exact-token] (required != "" && token == required) ==> served(next) == old(served(next)) + 1
//@   ensures[refused-otherwise] !(required != "" && token == required) ==> served(next) == old(served(next)) && statusWrites(w) == old(statusWrites(w)) + 1 && lastStatus(w) == 400

// ---- C24 on the OTLP endpoints.
// Ghost effect log: how many times a request's events were handed to event
// processing on behalf of a router, and with which API key.
//@ ghost otlpN(ref) int
//@ ghost otlpKey(ref) string

// Bookkeeping-only contract (its functional contract is C23's business): a call
// happened, with this key; everything else may change.
// (C23) they never answer success for data they discarded before trying to process it:
// a failed environment lookup is reported as an error.
//@ contract route.(*Router).processOTLPRequestBatchMsgp props C23 havoc
//@   arith math
//@   requires router != nil
//@   requires[distinct-sinks] toInt(refOf(router.UpstreamTransmission)) != toInt(refOf(router.PeerTransmission))
//@   let lookupErr = result1of(router.getEnvironmentName(apiKey))
//@   ghostupdate otlpN(router), otlpKey(router) :: otlpN(router) == old(otlpN(router)) + 1 && otlpKey(router) == apiKey
//@   ensures[lookup-failure-is-an-error] lookupErr != nil ==> result != nil
//@   ensures[lookup-failure-processes-nothing] lookupErr != nil ==> procN(router) == old(procN(router))
//@   ensures[an-error-answer-means-nothing-was-processed] result != nil ==> procN(router) == old(procN(router))
//@   loop 1 invariant router != nil && toInt(refOf(router.UpstreamTransmission)) != toInt(refOf(router.PeerTransmission))
//@   loop 2 invariant router != nil && toInt(refOf(router.UpstreamTransmission)) != toInt(refOf(router.PeerTransmission))
//@ contract route.(*Router).processOTLPRequest props C23 havoc
//@   arith math
//@   requires router != nil
//@   requires[distinct-sinks] toInt(refOf(router.UpstreamTransmission)) != toInt(refOf(router.PeerTransmission))
//@   let lookupErr = result1of(router.getEnvironmentName(apiKey))
//@   ghostupdate otlpN(router), otlpKey(router) :: otlpN(router) == old(otlpN(router)) + 1 && otlpKey(router) == apiKey
//@   ensures[lookup-failure-is-an-error] lookupErr != nil ==> result != nil
//@   ensures[lookup-failure-processes-nothing] lookupErr != nil ==> procN(router) == old(procN(router))
//@   ensures[an-error-answer-means-nothing-was-processed] result != nil ==> procN(router) == old(procN(router))
//@   loop 1 invariant router != nil && toInt(refOf(router.UpstreamTransmission)) != toInt(refOf(router.PeerTransmission))
//@   loop 2 invariant router != nil && toInt(refOf(router.UpstreamTransmission)) != toInt(refOf(router.PeerTransmission))

//@ contract route.(*TraceServer).ExportTraceData props C24 havoc
//@   requires t != nil && t.router != nil
//@   requires[distinct-sinks] toInt(refOf(t.router.UpstreamTransmission)) != toInt(refOf(t.router.PeerTransmission))
//@   let cfg = t.router.Config.GetAccessKeyConfig()
//@   let kid = ite(len(cfg.ReceiveKeyIDs) > 0, t.router.getKeyID(ri.ApiKey), "")
//@   ensures[processed-only-if-accepted] otlpN(old(t.router)) != old(otlpN(t.router)) ==> keyAccepted(cfg, ri.ApiKey, kid)
//@   ensures[processed-with-given-key] otlpN(old(t.router)) != old(otlpN(t.router)) ==> otlpN(old(t.router)) == old(otlpN(t.router)) + 1 && otlpKey(old(t.router)) == ri.ApiKey
//@   ensures[refusal-is-an-error] !keyAccepted(cfg, ri.ApiKey, kid) ==> result1 != nil && otlpN(old(t.router)) == old(otlpN(t.router))

// The gRPC trace endpoint. Production registers no unary interceptor (route.go builds
// the server with a stats handler only), so the contract is stated for interceptor == nil.
//@ contract route.customTraceExportHandler props C24 havoc localcalls
//@   requires isType(srv, *TraceServer) && asPtr(srv, *TraceServer) != nil && asPtr(srv, *TraceServer).router != nil
//@   requires interceptor == nil
//@   requires[distinct-sinks] toInt(refOf(asPtr(srv, *TraceServer).router.UpstreamTransmission)) != toInt(refOf(asPtr(srv, *TraceServer).router.PeerTransmission))
//@   let rt = asPtr(srv, *TraceServer).router
//@   let clientKey = huskyotlp.GetRequestInfoFromGrpcMetadata(ctx).ApiKey
//@   let cfg = rt.Config.GetAccessKeyConfig()
//@   let kid = ite(len(cfg.ReceiveKeyIDs) > 0, rt.getKeyID(clientKey), "")
//@   ensures[accepted-only-if-client-key-acceptable] otlpN(rt) != old(otlpN(rt)) ==> keyAccepted(cfg, clientKey, kid)
//@   ensures[key-used-is-documented-replacement] otlpN(rt) != old(otlpN(rt)) ==> otlpKey(rt) == keyReplaced(cfg, clientKey, kid) && otlpKey(rt) != ""

//@ contract route.(*Router).processOTLPRequestWithMsgp props C24 havoc
//@   requires r != nil
//@   requires[distinct-sinks] toInt(refOf(r.UpstreamTransmission)) != toInt(refOf(r.PeerTransmission))
//@   ensures[at-most-once-with-given-key] otlpN(r) != old(otlpN(r)) ==> otlpN(r) == old(otlpN(r)) + 1 && otlpKey(r) == keyToUse

//@ contract route.(*Router).postOTLPTrace props C24 havoc
//@   requires r != nil && req != nil
//@   requires[distinct-sinks] toInt(refOf(r.UpstreamTransmission)) != toInt(refOf(r.PeerTransmission))
//@   let clientKey = huskyotlp.GetRequestInfoFromHttpHeaders(req.Header).ApiKey
//@   let cfg = r.Config.GetAccessKeyConfig()
//@   let kid = ite(len(cfg.ReceiveKeyIDs) > 0, r.getKeyID(clientKey), "")
//@   ensures[accepted-only-if-client-key-acceptable] otlpN(r) != old(otlpN(r)) ==> keyAccepted(cfg, clientKey, kid)
//@   ensures[key-used-is-documented-replacement] otlpN(r) != old(otlpN(r)) ==> otlpKey(r) == keyReplaced(cfg, clientKey, kid) && otlpKey(r) != ""

//@ contract route.(*Router).postOTLPLogs props C24 havoc
//@   requires r != nil && req != nil
//@   requires[distinct-sinks] toInt(refOf(r.UpstreamTransmission)) != toInt(refOf(r.PeerTransmission))
//@   let clientKey = huskyotlp.GetRequestInfoFromHttpHeaders(req.Header).ApiKey
//@   let cfg = r.Config.GetAccessKeyConfig()
//@   let kid = ite(len(cfg.ReceiveKeyIDs) > 0, r.getKeyID(clientKey), "")
//@   ensures[accepted-only-if-client-key-acceptable] otlpN(r) != old(otlpN(r)) ==> keyAccepted(cfg, clientKey, kid)
//@   ensures[key-used-is-documented-replacement] otlpN(r) != old(otlpN(r)) ==> otlpKey(r) == keyReplaced(cfg, clientKey, kid) && otlpKey(r) != ""

//@ contract route.(*LogsServer).Export props C24 havoc
//@   requires l != nil && l.router != nil
//@   requires[distinct-sinks] toInt(refOf(l.router.UpstreamTransmission)) != toInt(refOf(l.router.PeerTransmission))
//@   let rt = l.router
//@   let clientKey = huskyotlp.GetRequestInfoFromGrpcMetadata(ctx).ApiKey
//@   let cfg = rt.Config.GetAccessKeyConfig()
//@   let kid = ite(len(cfg.ReceiveKeyIDs) > 0, rt.getKeyID(clientKey), "")
//@   ensures[accepted-only-if-client-key-acceptable] otlpN(rt) != old(otlpN(rt)) ==> keyAccepted(cfg, clientKey, kid)
//@   ensures[key-used-is-documented-replacement] otlpN(rt) != old(otlpN(rt)) ==> otlpKey(rt) == keyReplaced(cfg, clientKey, kid) && otlpKey(rt) != ""

//@ contract route.(*Router).handleOTLPFailureResponse props C23,C24 havocheap
//@   requires r != nil
//@   modifies statusWrites(w), lastStatus(w), bodyWrites(w), hdr(w.Header())

// ---- C22: event timestamps are preserved exactly.
// An integer Unix epoch header: the first ten digits are seconds, the remaining
// 0, 3, 6 or 9 digits a decimal fraction of a second.
//@ spec pow10(k int) int := ite(k <= 0, 1, ite(k == 1, 10, ite(k == 2, 100, ite(k == 3, 1000, ite(k == 4, 10000, ite(k == 5, 100000, ite(k == 6, 1000000, ite(k == 7, 10000000, ite(k == 8, 100000000, 1000000000)))))))))
//@ contract route.getEventTime props C22 function
//@   domain[all-digits-no-leading-zero] atoi(etHeader) >= 0 && len(etHeader) >= 10 && len(etHeader) <= 19 && etHeader[0] != '0'
//@   domain[fits-int64] atoi(etHeader) <= 9223372036854775807
// consequences of "all digits" that the string solvers do not derive by themselves:
// the seconds part and the fraction part of a digit string are digit strings
//@   domain[digit-parts] atoi(etHeader[:10]) >= 0 && (len(etHeader) == 10 || atoi(etHeader[10:]) >= 0)
//@   let secs = atoi(etHeader[:10])
//@   let fracDigits = len(etHeader) - 10
//@   let fracVal = ite(fracDigits == 0, 0, atoi(etHeader[10:]))
//@   ensures[exact-instant] result == time.Unix(toInt(secs), 0).Add(time.Duration(toInt(fracVal) * pow10(9 - fracDigits)))
//@   loop 1 invariant len(frac) <= i && i <= 9 && toInt(nsec) == atoi(frac) * pow10(i - len(frac)) && 0 <= atoi(frac) && atoi(frac) < pow10(len(frac))
//@   modifies nothing

//@ contract route.(*batchedEvent).getEventTime props C22
//@   requires b != nil
//@   ensures[msgpack-timestamp-is-the-instant] b.MsgPackTimestamp != nil ==> result == *b.MsgPackTimestamp
//@   ensures[otherwise-the-time-field] b.MsgPackTimestamp == nil ==> result == getEventTime(b.Timestamp)
//@   modifies nothing

// ---- C28: panic-freedom of request-parsing helpers, for every input
//@ contract route.getEventTime#safety props C28
//@   arith wraps
//@   modifies nothing

// A batch body's array header must not be trusted for the allocation size: the
// allocation is bounded by the number of bytes still to be read.
//@ contract route.(*batchedEvents).UnmarshalMsg props C28 havoc
//@   assert only make-size make-bounded
//@   assert makebound len(bts)
//@   requires b != nil

// ---- C19 / C16: every received event takes exactly one route; events handed to a
// transmission are not touched afterwards.
// `deliveries` counts what left this function towards a sink: upstream queue, peer
// queue, collector. (A span kept by stress relief is forwarded upstream inside
// ProcessSpanImmediately.)
// procErr(r): what the most recent processEvent on router r answered
//@ ghost procErr(ref) error
//@ contract route.(*Router).processEvent props C19,C16,C23,C17
//@   assert owns
//@   requires r != nil && ev != nil && owns(ev)
//@   let e0 = ev
//@   ghostupdate procN(r) :: procN(r) == old(procN(r)) + 1
//@   ghostupdate[what-processing-answered@C23] procErr(r) :: procErr(r) == result
//@   requires[distinct-sinks] toInt(refOf(r.UpstreamTransmission)) != toInt(refOf(r.PeerTransmission))
//@   ensures[at-most-one-of-each] 0 <= enqN(r.UpstreamTransmission) - old(enqN(r.UpstreamTransmission)) && enqN(r.UpstreamTransmission) - old(enqN(r.UpstreamTransmission)) <= 1 && 0 <= enqN(r.PeerTransmission) - old(enqN(r.PeerTransmission)) && enqN(r.PeerTransmission) - old(enqN(r.PeerTransmission)) <= 1 && 0 <= addedN(r.Collector) - old(addedN(r.Collector)) && addedN(r.Collector) - old(addedN(r.Collector)) <= 1
//@   ensures[one-data-route] (enqN(r.UpstreamTransmission) - old(enqN(r.UpstreamTransmission))) + (addedN(r.Collector) - old(addedN(r.Collector))) + ite(enqN(r.PeerTransmission) != old(enqN(r.PeerTransmission)) && !enqProbe(r.PeerTransmission), 1, 0) + (immN(r.Collector) - old(immN(r.Collector))) <= 1
//@   ensures[error-means-nothing-forwarded-upstream-or-to-peer] result != nil ==> enqN(r.UpstreamTransmission) == old(enqN(r.UpstreamTransmission)) && enqN(r.PeerTransmission) == old(enqN(r.PeerTransmission))
//@   ensures[error-means-nothing-buffered] result != nil ==> bufN(r.Collector) == old(bufN(r.Collector)) && immN(r.Collector) == old(immN(r.Collector))
//@   ensures[no-trace-id-goes-upstream] result == nil && e0.Data.MetaTraceID == "" && !(e0.Data.MetaRefineryProbe.HasValue && e0.Data.MetaRefineryProbe.Value) ==> enqN(r.UpstreamTransmission) == old(enqN(r.UpstreamTransmission)) + 1 && toInt(enqLast(r.UpstreamTransmission)) == toInt(e0) && enqN(r.PeerTransmission) == old(enqN(r.PeerTransmission)) && addedN(r.Collector) == old(addedN(r.Collector))
//@   ensures[peer-forward-keeps-key-and-dataset] enqN(r.PeerTransmission) != old(enqN(r.PeerTransmission)) ==> enqKey(r.PeerTransmission) == old(ev.APIKey) && enqDataset(r.PeerTransmission) == old(ev.Dataset) && enqHost(r.PeerTransmission) == r.Sharder.WhichShard(e0.Data.MetaTraceID).GetAddress() && !r.Sharder.WhichShard(e0.Data.MetaTraceID).Equals(r.Sharder.MyShard())
//@   ensures[probes-are-discarded] result == nil && e0.Data.MetaRefineryProbe.HasValue && e0.Data.MetaRefineryProbe.Value ==> enqN(r.UpstreamTransmission) == old(enqN(r.UpstreamTransmission)) && enqN(r.PeerTransmission) == old(enqN(r.PeerTransmission)) && addedN(r.Collector) == old(addedN(r.Collector)) && immN(r.Collector) == old(immN(r.Collector))
//@   ensures[own-trace-goes-to-the-collector] e0.Data.MetaTraceID != "" && !(e0.Data.MetaRefineryProbe.HasValue && e0.Data.MetaRefineryProbe.Value) && !r.Collector.Stressed() && r.Sharder.WhichShard(e0.Data.MetaTraceID).Equals(r.Sharder.MyShard()) && (result == nil || addedN(r.Collector) != old(addedN(r.Collector))) ==> addedN(r.Collector) == old(addedN(r.Collector)) + 1 && toInt(addedLast(r.Collector)) == toInt(e0) && enqN(r.UpstreamTransmission) == old(enqN(r.UpstreamTransmission)) && enqN(r.PeerTransmission) == old(enqN(r.PeerTransmission))
//@   ensures[never-a-probe-upstream] enqN(r.UpstreamTransmission) != old(enqN(r.UpstreamTransmission)) ==> !enqProbe(r.UpstreamTransmission)
//@   modifies ev.APIHost, ev.Data, ev.dataSize, all(enqN), all(enqLast), all(enqHost), all(enqKey), all(enqDataset), all(enqProbe), all(owns), all(addedN), all(addedLast), all(bufN), all(immN), procN(r)
//@ owned types.Event
// The router's sinks are set once by dependency injection before any request is served
// (assumed; a write anywhere in code under contract is a failed obligation).
//@ final route.Router.UpstreamTransmission
//@ final route.Router.PeerTransmission
//@ final route.TraceServer.router
//@ final route.LogsServer.router

// ---- C23: responses reflect what happened to the data.
// procN(router): how many events were handed to processEvent.
//@ ghost procN(ref) int

// Request decoding helpers: they read the request and allocate new objects; they do not
// modify the router, process events or write to the response (assumed frames).
//@ assume route.(*Router).readAndCloseMaybeCompressedBody
//@ assume route.(*Router).getEnvironmentName getter
//@ assume route.newBatchedEvents
//@   ensures result != nil && isFresh(result)
//@ assume route.unmarshal
//@ assume route.getUserAgentFromRequest
//@ assume route.addIncomingUserAgent
//@ assume route.recycleHTTPBodyBuffer
// Payload construction and decoding allocate and fill new objects only (assumed frames).
//@ assume types.NewPayload
//@ assume types.CoreFieldsUnmarshaler.UnmarshalMsgpEventMetadataOnly
//@   modifies *payload

//@ contract route.(*Router).batch props C23,C19,C24 havocheap
//@   requires r != nil && req != nil
//@   requires[distinct-sinks] toInt(refOf(r.UpstreamTransmission)) != toInt(refOf(r.PeerTransmission))
//@   ensures[one-status-at-most] statusWrites(w) <= old(statusWrites(w)) + 1
//@   ensures[error-status-means-nothing-processed] statusWrites(w) != old(statusWrites(w)) ==> procN(r) == old(procN(r))
//@   ensures[one-body] bodyWrites(w) == old(bodyWrites(w)) + 1
// C19: the key the events of a batch are routed under is the one the client sent - in X-Honeycomb-Team or, when that
// header is empty, in its short form X-Hny-Team
//@   loop 1 invariant[events-carry-the-key-the-client-sent@C19,C24,C23] apiKey == ite(hdr(req.Header, "X-Honeycomb-Team") == "", hdr(req.Header, "X-Hny-Team"), hdr(req.Header, "X-Honeycomb-Team"))
//@   loop 1 invariant statusWrites(w) == old(statusWrites(w)) && bodyWrites(w) == old(bodyWrites(w)) && len(batchedResponses) == iter
//@   modifies all(statusWrites), all(lastStatus), all(bodyWrites), all(procN), all(procErr), all(enqN), all(enqLast), all(enqHost), all(enqKey), all(enqDataset), all(enqProbe), all(owns), all(addedN), all(addedLast), all(bufN), all(immN), all(hdr)

// One event of a batch: its response entry says 202 / 429 / 400 exactly according to what
// processing that event returned.
//@ fragment route.(*Router).batch loop 1 body props C23 havocheap
//@   requires r != nil
//@   requires[distinct-sinks] toInt(refOf(r.UpstreamTransmission)) != toInt(refOf(r.PeerTransmission))
//@   ensures[per-event-status] resp.Status == ite(errors.Is(err, collect.ErrWouldBlock), 429, ite(err != nil, 400, 202))
//@   ensures[one-entry-per-event] len(batchedResponses) == old(len(batchedResponses)) + 1 && batchedResponses[len(batchedResponses)-1] == &resp
//@   ensures[empty-events-are-not-processed] bev.Data.isEmpty ==> procN(r) == old(procN(r)) && err != nil
//@   ensures[non-empty-events-processed-once] !bev.Data.isEmpty ==> procN(r) == old(procN(r)) + 1
//@   ensures[the-entry-reports-what-processing-answered] !bev.Data.isEmpty && procN(r) == old(procN(r)) + 1 ==> resp.Status == ite(errors.Is(procErr(r), collect.ErrWouldBlock), 429, ite(procErr(r) != nil, 400, 202))
//@   modifies all(statusWrites), all(lastStatus), all(bodyWrites), all(procN), all(procErr), all(enqN), all(enqLast), all(enqHost), all(enqKey), all(enqDataset), all(enqProbe), all(owns), all(addedN), all(addedLast), all(bufN), all(immN), all(hdr)

//@ contract route.(*Router).event props C23 havocheap
//@   requires r != nil && req != nil
//@   requires[distinct-sinks] toInt(refOf(r.UpstreamTransmission)) != toInt(refOf(r.PeerTransmission))
//@   ensures[one-status-at-most] statusWrites(w) <= old(statusWrites(w)) + 1
//@   ensures[processed-at-most-once] procN(r) <= old(procN(r)) + 1
//@   ensures[decode-failure-means-nothing-processed] procN(r) == old(procN(r)) ==> statusWrites(w) == old(statusWrites(w)) + 1
//@   ensures[error-status-means-nothing-kept] statusWrites(w) != old(statusWrites(w)) ==> enqN(r.UpstreamTransmission) == old(enqN(r.UpstreamTransmission)) && enqN(r.PeerTransmission) == old(enqN(r.PeerTransmission)) && bufN(r.Collector) == old(bufN(r.Collector)) && immN(r.Collector) == old(immN(r.Collector))
//@   modifies all(statusWrites), all(lastStatus), all(bodyWrites), all(procN), all(procErr), all(enqN), all(enqLast), all(enqHost), all(enqKey), all(enqDataset), all(enqProbe), all(owns), all(addedN), all(addedLast), all(bufN), all(immN), all(hdr)
//@ contract route.(*batchedEvent).getSampleRate inline
//@ assume route.(*Router).requestToEvent
//@   ensures result1 == nil ==> result0 != nil && owns(result0) && isFresh(result0)

// ---- C28: the last line of defence. Whatever value a handler panics with, the recovery code answers the
// request with the error writer and does not itself panic (handlerReturnWithError needs an error to print:
// ErrCaughtPanic carries none, so the recovered value must be turned into one).
//@ contract route.(*Router).panicCatcher$lit2 props C28 havoc
//@   requires r != nil

// ---- C35: the environment cache is consulted by every request goroutine
//@ guarded_by route.environmentCache.mutex: items
//@ lockdiscipline route.environmentCache mutex props C35 wheld: addItem

// ---- C37: unhandled paths are relayed faithfully. For this property http.Header has its real shape
// (map[string][]string); net/http is otherwise a set of records with ghost effect logs:
//   content(x)   the byte content (an abstract token) of a reader / buffer / body
//   readOK(x)    the last io.ReadAll of x succeeded
//   reqURL(q)    the URL string a client request was built with
//   doN/doReq/doResp(c)  the requests a client performed, the last one, and its response
//   copyN/copied(w)      io.Copy calls into w and the content copied by the last one
//   respHeader(w)        the header map of a ResponseWriter
//@ unopaque net/http.Header props C37
//@ spec canonHeader(k string) string uninterpreted
//@ spec sameValues(a []string, b []string) bool := len(a) == len(b) && (forall j int :: 0 <= j && j < len(a) ==> a[j] == b[j])
//@ ghost content(ref) int
//@ ghost readOK(ref) bool
//@ ghost reqURL(ref) string
//@ ghost doN(ref) int
//@ ghost doReq(ref) ref
//@ ghost doResp(ref) ref
//@ ghost copyN(ref) int
//@ ghost copied(ref) int
//@ ghost respHeader(ref) http.Header
//@ assume net/http.NewRequest
//@   ensures result1 == nil ==> result0 != nil && isFresh(result0) && result0.Method == method && reqURL(result0) == url && content(result0.Body) == content(body)
//@   ensures[new-request-has-no-headers@C37] result1 == nil ==> (forall k string :: !in(result0.Header, k))
// transmit.sendBatch: method POST and a URL that url.JoinPath has just produced - NewRequest's only failure modes
// (invalid method, unparsable URL) are excluded
//@   ensures[a-joined-url-parses@C26,C36] result1 == nil && result0 != nil
//@ assume net/http.(*Request).WithContext
//@   ensures result != nil && isFresh(result) && result.Method == r.Method && reqURL(result) == reqURL(r) && toInt(result.Body) == toInt(r.Body) && result.RemoteAddr == r.RemoteAddr
//@   ensures[same-headers@C37] result.Header == r.Header
//@ assume net/url.(*URL).String getter
//@ assume net/http.(*Client).Do
//@   ghostupdate doN(c), doReq(c), doResp(c) :: doN(c) == old(doN(c)) + 1 && toInt(doReq(c)) == toInt(req) && toInt(doResp(c)) == toInt(result0)
//@   ensures result1 == nil ==> result0 != nil && result0.Body != nil
//@   ensures[response-header-names-are-canonical@C37] result1 == nil ==> (forall k string :: in(result0.Header, k) ==> canonHeader(k) == k)
//@   ensures[a-fresh-answer-is-open@C26,C36] result0 != nil ==> result0.Body != nil && !bodyClosed(result0.Body)
//@ assume io.Copy
//@   ghostupdate copyN(dst), copied(dst) :: copyN(dst) == old(copyN(dst)) + 1 && copied(dst) == content(src)
//@ ghost bodyClosed(ref) bool
//@ assume io.Closer.Close
//@   ghostupdate[closed@C26,C36] bodyClosed(this) :: bodyClosed(this)
//@ assume io.ReadCloser.Close
//@   ghostupdate[closed@C26,C36] bodyClosed(this) :: bodyClosed(this)

//@ contract route.(*Router).proxy props C37
//@   arith math
//@   requires r != nil && req != nil && req.URL != nil && req.Body != nil && r.proxyClient != nil
//@   domain[incoming-header-names-are-canonical] (forall k string :: in(req.Header, k) ==> canonHeader(k) == k) && canonHeader("X-Forwarded-For") == "X-Forwarded-For"
//@   let cl = r.proxyClient
//@   let body0 = content(req.Body)
//@   let xff = ite(in(req.Header, "X-Forwarded-For") && len(req.Header["X-Forwarded-For"]) > 0, req.Header["X-Forwarded-For"][0], "")
//@   ensures[at-most-one-upstream-request] doN(cl) == old(doN(cl)) || doN(cl) == old(doN(cl)) + 1
//@   ensures[same-method-path-and-query] doN(cl) != old(doN(cl)) ==> asPtr(doReq(cl), *http.Request).Method == req.Method && reqURL(doReq(cl)) == r.Config.GetHoneycombAPI() + req.URL.String()
//@   ensures[same-body] doN(cl) != old(doN(cl)) && readOK(req.Body) ==> content(asPtr(doReq(cl), *http.Request).Body) == body0
//@   ensures[same-header-values] doN(cl) != old(doN(cl)) ==> (forall k string :: k != "X-Forwarded-For" ==> in(asPtr(doReq(cl), *http.Request).Header, k) == in(req.Header, k) && (in(req.Header, k) ==> sameValues(asPtr(doReq(cl), *http.Request).Header[k], req.Header[k])))
//@   ensures[forwarded-for-extended] doN(cl) != old(doN(cl)) ==> in(asPtr(doReq(cl), *http.Request).Header, "X-Forwarded-For") && len(asPtr(doReq(cl), *http.Request).Header["X-Forwarded-For"]) == 1 && asPtr(doReq(cl), *http.Request).Header["X-Forwarded-For"][0] == ite(xff != "", xff + ", " + req.RemoteAddr, req.RemoteAddr)
//@   ensures[one-status] statusWrites(w) == old(statusWrites(w)) + 1
//@   ensures[upstream-status-headers-and-body-relayed] copyN(w) != old(copyN(w)) ==> doN(cl) == old(doN(cl)) + 1 && lastStatus(w) == asPtr(doResp(cl), *http.Response).StatusCode && copied(w) == content(asPtr(doResp(cl), *http.Response).Body) && copyN(w) == old(copyN(w)) + 1 && (forall k string :: in(asPtr(doResp(cl), *http.Response).Header, k) ==> in(respHeader(w), k) && sameValues(respHeader(w)[k], asPtr(doResp(cl), *http.Response).Header[k]))
//@   ensures[failure-is-an-error-answer] copyN(w) == old(copyN(w)) ==> bodyWrites(w) == old(bodyWrites(w)) + 1
//@   loop 1 invariant[request-being-built] upstreamReq != nil && isFresh(upstreamReq) && upstreamReq.Method == req.Method && reqURL(upstreamReq) == upstreamTarget + req.URL.String() && (readOK(req.Body) ==> content(upstreamReq.Body) == body0) && doN(cl) == old(doN(cl)) && statusWrites(w) == old(statusWrites(w)) && bodyWrites(w) == old(bodyWrites(w)) && copyN(w) == old(copyN(w))
//@   loop 1 invariant[headers-copied-so-far] (forall k string :: seen(k) ==> in(req.Header, k) && in(upstreamReq.Header, k) && sameValues(upstreamReq.Header[k], req.Header[k])) && (forall k string :: !seen(k) ==> !in(upstreamReq.Header, k))
//@   loop 2 invariant[response-being-relayed] resp != nil && toInt(resp) == toInt(doResp(cl)) && doN(cl) == old(doN(cl)) + 1 && statusWrites(w) == old(statusWrites(w)) && bodyWrites(w) == old(bodyWrites(w)) && copyN(w) == old(copyN(w))
//@   loop 2 invariant[response-headers-copied-so-far] forall k string :: seen(k) ==> in(resp.Header, k) && in(respHeader(w), k) && sameValues(respHeader(w)[k], resp.Header[k])
//@   modifies all(doN), all(doReq), all(doResp), all(copyN), all(copied), all(readOK), all(respHeader), all(statusWrites), all(lastStatus), all(bodyWrites)

// ---- C25 / C24 / C28 / C37 (wiring): how LnS assembles the HTTP server. gorilla/mux as a log of what is
// registered: usedMW(router, name) - the named method was installed as middleware on that (sub)router;
// subPrefix(router) - the path prefix a subrouter serves; routePrefix / routeHandler - a route's path and handler.
//@ ghost usedMW(ref, string) bool
//@ ghost subPrefix(ref) string
//@ ghost routePrefix(ref) string
//@ ghost routeHandler(ref) string
//@ package github.com/gorilla/mux
//@ assume github.com/gorilla/mux.NewRouter
//@   ensures result != nil && isFresh(result) && subPrefix(result) == "" && (forall n string :: !usedMW(result, n))
//@ assume github.com/gorilla/mux.(*Router).UseEncodedPath
//@   ensures result == r
//@ assume github.com/gorilla/mux.(*Router).PathPrefix
//@   ensures result != nil && isFresh(result) && routePrefix(result) == tpl
//@ assume github.com/gorilla/mux.(*Router).HandleFunc
//@   ensures result != nil && isFresh(result) && routePrefix(result) == path && routeHandler(result) == fnName(f)
//@ assume github.com/gorilla/mux.(*Router).Handle
//@   ensures result != nil && isFresh(result) && routePrefix(result) == path
//@ assume github.com/gorilla/mux.(*Route).Methods
//@   ensures result == r
//@ assume github.com/gorilla/mux.(*Route).Name
//@   ensures result == r
//@ assume github.com/gorilla/mux.(*Route).HandlerFunc
//@   ensures result == r
//@   ghostupdate routeHandler(r) :: routeHandler(r) == fnName(f)
//@ assume github.com/gorilla/mux.(*Route).Subrouter
//@   ensures result != nil && isFresh(result) && subPrefix(result) == routePrefix(r) && (forall n string :: !usedMW(result, n))
//@ package route
//@ package config
//@ assume config.Config.GetEnvironmentCacheTTL getter
//@ assume config.Config.GetGRPCConfig getter
//@ assume config.Config.GetGRPCEnabled getter
//@ assume config.Config.GetGRPCListenAddr getter
//@ assume config.Config.GetHTTPIdleTimeout getter
//@ assume config.Config.GetListenAddr getter
//@ assume config.Config.GetPeerListenAddr getter
//@ package route
//@ assume route.(*Router).registerMetricNames
//@ assume route.(*Router).AddOTLPMuxxer
//@ assume route.(*Router).startGRPCHealthMonitor
//@ assume route.NewTraceServer
//@ assume route.NewLogsServer
//@ assume route.registerCustomTraceService
//@ assume route.makeDecoders
//@ assume route.newEnvironmentCache
// a server's handler is fixed when the server value is built
//@ final net/http.Server.Handler
//@ final route.Router.server init route.(*Router).LnS
//@ spec builtServer(r *Router, before *http.Server) bool := r.server != nil && toInt(r.server) != toInt(before)
//@ contract route.(*Router).LnS props C25,C24,C28,C37 havocheap noinv
//@   assert only none
//@   requires r != nil
//@   let srv0 = r.server
// the clauses speak of the server LnS built; when it returns early (the decoder could not start) there is none
//@   ensures[query-endpoints-sit-behind-the-token-check@C25] builtServer(r, srv0) ==> subPrefix(queryMuxxer) == "/query/" && usedMW(queryMuxxer, "route.(*Router).queryTokenChecker")
//@   ensures[event-endpoints-sit-behind-the-key-check@C24] builtServer(r, srv0) ==> subPrefix(authedMuxxer) == "/1/" && usedMW(authedMuxxer, "route.(*Router).apiKeyProcessor")
//@   ensures[every-route-sits-behind-the-panic-catcher@C28] builtServer(r, srv0) ==> usedMW(muxxer, "route.(*Router).panicCatcher")
//@   ensures[requests-reach-the-routes-as-they-arrive@C37] builtServer(r, srv0) ==> toInt(r.server.Handler) == toInt(muxxer)
//@   modifies all(usedMW), all(subPrefix), all(routePrefix), all(routeHandler)

// ---- C22 (msgpack batches): a batch event's msgpack time is decoded by the msgpack library's timestamp reader and
// stored exactly as read; nothing else writes the event's time, and its sample rate is the integer the library read.
// (Every call in the function has a contract, so a home-made decoder slipped in here is a call without contract.)
//@ ghost readTimeN() int
//@ ghost readTimeLast() time
//@ ghost readIntN() int
//@ ghost readIntLast() int
//@ package github.com/tinylib/msgp/msgp
//@ assume github.com/tinylib/msgp/msgp.ReadTimeBytes
//@   ghostupdate[decoded-time@C22] readTimeN(), readTimeLast() :: readTimeN() == old(readTimeN()) + 1 && readTimeLast() == result0
//@ assume github.com/tinylib/msgp/msgp.ReadInt64Bytes
//@   ghostupdate[decoded-int@C22,C04] readIntN(), readIntLast() :: readIntN() == old(readIntN()) + 1 && readIntLast() == result0
//@ assume github.com/tinylib/msgp/msgp.ReadMapHeaderBytes
//@ assume github.com/tinylib/msgp/msgp.ReadMapKeyZC
//@ assume github.com/tinylib/msgp/msgp.IsNil
//@ assume github.com/tinylib/msgp/msgp.ReadNilBytes
//@ assume github.com/tinylib/msgp/msgp.Skip
//@ package bytes
//@ assume bytes.Equal
//@ package types
//@ assume types.CoreFieldsUnmarshaler.UnmarshalMsgpFirstEvent
//@   modifies payload
//@ package route
//@ contract route.(*batchedEvent).UnmarshalMsg#time props C22,C04 noframe
//@   assert only none
//@   requires b != nil
//@   ensures[the-time-stored-is-the-time-decoded] result1 == nil && readTimeN() > old(readTimeN()) && b.MsgPackTimestamp != nil ==> *b.MsgPackTimestamp == readTimeLast()
//@   ensures[the-rate-stored-is-the-rate-decoded] result1 == nil && readIntN() > old(readIntN()) ==> b.SampleRate == readIntLast()
//@   loop 1 invariant[stored-as-decoded-so-far] b != nil && (readTimeN() > old(readTimeN()) && b.MsgPackTimestamp != nil ==> *b.MsgPackTimestamp == readTimeLast()) && (readIntN() > old(readIntN()) ==> b.SampleRate == readIntLast())
//@   modifies b.MsgPackTimestamp, *b.MsgPackTimestamp, b.SampleRate, b.Data, all(readTimeN), all(readTimeLast), all(readIntN), all(readIntLast)

// ---- C37 / C19: the two pass-through middlewares installed on every route hand every request on to the next handler
// exactly once, whatever its method - neither answers a request itself (so nothing on an unhandled path is kept
// from the proxy) - and write no status of their own.
//@ contract route.(*Router).setResponseHeaders$lit1 props C37,C19 havoc
//@   assert only none
//@   requires next != nil && w != nil && req != nil
//@   ensures[every-request-is-handed-on-once] served(next) == old(served(next)) + 1
//@   modifies all(served), all(servedKey), all(hdr), all(respHeader), all(statusWrites), all(lastStatus), all(bodyWrites)

// ---- C19: the dataset named in the path is the dataset the sender named.
// The sending side (transmit.buildRequestURL, and every libhoney client) writes the
// dataset with url.PathEscape; the receiving side must read it back with the inverse
// of exactly that encoding (assumed: PathUnescape(PathEscape(s)) == s, nil - nothing
// of the kind holds of QueryUnescape, which also turns '+' into a space).
//@ contract route.getDatasetFromRequest props C19
//@   requires req != nil
//@   ensures[a-dataset-written-with-PathEscape-is-read-back-unchanged] forall d string :: d != "" && mux.Vars(req)["datasetName"] == url.PathEscape(d) && url.PathEscape(d) != "" ==> result0 == d && result1 == nil

// ---- C23 (gRPC): husky's AsGRPCError turns an OTLPError into status.Error(GRPCStatusCode, ...), and status.Error
// returns nil - success - for codes.OK, the zero value. An OTLPError that code under contract for C23 hands on as
// an `error` must therefore carry a gRPC code (the HTTP handlers pass OTLPError by value to
// handleOTLPFailureResponse, which reads the HTTP status: those are not conversions to error).
//@ boxednonzero github.com/honeycombio/husky/otlp.OTLPError.GRPCStatusCode props C23
