//go:build verif

package metrics

// Contracts for package metrics (comment-only; read by /verif/govc).

//@ contract metrics.ConvertBoolToFloat inline
