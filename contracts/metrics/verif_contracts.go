//go:build verif

package metrics

// Contracts for package metrics (comment-only; read by /verif/govc).

//@ contract metrics.ConvertBoolToFloat inline

// ---- C33: the metrics store reports what was recorded.
// Abstract view of the store: the value of each named counter / gauge / up-down
// counter / stored constant (0 when the name has never been seen).

//@ spec cval(m *MultiMetrics, n string) uint64 := ite(in(m.counters, n), *asPtr(m.counters[n], *atomic.Uint64), 0)
//@ spec uval(m *MultiMetrics, n string) int64 := ite(in(m.updowns, n), *asPtr(m.updowns[n], *atomic.Int64), 0)
//@ spec gbits(m *MultiMetrics, n string) uint64 := ite(in(m.gauges, n), *asPtr(m.gauges[n], *atomic.Uint64), 0)
//@ spec sbits(m *MultiMetrics, n string) uint64 := ite(in(m.stores, n), *asPtr(m.stores[n], *atomic.Uint64), 0)

// Representation invariant: every cell is of the expected dynamic type, non-nil,
// allocated before this call, and no two names share a cell.
//@ spec cellsOK(mp sync.Map, isU bool) bool := (forall k string :: in(mp, k) ==> (ite(isU, isType(mp[k], *atomic.Uint64), isType(mp[k], *atomic.Int64)) && toInt(asPtr(mp[k], *atomic.Uint64)) > 0)) && (forall a string, b string :: in(mp, a) && in(mp, b) && a != b ==> toInt(asPtr(mp[a], *atomic.Uint64)) != toInt(asPtr(mp[b], *atomic.Uint64)))
//@ objinv metrics.MultiMetrics cells : cellsOK(this.counters, true) && cellsOK(this.gauges, true) && cellsOK(this.stores, true) && cellsOK(this.updowns, false)
//@ spec disjointCells(x sync.Map, y sync.Map) bool := forall a string, b string :: in(x, a) && in(y, b) ==> toInt(asPtr(x[a], *atomic.Uint64)) != toInt(asPtr(y[b], *atomic.Uint64))
//@ objinv metrics.MultiMetrics disjoint : disjointCells(this.counters, this.gauges) && disjointCells(this.counters, this.stores) && disjointCells(this.gauges, this.stores)
//@ objinv metrics.MultiMetrics types : forall k string :: in(this.metricTypes, k) ==> isType(this.metricTypes[k], MetricType)

//@ contract metrics.(*MultiMetrics).Increment props C33
//@   arith math
//@   requires m != nil
//@   ensures[adds-one] cval(m, name) == old(cval(m, name)) + 1
//@   ensures[other-counters-untouched] forall n string :: n != name ==> cval(m, n) == old(cval(m, n))
//@   ensures[other-kinds-untouched] forall n string :: uval(m, n) == old(uval(m, n)) && gbits(m, n) == old(gbits(m, n)) && sbits(m, n) == old(sbits(m, n))
//@   modifies m.counters, *asPtr(old(m.counters)[name], *atomic.Uint64)

//@ contract metrics.(*MultiMetrics).Count props C33
//@   arith math
//@   requires m != nil
//@   requires n >= 0
//@   ensures[adds-n] toInt(cval(m, name)) == toInt(old(cval(m, name))) + toInt(n)
//@   ensures[other-counters-untouched] forall k string :: k != name ==> cval(m, k) == old(cval(m, k))
//@   ensures[other-kinds-untouched] forall k string :: uval(m, k) == old(uval(m, k)) && gbits(m, k) == old(gbits(m, k)) && sbits(m, k) == old(sbits(m, k))
//@   modifies m.counters, *asPtr(old(m.counters)[name], *atomic.Uint64)

//@ contract metrics.(*MultiMetrics).Gauge props C33
//@   requires m != nil
//@   ensures[last-value] math.Float64frombits(gbits(m, name)) == val
//@   ensures[other-gauges-untouched] forall k string :: k != name ==> gbits(m, k) == old(gbits(m, k))
//@   ensures[other-kinds-untouched] forall k string :: uval(m, k) == old(uval(m, k)) && cval(m, k) == old(cval(m, k)) && sbits(m, k) == old(sbits(m, k))
//@   modifies m.gauges, *asPtr(old(m.gauges)[name], *atomic.Uint64)

//@ contract metrics.(*MultiMetrics).Store props C33
//@   requires m != nil
//@   ensures[last-value] math.Float64frombits(sbits(m, name)) == val
//@   ensures[other-stores-untouched] forall k string :: k != name ==> sbits(m, k) == old(sbits(m, k))
//@   ensures[other-kinds-untouched] forall k string :: uval(m, k) == old(uval(m, k)) && cval(m, k) == old(cval(m, k)) && gbits(m, k) == old(gbits(m, k))
//@   modifies m.stores, *asPtr(old(m.stores)[name], *atomic.Uint64)

//@ contract metrics.(*MultiMetrics).Up props C33
//@   arith math
//@   requires m != nil
//@   ensures[plus-one] uval(m, name) == old(uval(m, name)) + 1
//@   ensures[other-updowns-untouched] forall k string :: k != name ==> uval(m, k) == old(uval(m, k))
//@   ensures[other-kinds-untouched] forall k string :: cval(m, k) == old(cval(m, k)) && gbits(m, k) == old(gbits(m, k)) && sbits(m, k) == old(sbits(m, k))
//@   modifies m.updowns, *asPtr(old(m.updowns)[name], *atomic.Int64)

//@ contract metrics.(*MultiMetrics).Down props C33
//@   arith math
//@   requires m != nil
//@   ensures[minus-one] uval(m, name) == old(uval(m, name)) - 1
//@   ensures[other-updowns-untouched] forall k string :: k != name ==> uval(m, k) == old(uval(m, k))
//@   ensures[other-kinds-untouched] forall k string :: cval(m, k) == old(cval(m, k)) && gbits(m, k) == old(gbits(m, k)) && sbits(m, k) == old(sbits(m, k))
//@   modifies m.updowns, *asPtr(old(m.updowns)[name], *atomic.Int64)

// Register may be called any number of times, in any order, by any component
// (samplers and caches register lazily): it must not change any recorded value.
//@ contract metrics.(*MultiMetrics).Register props C33
//@   requires m != nil
//@   ensures[counters-survive-registration] forall k string :: cval(m, k) == old(cval(m, k))
//@   ensures[updowns-survive-registration] forall k string :: uval(m, k) == old(uval(m, k))
//@   ensures[gauges-survive-registration] forall k string :: gbits(m, k) == old(gbits(m, k))
//@   ensures[stores-survive-registration] forall k string :: sbits(m, k) == old(sbits(m, k))
//@   ensures[type-recorded] in(m.metricTypes, metadata.Name) && asType(m.metricTypes[metadata.Name], MetricType) == metadata.Type
//@   modifies m.counters, m.gauges, m.updowns, m.metricTypes

//@ contract metrics.(*MultiMetrics).Get props C33
//@   requires m != nil
//@   let ty = asType(m.metricTypes[name], MetricType)
//@   ensures[stored-constant] in(m.stores, name) ==> result1 && result0 == math.Float64frombits(sbits(m, name))
//@   ensures[counter] !in(m.stores, name) && in(m.metricTypes, name) && ty == Counter && in(m.counters, name) ==> result1 && result0 == toReal(cval(m, name))
//@   ensures[gauge] !in(m.stores, name) && in(m.metricTypes, name) && ty == Gauge && in(m.gauges, name) ==> result1 && result0 == math.Float64frombits(gbits(m, name))
//@   ensures[updown] !in(m.stores, name) && in(m.metricTypes, name) && ty == UpDown && in(m.updowns, name) ==> result1 && result0 == toReal(uval(m, name))
//@   ensures[unregistered-counter] !in(m.stores, name) && !in(m.metricTypes, name) && in(m.counters, name) ==> result1 && result0 == toReal(cval(m, name))
//@   ensures[unknown] !in(m.stores, name) && !in(m.metricTypes, name) && !in(m.counters, name) && !in(m.gauges, name) && !in(m.updowns, name) ==> !result1
//@   modifies nothing
