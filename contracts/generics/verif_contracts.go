//go:build verif

package generics

// Contracts for package generics (comment-only; read by /verif/govc).
// C32: TTL sets and maps agree on membership at every instant.
//
// The abstract view of a TTL set at clock reading `now` is the set of items whose
// expiration lies in the future. Every query must answer over that one view, at
// every instant, including the instant at which an expiration equals `now`.

//@ contract generics.(*SetWithTTL).Add props C32
//@   requires s != nil
//@   ensures[added-expire-at-now+ttl] forall i int :: 0 <= i && i < len(es) ==> in(s.Items, es[i]) && s.Items[es[i]] == clockNow(s.Clock).Add(s.TTL)
//@   ensures[others-untouched] forall e T :: !(exists i int :: 0 <= i && i < len(es) && es[i] == e) ==> (in(s.Items, e) == in(old(s.Items), e) && s.Items[e] == old(s.Items)[e])
//@   loop 1 invariant (forall j int :: 0 <= j && j < iter ==> in(s.Items, es[j]) && s.Items[es[j]] == clockNow(s.Clock).Add(s.TTL)) && (forall e T :: !(exists j int :: 0 <= j && j < iter && es[j] == e) ==> (in(s.Items, e) == in(old(s.Items), e) && s.Items[e] == old(s.Items)[e]))
//@   modifies s.Items

//@ contract generics.(*SetWithTTL).Contains props C32
//@   requires s != nil
//@   ensures[view] result == (in(s.Items, e) && s.Items[e].After(clockNow(s.Clock)))
//@   modifies nothing

//@ contract generics.(*SetWithTTL).cleanup props C32
//@   requires s != nil
//@   ensures[exactly-the-view] forall e T :: in(s.Items, e) == (in(old(s.Items), e) && old(s.Items)[e].After(clockNow(s.Clock)))
//@   ensures[expirations-kept] forall e T :: in(s.Items, e) ==> s.Items[e] == old(s.Items)[e]
//@   ensures[count] result == card(s.Items)
//@   modifies s.Items

//@ contract generics.(*SetWithTTL).Length props C32
//@   requires s != nil
//@   ensures[exactly-the-view] forall e T :: in(s.Items, e) == (in(old(s.Items), e) && old(s.Items)[e].After(clockNow(s.Clock)))
//@   ensures[count] result == card(s.Items)
//@   modifies s.Items

//@ contract generics.(*SetWithTTL).Members props C32
//@   requires s != nil
//@   ensures[lists-exactly-the-view] forall e T :: (exists i int :: 0 <= i && i < len(result) && result[i] == e) == (in(old(s.Items), e) && old(s.Items)[e].After(clockNow(s.Clock)))
//@   ensures[count] len(result) == card(s.Items)
//@   modifies s.Items

// ---- MapWithTTL: an entry is present while now <= expiration (Get's own test), for every query.

//@ contract generics.(*MapWithTTL).Set props C32
//@   requires m != nil
//@   ensures[set] in(m.Items, k) && m.Items[k].Value == v && m.Items[k].Expiration == clockNow(m.Clock).Add(m.TTL)
//@   ensures[others-untouched] forall j K :: j != k ==> (in(m.Items, j) == in(old(m.Items), j) && m.Items[j] == old(m.Items)[j])
//@   modifies m.Items

//@ contract generics.(*MapWithTTL).Get props C32
//@   requires m != nil
//@   ensures[view] result1 == (in(m.Items, k) && !m.Items[k].Expiration.Before(clockNow(m.Clock)))
//@   ensures[value] result1 ==> result0 == m.Items[k].Value
//@   modifies nothing

//@ contract generics.(*MapWithTTL).Delete props C32
//@   requires m != nil
//@   ensures[deleted] m.Items == mapdel(old(m.Items), k)
//@   modifies m.Items

//@ contract generics.(*MapWithTTL).cleanup props C32
//@   arith math
//@   requires m != nil
//@   ensures[exactly-the-view] forall j K :: in(m.Items, j) == (in(old(m.Items), j) && !old(m.Items)[j].Expiration.Before(clockNow(m.Clock)))
//@   ensures[entries-kept] forall j K :: in(m.Items, j) ==> m.Items[j] == old(m.Items)[j]
//@   loop 1 invariant (forall j K :: in(m.Items, j) == (in(old(m.Items), j) && (seen(j) ==> !old(m.Items)[j].Expiration.Before(clockNow(m.Clock))))) && (forall j K :: in(m.Items, j) ==> m.Items[j] == old(m.Items)[j]) && (forall j K :: seen(j) ==> in(old(m.Items), j))
//@   modifies m.Items

//@ contract generics.(*MapWithTTL).Keys props C32
//@   requires m != nil
//@   ensures[lists-only-the-view] forall i int :: 0 <= i && i < len(result) ==> (in(old(m.Items), result[i]) && !old(m.Items)[result[i]].Expiration.Before(clockNow(m.Clock)))
//@   ensures[only-expired-entries-leave] forall j K :: in(m.Items, j) == (in(old(m.Items), j) && !old(m.Items)[j].Expiration.Before(clockNow(m.Clock)))
//@   ensures[entries-kept] forall j K :: in(m.Items, j) ==> m.Items[j] == old(m.Items)[j]
//@   loop 1 invariant forall i int :: 0 <= i && i < len(keys) ==> in(m.Items, keys[i])
//@   modifies m.Items

//@ contract generics.(*MapWithTTL).SortedKeys props C32,C18
//@   requires m != nil
//@   ensures[lists-only-the-view] forall i int :: 0 <= i && i < len(result) ==> (in(old(m.Items), result[i]) && !old(m.Items)[result[i]].Expiration.Before(clockNow(m.Clock)))
//@   ensures[only-expired-entries-leave] forall j K :: in(m.Items, j) == (in(old(m.Items), j) && !old(m.Items)[j].Expiration.Before(clockNow(m.Clock)))
//@   ensures[entries-kept] forall j K :: in(m.Items, j) ==> m.Items[j] == old(m.Items)[j]
//@   modifies m.Items

// ---- C35: both TTL containers promise to be safe for concurrent use
//@ guarded_by generics.SetWithTTL.mut: Items
//@ lockdiscipline generics.SetWithTTL mut props C35
//@ guarded_by generics.MapWithTTL.mut: Items
//@ lockdiscipline generics.MapWithTTL mut props C35
