//go:build verif

package peer

// Contracts for package internal/peer (comment-only; read by /verif/govc).
// C18 (codec part): membership messages round-trip exactly.

//@ contract internal/peer.(*peerCommand).marshal props C18
//@   requires p != nil
//@   ensures[format] result == string(p.action) + p.address + "," + p.id
//@   modifies nothing

// Round trip: decoding the encoding of (action, address, id) gives them back, for
// every id and every address that does not itself contain the separator.
//@ contract internal/peer.(*peerCommand).unmarshal props C18,C28
//@   requires p != nil
//@   ensures[round-trip] forall a string, ad string, i string :: (a == "R" || a == "U") && !strings.Contains(ad, ",") && msg == a + ad + "," + i ==> result && string(p.action) == a && p.address == ad && p.id == i
//@   finding F-C18-1 ensures[round-trip-any-address@C18] forall a string, ad string, i string :: (a == "R" || a == "U") && msg == a + ad + "," + i ==> result && string(p.action) == a && p.address == ad && p.id == i
//@   ensures[rejects-other-actions] result ==> (string(p.action) == "R" || string(p.action) == "U")
//@   ensures[decoded-parts-reassemble] result ==> msg == string(p.action) + p.address + "," + p.id && !strings.Contains(p.address, ",")
//@   modifies p.action, p.address, p.id

//@ contract internal/peer.hashList props C18
//@   modifies nothing

// checkN(p): how many times the peer table was re-examined (expired entries purged, hash compared, callbacks fired on change)
//@ ghost checkN(ref) int
//@ contract internal/peer.(*RedisPubsubPeers).checkHash props C18
//@   requires p != nil && p.peers != nil
//@   ghostupdate checkN(p) :: checkN(p) == old(checkN(p)) + 1
//@   ensures[only-expired-entries-leave] forall j string :: in(p.peers.Items, j) == (in(old(p.peers.Items), j) && !old(p.peers.Items)[j].Expiration.Before(clockNow(p.peers.Clock)))
//@   ensures[entries-kept] forall j string :: in(p.peers.Items, j) ==> p.peers.Items[j] == old(p.peers.Items)[j]
//@   modifies p.hash, p.peers.Items, checkN(p)

// A membership message is applied to the table: a registration (re)inserts the
// instance with a fresh expiry, an unregistration removes it; anything undecodable
// changes nothing.
//@ contract internal/peer.(*RedisPubsubPeers).listen props C18
//@   requires p != nil && p.peers != nil && p.peers.TTL >= 0
//@   ensures[register-inserts] forall ad string, i string :: !strings.Contains(ad, ",") && msg == "R" + ad + "," + i ==> in(p.peers.Items, i) && p.peers.Items[i].Value == ad && p.peers.Items[i].Expiration == clockNow(p.peers.Clock).Add(p.peers.TTL)
//@   ensures[unregister-removes] forall ad string, i string :: !strings.Contains(ad, ",") && msg == "U" + ad + "," + i ==> !in(p.peers.Items, i)
// every membership message, including the periodic refresh of a peer already known, makes the node re-examine
// its table: that is what notices peers that went silent (their entries expire) and tells the subscribers
//@   ensures[every-registration-re-examines-the-table] forall ad string, i string :: !strings.Contains(ad, ",") && msg == "R" + ad + "," + i ==> checkN(p) == old(checkN(p)) + 1 && (forall j string :: in(p.peers.Items, j) ==> !p.peers.Items[j].Expiration.Before(clockNow(p.peers.Clock)))
//@   ensures[every-unregistration-re-examines-the-table] forall ad string, i string :: !strings.Contains(ad, ",") && msg == "U" + ad + "," + i ==> checkN(p) == old(checkN(p)) + 1
//@   ensures[others-only-expire] forall j string :: in(p.peers.Items, j) && !(exists ad string :: !strings.Contains(ad, ",") && msg == "R" + ad + "," + j) ==> in(old(p.peers.Items), j) && p.peers.Items[j] == old(p.peers.Items)[j]
//@   modifies p.hash, p.peers.Items, checkN(p)
