//go:build verif

package peer

// Contracts for package internal/peer (comment-only; read by /verif/govc).
// C18 (codec part): membership messages round-trip exactly.

//@ contract internal/peer.(*peerCommand).marshal props C18
//@   requires p != nil
//@   ensures[format] result == string(p.action) + p.address + "," + p.id
//@   modifies nothing

// Round trip: decoding the encoding of (action, address, id) gives them back, for
// every id and every address that does not itself contain the separator.
//@ contract internal/peer.(*peerCommand).unmarshal props C18,C28
//@   requires p != nil
//@   ensures[round-trip] forall a string, ad string, i string :: (a == "R" || a == "U") && !strings.Contains(ad, ",") && msg == a + ad + "," + i ==> result && string(p.action) == a && p.address == ad && p.id == i
//@   finding F-C18-1 ensures[round-trip-any-address@C18] forall a string, ad string, i string :: (a == "R" || a == "U") && msg == a + ad + "," + i ==> result && string(p.action) == a && p.address == ad && p.id == i
//@   ensures[rejects-other-actions] result ==> (string(p.action) == "R" || string(p.action) == "U")
//@   ensures[decoded-parts-reassemble] result ==> msg == string(p.action) + p.address + "," + p.id && !strings.Contains(p.address, ",")
//@   modifies p.action, p.address, p.id

//@ contract internal/peer.hashList props C18
//@   modifies nothing

// checkN(p): how many times the peer table was re-examined (expired entries purged, hash compared, callbacks fired on change)
//@ ghost checkN(ref) int
//@ contract internal/peer.(*RedisPubsubPeers).checkHash props C18
//@   requires p != nil && p.peers != nil
//@   ghostupdate checkN(p) :: checkN(p) == old(checkN(p)) + 1
//@   ensures[only-expired-entries-leave] forall j string :: in(p.peers.Items, j) == (in(old(p.peers.Items), j) && !old(p.peers.Items)[j].Expiration.Before(clockNow(p.peers.Clock)))
//@   ensures[entries-kept] forall j string :: in(p.peers.Items, j) ==> p.peers.Items[j] == old(p.peers.Items)[j]
//@   modifies p.hash, p.peers.Items, checkN(p)

// A membership message is applied to the table: a registration (re)inserts the
// instance with a fresh expiry, an unregistration removes it; anything undecodable
// changes nothing.
//@ contract internal/peer.(*RedisPubsubPeers).listen props C18,C17
//@   requires p != nil && p.peers != nil && p.peers.TTL >= 0
//@   ensures[register-inserts] forall ad string, i string :: !strings.Contains(ad, ",") && msg == "R" + ad + "," + i ==> in(p.peers.Items, i) && p.peers.Items[i].Value == ad && p.peers.Items[i].Expiration == clockNow(p.peers.Clock).Add(p.peers.TTL)
//@   ensures[unregister-removes] forall ad string, i string :: !strings.Contains(ad, ",") && msg == "U" + ad + "," + i ==> !in(p.peers.Items, i)
// every membership message, including the periodic refresh of a peer already known, makes the node re-examine
// its table: that is what notices peers that went silent (their entries expire) and tells the subscribers
//@   ensures[every-registration-re-examines-the-table] forall ad string, i string :: !strings.Contains(ad, ",") && msg == "R" + ad + "," + i ==> checkN(p) == old(checkN(p)) + 1 && (forall j string :: in(p.peers.Items, j) ==> !p.peers.Items[j].Expiration.Before(clockNow(p.peers.Clock)))
//@   ensures[every-unregistration-re-examines-the-table] forall ad string, i string :: !strings.Contains(ad, ",") && msg == "U" + ad + "," + i ==> checkN(p) == old(checkN(p)) + 1
//@   ensures[others-only-expire] forall j string :: in(p.peers.Items, j) && !(exists ad string :: !strings.Contains(ad, ",") && msg == "R" + ad + "," + j) ==> in(old(p.peers.Items), j) && p.peers.Items[j] == old(p.peers.Items)[j]
//@   modifies p.hash, p.peers.Items, checkN(p)

// ---- C18 (a live, publishing node stays in every peer list): the refresh loop Ready starts announces this node
// more often than entries expire - the ticker it creates, and any period it is later reset to, stays below
// PeerEntryTimeout - and every tick publishes one Register message for this node.
//@ ghost tickerPeriod(ref) int
//@ ghost publishedN(ref) int
//@ package pubsub
//@ assume pubsub.PubSub.Publish
//@   ghostupdate[announced@C18] publishedN(this) :: publishedN(this) == old(publishedN(this)) + 1
//@ package internal/peer
//@ assume internal/peer.newPeerCommand
//@   ensures result != nil
//@ assume config.Config.GetPeerTimeout getter
//@ assume internal/peer.(*RedisPubsubPeers).stop
// currentHash reads the hash under the read lock; it starts nothing and touches no ticker (assumed frame; its lock use is checked under C35)
//@ assume internal/peer.(*RedisPubsubPeers).currentHash
//@ final internal/peer.RedisPubsubPeers.PubSub
//@ final internal/peer.RedisPubsubPeers.peers
//@ assume generics.(*MapWithTTL).Length
//@ assume generics.(*MapWithTTL).SortedValues
//@ contract internal/peer.(*RedisPubsubPeers).Ready$lit1 props C18 havocheap noinv localcalls
//@   arith math
//@   assert only none
//@   requires p != nil && p.PubSub != nil && p.peers != nil
//@   loop 1 invariant[announcements-come-faster-than-entries-expire] 0 < tickerPeriod(ticker) && tickerPeriod(ticker) < toInt(PeerEntryTimeout)
//@   modifies all(publishedN), all(fnCallsT), all(fnCalls), all(fnCalledN)
//@ fragment internal/peer.(*RedisPubsubPeers).Ready$lit1 select 1 case 2 props C18 havocheap noinv localcalls
//@   assert only none
//@   requires p != nil && p.PubSub != nil && p.peers != nil
//@   let ps = p.PubSub
//@   ensures[every-tick-announces-this-node] publishedN(ps) == old(publishedN(ps)) + 1
//@   modifies all(publishedN), all(fnCallsT), all(fnCalls), all(fnCalledN)

// ---- C35: the peer list is used by the subscription goroutine (listen, checkHash - with the local pubsub, one
// goroutine per message), by the refresh goroutine Ready starts, and by the components that register callbacks or
// ask for the peers. hash and callbacks are behind mut; every other field that is not final, a channel or a
// self-synchronising type must be assigned only by Start, which runs before any of those goroutines exists.
//@ guarded_by internal/peer.RedisPubsubPeers.mut: hash, callbacks
//@ lockdiscipline internal/peer.RedisPubsubPeers mut props C35 skip: Start
//@ confine internal/peer.RedisPubsubPeers props C35 init: Start
