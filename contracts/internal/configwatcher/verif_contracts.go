//go:build verif

package configwatcher

// Contracts for package internal/configwatcher (comment-only; read by /verif/govc).

// ---- C27 (reload triggers): neither trigger loses a change. Every well-formed announcement received from a peer,
// and every tick of the reload timer, asks the configuration to reload itself exactly once - whether something
// changed is decided there (fileConfig.Reload compares content hashes, see package config), never here: an
// announcement is not skipped because of its timestamp, its sender or what was announced before.
//@ ghost reloadAsked(ref) int
//@ package config
//@ assume config.Config.Reload
//@   ghostupdate[asked@C27] reloadAsked(this) :: reloadAsked(this) == old(reloadAsked(this)) + 1
//@ package internal/configwatcher
//@ assume internal/otelutil.StartSpanWith
//@ final internal/configwatcher.ConfigWatcher.Config
//@ contract internal/configwatcher.(*ConfigWatcher).SubscriptionListener props C27
//@   assert only none
//@   requires cw != nil && cw.Config != nil
//@   let cfg = cw.Config
//@   let wellFormed = nth(1, time.Parse(time.RFC3339, msg)) == nil
//@   ensures[every-well-formed-announcement-asks-for-a-reload] wellFormed ==> reloadAsked(cfg) == old(reloadAsked(cfg)) + 1
//@   ensures[a-malformed-announcement-is-ignored] !wellFormed ==> reloadAsked(cfg) == old(reloadAsked(cfg))
//@   modifies cw.msgTime, cw.mut, all(reloadAsked)
// one tick of the reload timer
//@ fragment internal/configwatcher.(*ConfigWatcher).monitor select 1 case 2 props C27
//@   assert only none
//@   requires cw != nil && cw.Config != nil
//@   let cfg = cw.Config
//@   ensures[every-tick-asks-for-a-reload] reloadAsked(cfg) == old(reloadAsked(cfg)) + 1
//@   modifies all(reloadAsked)
