//go:build verif

package health

// Contracts for package internal/health (comment-only; read by /verif/govc).
// C30: liveness and readiness follow subsystem reports within one tick.

//@ spec tickStep(x time.Duration) time.Duration := ite(x > 0, max(x - TickerTime, 0), x)
//@ spec allAlive(tl map[string]time.Duration) bool := forall k string :: in(tl, k) ==> tl[k] != 0
//@ spec allReporting(tl map[string]time.Duration) bool := forall k string :: in(tl, k) ==> tl[k] > 0
//@ spec allReady(rd map[string]bool) bool := forall k string :: in(rd, k) ==> rd[k]

//@ contract internal/health.(*Health).checkAlive props C30
//@   requires h != nil
//@   ensures[alive-iff] result == allAlive(h.timeLeft)
//@   ensures[timeleft-unchanged] h.timeLeft == old(h.timeLeft)
//@   loop 1 invariant h.timeLeft == old(h.timeLeft) && (forall k string :: seen(k) ==> h.timeLeft[k] != 0)
//@   modifies h.alives

//@ contract internal/health.(*Health).checkReady props C30
//@   requires h != nil
//@   ensures[ready-iff] result == (card(h.readies) > 0 && allReporting(h.timeLeft) && allReady(h.readies))
//@   loop 1 invariant forall k string :: seen(k) ==> h.timeLeft[k] > 0
//@   loop 2 invariant (forall k string :: seen(k) ==> in(h.readies, k)) && ready == (forall k string :: seen(k) ==> h.readies[k])
//@   modifies nothing

//@ contract internal/health.(*Health).Register props C30
//@   requires h != nil
//@   ensures[timeouts] h.timeouts == mapset(old(h.timeouts), subsystem, timeout)
//@   ensures[not-ready] h.readies == mapset(old(h.readies), subsystem, false)
//@   ensures[not-dead-yet] h.timeLeft == mapset(old(h.timeLeft), subsystem, -1)
//@   modifies h.timeouts, h.readies, h.timeLeft

//@ contract internal/health.(*Health).Unregister props C30
//@   requires h != nil
//@   ensures[forgotten] h.timeouts == mapdel(old(h.timeouts), subsystem) && h.timeLeft == mapdel(old(h.timeLeft), subsystem)
//@   ensures[never-ready-again] h.readies == mapset(old(h.readies), subsystem, false)
//@   modifies h.timeouts, h.readies, h.timeLeft, h.alives

//@ contract internal/health.(*Health).Ready props C30
//@   requires h != nil
//@   ensures[report-resets-countdown] in(old(h.timeouts), subsystem) ==> h.timeLeft == mapset(old(h.timeLeft), subsystem, old(h.timeouts)[subsystem])
//@   ensures[report-sets-ready] in(old(h.timeouts), subsystem) ==> h.readies == mapset(old(h.readies), subsystem, ready)
//@   ensures[unregistered-ignored] !in(old(h.timeouts), subsystem) ==> h.timeLeft == old(h.timeLeft) && h.readies == old(h.readies) && h.alives == old(h.alives)
//@   ensures[timeouts-unchanged] h.timeouts == old(h.timeouts)
//@   modifies h.readies, h.timeLeft, h.alives

//@ contract internal/health.(*Health).IsAlive props C30
//@   requires h != nil
//@   ensures[alive-iff] result == allAlive(h.timeLeft)
//@   ensures[timeleft-unchanged] h.timeLeft == old(h.timeLeft)
//@   modifies h.alives

//@ contract internal/health.(*Health).IsReady props C30
//@   requires h != nil
//@   ensures[ready-iff] result == (card(h.readies) > 0 && allReporting(h.timeLeft) && allReady(h.readies))
//@   modifies nothing

// The tick: body of `case <-tick.Chan():` in ticker().
//@ fragment internal/health.(*Health).ticker select 1 case 1 props C30
//@   requires h != nil
//@   ensures[step] forall k string :: in(old(h.timeLeft), k) ==> h.timeLeft[k] == tickStep(old(h.timeLeft)[k])
//@   ensures[same-subsystems] samedom(h.timeLeft, old(h.timeLeft))
//@   loop 1 invariant samedom(h.timeLeft, old(h.timeLeft)) && (forall k string :: in(old(h.timeLeft), k) ==> h.timeLeft[k] == ite(seen(k), tickStep(old(h.timeLeft)[k]), old(h.timeLeft)[k]))
//@   modifies h.timeLeft

// History lemmas over the step function (induction on the number of ticks: base + step).
//@ lemma C30.countdown-step props C30 : forall t time.Duration, n int :: t > 0 && n >= 0 ==> tickStep(max(t - toInt(n)*TickerTime, 0)) == max(t - (toInt(n)+1)*TickerTime, 0)
//@ lemma C30.unreported-never-dies props C30 : tickStep(-1) == -1
//@ lemma C30.dead-stays-dead props C30 : tickStep(0) == 0
//@ lemma C30.frequent-reporter-stays-alive props C30 : forall t time.Duration, d int, n int :: 0 <= d && toInt(d) < t - TickerTime && 0 <= n && toInt(n) <= toInt(d) / TickerTime + 1 ==> max(t - toInt(n)*TickerTime, 0) > 0
//@ lemma C30.silent-subsystem-dies props C30 : forall t time.Duration, d int, n int :: t > 0 && toInt(d) > t + TickerTime && toInt(n) >= toInt(d) / TickerTime ==> max(t - toInt(n)*TickerTime, 0) == 0

// ---- C35: the health tables are shared by every subsystem that registers/reports and by the ticker goroutine
//@ guarded_by internal/health.Health.mut: timeouts, timeLeft, readies, alives
//@ lockdiscipline internal/health.Health mut props C35 held: checkReady wheld: checkAlive skip: Start
