//go:build verif

package sharder

// Contracts for package sharder (comment-only; read by /verif/govc).
// C17: all nodes agree on which peer owns each trace.

// Representation invariant: there is at least one peer and every partition hash
// points at an existing peer.
//@ objinv sharder.DeterministicSharder wellformed : len(this.peers) > 0 && (forall j int :: 0 <= j && j < len(this.hashes) ==> 0 <= this.hashes[j].shardIndex && this.hashes[j].shardIndex < len(this.peers))

//@ spec rendezvous(traceID string, seed uint64) uint64 := wyhash.Hash([]byte(traceID), seed)

// The owner is the peer of the partition with the greatest rendezvous hash (the
// earliest such partition on ties): a function of (peers, hashes, traceID) only.
//@ contract sharder.(*DeterministicSharder).WhichShard props C17,C28
//@   requires d != nil
//@   ensures[owner-is-a-peer] exists p int :: 0 <= p && p < len(d.peers) && result == d.peers[p]
//@   ensures[owner-is-argmax] (exists j int :: 0 <= j && j < len(d.hashes) && result == d.peers[d.hashes[j].shardIndex] && rendezvous(traceID, d.hashes[j].uhash) > 0 && (forall i int :: 0 <= i && i < len(d.hashes) ==> rendezvous(traceID, d.hashes[i].uhash) <= rendezvous(traceID, d.hashes[j].uhash))) || ((forall i int :: 0 <= i && i < len(d.hashes) ==> rendezvous(traceID, d.hashes[i].uhash) == 0) && result == d.peers[0])
//@   loop 1 invariant 0 <= bestix && bestix < len(d.peers) && (forall i int :: 0 <= i && i < iter ==> rendezvous(traceID, d.hashes[i].uhash) <= maxHash) && ((maxHash == 0 && bestix == 0) || (exists j int :: 0 <= j && j < iter && bestix == d.hashes[j].shardIndex && maxHash == rendezvous(traceID, d.hashes[j].uhash) && maxHash > 0))
//@   modifies nothing

//@ contract sharder.detShard.GetHashesFor props C17
//@   arith math
//@   ensures[count] len(result) == max(n, 0)
//@   ensures[all-point-at-index] forall j int :: 0 <= j && j < len(result) ==> result[j].shardIndex == index
//@   loop 1 invariant 0 <= i && i <= max(n, 0) && len(hashes) == i && (forall j int :: 0 <= j && j < len(hashes) ==> hashes[j].shardIndex == index)
//@   modifies nothing

//@ contract sharder.detShard.GetAddress inline

// A reloaded peer list keeps the representation invariant; the peers stored are
// exactly the members of the list, in sorted order (so every node that is given a
// permutation of the same list stores the same sequence). That the sorted slice has the
// same members as the list rests on the assumed contract of sort.Sort (a permutation)
// and on the copy loop's invariant; the quantifier alternation of 'same members' is
// beyond the solvers, so it is not restated as a postcondition.
//@ contract sharder.(*DeterministicSharder).loadPeerList props C17
//@   arith math
//@   requires d != nil
//@   let got = d.Peers.GetPeers()
//@   ensures[empty-or-failed-list-refused] (result1of(got) != nil || len(result0of(got)) == 0) ==> result != nil && d.peers == old(d.peers) && d.hashes == old(d.hashes)
//@   ensures[stored-peers-are-the-sorted-list] result == nil ==> len(d.peers) == len(result0of(got)) || d.peers == old(d.peers)
//@   ensures[sorted] result == nil && d.peers != old(d.peers) ==> (forall i int, j int :: 0 <= i && i < j && j < len(d.peers) ==> d.peers[i] <= d.peers[j])
//@   loop 1 invariant len(newPeers) == len(peerList) && (forall j int :: 0 <= j && j < ix ==> string(newPeers[j]) == peerList[j])
//@   loop 2 invariant forall j int :: 0 <= j && j < len(hashes) ==> 0 <= hashes[j].shardIndex && hashes[j].shardIndex < len(newPeers)
//@   modifies d.peers, d.hashes

//@ contract sharder.detShard.Equals inline

//@ contract sharder.SortableShardList.Equals props C17
//@   ensures[elementwise] result == (len(s) == len(other) && (forall j int :: 0 <= j && j < len(s) ==> s[j] == other[j]))
//@   loop 1 invariant len(s) == len(other) && (forall j int :: 0 <= j && j < i ==> s[j] == other[j])
//@   modifies nothing

// ---- C35: the partition table is replaced by the peer-update callback while every router goroutine reads it
//@ guarded_by sharder.DeterministicSharder.peerLock: peers, hashes
//@ lockdiscipline sharder.DeterministicSharder peerLock props C35 skip: Start
