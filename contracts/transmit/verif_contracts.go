//go:build verif

package transmit

// Contracts for package transmit (comment-only; read by /verif/govc).

// ---- C35: the batch table is filled by every goroutine that enqueues and drained by the dispatcher
//@ guarded_by transmit.DirectTransmission.batchMutex: eventBatches
// (Stop touches the table without the lock on purpose: it first closes `stop` and waits for the dispatcher,
// and the caller's contract is that nothing is enqueued after Stop - that protocol is not a lock obligation.)
//@ lockdiscipline transmit.DirectTransmission batchMutex props C35 skip: Start, Stop
//@ guarded_by transmit.eventBatch.mutex: events, startTime
//@ lockdiscipline transmit.eventBatch mutex props C35

// ---- C36 / C26: Stop flushes what is pending. After the dispatcher goroutine has been told to stop and has
// finished, every batch that still holds events is handed to the sending pool exactly once, the table is
// emptied, and Stop waits for the pool.
//@ ghost goN(ref) int
//@ ghost waitN(ref) int
//@ ghost closedN(ref) int
//@ assume github.com/sourcegraph/conc/pool.(*Pool).Go
//@   ghostupdate goN(p) :: goN(p) == old(goN(p)) + 1
//@ assume github.com/sourcegraph/conc/pool.(*Pool).Wait
//@   ghostupdate waitN(p) :: waitN(p) == old(waitN(p)) + 1
//@ fragment transmit.(*DirectTransmission).Stop loop 1 body props C36,C26
//@   requires d != nil && d.dispatchPool != nil && batch != nil
//@   let p = d.dispatchPool
//@   ensures[pending-batch-is-sent-once] goN(p) == old(goN(p)) + ite(len(batch.events) > 0, 1, 0)
//@   modifies all(goN)
//@ contract transmit.(*DirectTransmission).Stop props C36,C26
//@   assert only close-of-closed-channel
//@   requires d != nil && d.dispatchPool != nil
//@   requires[not-stopped-yet] d.stop != nil ==> closedN(d.stop) == 0
//@   let p = d.dispatchPool
//@   let stopCh = d.stop
//@   ensures[dispatcher-told-to-stop] stopCh != nil ==> closedN(stopCh) == 1
//@   ensures[table-emptied-and-pool-awaited] d.eventBatches == nil && waitN(p) == old(waitN(p)) + 1
//@   ensures[no-error] result == nil
//@   loop 1 invariant d != nil && toInt(d.dispatchPool) == toInt(p) && waitN(p) == old(waitN(p)) && d.eventBatches == nil && (stopCh != nil ==> closedN(stopCh) == 1)
//@   modifies d.eventBatches, d.dispatchPool, d.stop, all(goN), all(waitN), all(closedN)
