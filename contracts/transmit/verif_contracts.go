//go:build verif

package transmit

// Contracts for package transmit (comment-only; read by /verif/govc).

// ---- C35: the batch table is filled by every goroutine that enqueues and drained by the dispatcher
//@ guarded_by transmit.DirectTransmission.batchMutex: eventBatches
// (Stop touches the table without the lock on purpose: it first closes `stop` and waits for the dispatcher,
// and the caller's contract is that nothing is enqueued after Stop - that protocol is not a lock obligation.)
//@ lockdiscipline transmit.DirectTransmission batchMutex props C35 skip: Start, Stop
//@ guarded_by transmit.eventBatch.mutex: events, startTime
//@ lockdiscipline transmit.eventBatch mutex props C35
