//go:build verif

package transmit

// Contracts for package transmit (comment-only; read by /verif/govc).

// ---- C35: the batch table is filled by every goroutine that enqueues and drained by the dispatcher
//@ guarded_by transmit.DirectTransmission.batchMutex: eventBatches
// (Stop touches the table without the lock on purpose: it first closes `stop` and waits for the dispatcher,
// and the caller's contract is that nothing is enqueued after Stop - that protocol is not a lock obligation.)
// registerMetrics is the part of Start that fills metricKeys, before any goroutine of the transmission exists.
//@ lockdiscipline transmit.DirectTransmission batchMutex props C35,C19,C26 skip: Start, Stop, registerMetrics
// C19 / C26 (every accepted event is handled exactly once): the table only ever gains entries while the transmission
// runs - a batch that is registered is never replaced, or the events already in it would never be sent. A presence
// test made in an earlier critical section does not count (other goroutines enqueue concurrently).
//@ insertonly transmit.DirectTransmission.eventBatches
// C16 / C02 (a kept span is sent once, as it is): a batch's events are handed to the sending goroutine when the batch is
// emptied; the batch then starts over with NO slice - an emptied field that were a reslice of the old array would let the
// next enqueue overwrite an event the sender has not serialised yet.
//@ nilreset transmit.eventBatch.events
//@ guarded_by transmit.eventBatch.mutex: events, startTime
//@ lockdiscipline transmit.eventBatch mutex props C35

// ---- C36 / C26: Stop flushes what is pending. After the dispatcher goroutine has been told to stop and has
// finished, every batch that still holds events is handed to the sending pool exactly once, the table is
// emptied, and Stop waits for the pool.
//@ ghost goN(ref) int
//@ ghost waitN(ref) int
//@ ghost closedN(ref) int
//@ assume github.com/sourcegraph/conc/pool.(*Pool).Go
//@   ghostupdate goN(p) :: goN(p) == old(goN(p)) + 1
//@ assume github.com/sourcegraph/conc/pool.(*Pool).Wait
//@   ghostupdate waitN(p) :: waitN(p) == old(waitN(p)) + 1
//@ fragment transmit.(*DirectTransmission).Stop loop 1 body props C36,C26
//@   requires d != nil && d.dispatchPool != nil && batch != nil
//@   let p = d.dispatchPool
//@   ensures[pending-batch-is-sent-once] goN(p) == old(goN(p)) + ite(len(batch.events) > 0, 1, 0)
//@   modifies all(goN)
//@ contract transmit.(*DirectTransmission).Stop props C36,C26
//@   assert only close-of-closed-channel
//@   requires d != nil && d.dispatchPool != nil
//@   requires[not-stopped-yet] d.stop != nil ==> closedN(d.stop) == 0
//@   let p = d.dispatchPool
//@   let stopCh = d.stop
//@   ensures[dispatcher-told-to-stop] stopCh != nil ==> closedN(stopCh) == 1
//@   ensures[table-emptied-and-pool-awaited] len(d.eventBatches) == 0 && waitN(p) == old(waitN(p)) + 1
//@   ensures[no-error] result == nil
//@   loop 1 invariant d != nil && toInt(d.dispatchPool) == toInt(p) && waitN(p) == old(waitN(p)) && len(d.eventBatches) == 0 && (stopCh != nil ==> closedN(stopCh) == 1)
//@   modifies d.eventBatches, d.dispatchPool, d.stop, all(goN), all(waitN), all(closedN), all(waitedN)

// ---- C26: every event handed to the transmission is placed exactly once, in the batch of its own
// destination (API host, API key, dataset); a batch is handed to the sending pool as soon as it holds
// MaxBatchSize events, so a pending batch always holds fewer.
//@ keytype github.com/honeycombio/refinery/transmit.transmitKey
//@ spec destOf(ev *types.Event) transmitKey := transmitKey{apiHost: ev.APIHost, apiKey: ev.APIKey, dataset: ev.Dataset}
//@ assume github.com/jonboulle/clockwork.Clock.Now getter
//@ contract transmit.(*DirectTransmission).EnqueueEvent props C26
//@   arith math
//@   requires[set-up@C26] d != nil && ev != nil && d.dispatchPool != nil && d.maxBatchSize >= 1
//@   requires[batches-present@C26] forall k transmitKey :: in(d.eventBatches, k) ==> d.eventBatches[k] != nil
//@   requires[pending-batches-are-below-the-limit@C26] forall k transmitKey :: in(d.eventBatches, k) ==> len(d.eventBatches[k].events) < d.maxBatchSize
//@   let key = destOf(ev)
//@   let p = d.dispatchPool
//@   let n0 = ite(in(d.eventBatches, key), len(d.eventBatches[key].events), 0)
//@   ensures[a-batch-for-its-own-destination-exists] in(d.eventBatches, key) && d.eventBatches[key] != nil
//@   ensures[appended-to-its-batch-below-the-limit] n0 + 1 < d.maxBatchSize ==> len(d.eventBatches[key].events) == n0 + 1
//@   ensures[appended-last] n0 + 1 < d.maxBatchSize ==> toInt(d.eventBatches[key].events[n0]) == toInt(ev)
//@   ensures[not-dispatched-below-the-limit] n0 + 1 < d.maxBatchSize ==> goN(p) == old(goN(p))
//@   ensures[dispatched-at-the-limit] n0 + 1 >= d.maxBatchSize ==> len(d.eventBatches[key].events) == 0 && goN(p) == old(goN(p)) + 1
//@   ensures[other-destinations-untouched] forall k transmitKey :: k != key ==> in(d.eventBatches, k) == in(old(d.eventBatches), k) && toInt(d.eventBatches[k]) == toInt(old(d.eventBatches)[k])
//@   ensures[pending-batches-stay-below-the-limit] forall k transmitKey :: in(d.eventBatches, k) ==> len(d.eventBatches[k].events) < d.maxBatchSize
//@   modifies ev.EnqueuedUnixMicro, d.eventBatches, field(eventBatch, events), field(eventBatch, startTime), all(goN)

// One round of sendBatch (one sub-batch): the HTTP request is attempted at most twice (a 429/503 with a short
// Retry-After, or a timeout, earns exactly one more attempt).
//@ ghost doN(ref) int
// the client, the pool and the table are set when the transmission is built
//@ final transmit.DirectTransmission.httpClient
//@ final transmit.DirectTransmission.Metrics
//@ final transmit.DirectTransmission.metricKeys
// helpers of sendBatch: logging / metrics / encoding; none of them sends a request
// ---- C26 / C36: every event handed to sendBatch gets exactly one outcome - the queued-items gauge, raised once
// per event by EnqueueEvent, is lowered exactly once per event whatever happens to it (sent, refused by the API,
// too large to encode, its request failed), so it returns to zero once every event has an outcome; and no answer
// is read after its body has been closed (an answer the code has decided to retry is never used as the final one).
//@ ghost downN(ref, string) int
//@ assume metrics.MetricsBackend.Down
//@   ghostupdate[queued-items-gauge@C26,C36] downN(this, name) :: downN(this, name) == old(downN(this, name)) + 1
//@ assume transmit.(*DirectTransmission).handleError
//@ contract transmit.(*DirectTransmission).handleEventError props C26,C36
//@   assert only none
//@   requires d != nil
//@   let m = d.Metrics
//@   let k = d.metricKeys.updownQueuedItems
//@   ensures[the-event-has-its-outcome] downN(m, k) == old(downN(m, k)) + 1
//@   modifies all(downN)
//@ contract transmit.(*DirectTransmission).handleBatchFailure props C26,C36
//@   arith math
//@   assert only none
//@   requires d != nil
//@   let m = d.Metrics
//@   let k = d.metricKeys.updownQueuedItems
//@   ensures[every-event-of-the-batch-has-its-outcome] downN(m, k) == old(downN(m, k)) + len(batch)
//@   loop 1 invariant[one-per-event-so-far] downN(m, k) == old(downN(m, k)) + iter && toInt(d.Metrics) == toInt(m) && d.metricKeys.updownQueuedItems == k
//@   modifies all(downN)
// ---- C22 / C04 (last mile): what goes on the wire for an event is its own timestamp, handed to the msgpack
// timestamp encoder exactly as it is (no rounding, no re-reading of the clock), and its own sample rate.
//@ ghost timeExtN() int
//@ ghost timeExtLast() time
//@ ghost rateN() int
//@ ghost rateLast() int
//@ package github.com/tinylib/msgp/msgp
//@ assume github.com/tinylib/msgp/msgp.AppendTimeExt
//@   ghostupdate[encoded-time@C22] timeExtN(), timeExtLast() :: timeExtN() == old(timeExtN()) + 1 && timeExtLast() == t
//@ assume github.com/tinylib/msgp/msgp.AppendInt64
//@   ghostupdate[encoded-rate@C22,C04] rateN(), rateLast() :: rateN() == old(rateN()) + 1 && rateLast() == i
//@ assume github.com/tinylib/msgp/msgp.WrapError
//@ package types
//@ assume types.Payload.MarshalMsg
//@ package transmit
//@ contract transmit.(*batchedEvent).MarshalMsg props C22,C04
//@   assert only none
//@   requires z != nil
//@   ensures[the-time-is-encoded-once-as-it-is@C22] timeExtN() == old(timeExtN()) + 1 && timeExtLast() == z.time
//@   ensures[the-sample-rate-is-encoded-once-as-it-is] rateN() == old(rateN()) + 1 && rateLast() == z.sampleRate
//@   modifies all(timeExtN), all(timeExtLast), all(rateN), all(rateLast)
// one event of a batch being packed: it is encoded with its own time and its own rate
//@ fragment transmit.(*DirectTransmission).sendBatch loop 2 body props C22,C04 havoc noinv
//@   arith math
//@   assert only none
//@   requires d != nil && 0 <= i && i < len(wholeBatch) && wholeBatch[i] != nil
//@   let ev = wholeBatch[i]
// a sample rate is a count of events represented; it is converted to the wire's signed 64-bit integer
//@   domain[rate-fits-the-wire-type] toInt(wholeBatch[i].SampleRate) <= 9223372036854775807
//@   ensures[each-event-is-encoded-with-its-own-time@C22] timeExtN() == old(timeExtN()) + 1 && timeExtLast() == old(ev.Timestamp)
//@   ensures[each-event-is-encoded-with-its-own-rate] rateN() == old(rateN()) + 1 && rateLast() == toInt(old(ev.SampleRate))
//@   modifies all(timeExtN), all(timeExtLast), all(rateN), all(rateLast), all(downN)
//@ assume transmit.buildRequestURL
//@ assume transmit.httpError.Timeout
//@ fragment transmit.(*DirectTransmission).sendBatch loop 1 body props C26,C16 havoc noinv
//@   arith math
//@   assert only none
//@   requires d != nil && d.httpClient != nil && len(wholeBatch) > 0 && wholeBatch[0] != nil
//@   let c = d.httpClient
//@   ensures[at-most-two-attempts-per-batch] doN(c) <= old(doN(c)) + 2
//@   ensures[the-destination-is-read-from-the-first-event-when-the-batch-is-sent] apiHost == old(wholeBatch[0].APIHost) && apiKey == old(wholeBatch[0].APIKey) && dataset == old(wholeBatch[0].Dataset)
//@   loop 1 invariant[packing-sends-nothing] doN(c) == old(doN(c)) && toInt(d.httpClient) == toInt(c)
//@   loop 2 invariant[one-request-per-attempt] doN(c) <= old(doN(c)) + try && try <= 2 && toInt(d.httpClient) == toInt(c)
//@   loop 3 invariant[headers-send-nothing] doN(c) <= old(doN(c)) + try && try < 2 && toInt(d.httpClient) == toInt(c)
//@   loop 4 invariant[responses-send-nothing] doN(c) <= old(doN(c)) + 2
//@   loop 5 invariant[errors-send-nothing] doN(c) <= old(doN(c)) + 2
// C16 / C26: the destination of a sub-batch is read from its first event when it is sent, and every request made
// for it goes to that URL with that key (the standard headers are set after the configured extra headers, so an
// extra header named X-Honeycomb-Team cannot replace the key)
//@ fragment transmit.(*DirectTransmission).sendBatch loop 3 body props C26,C16 havoc noinv
//@   arith math
//@   assert only none
//@   requires d != nil && d.httpClient != nil
//@   let c = d.httpClient
//@   ensures[each-request-is-addressed-to-the-batch-s-destination] doN(c) == old(doN(c)) + 1 ==> reqURL(doReq(c)) == apiURL && hdr(asPtr(doReq(c), *http.Request).Header, "X-Honeycomb-Team") == apiKey && hdr(asPtr(doReq(c), *http.Request).Header, "Content-Type") == "application/msgpack"
//@   ensures[one-request-per-attempt] doN(c) <= old(doN(c)) + 1
//@   loop 1 invariant[headers-send-nothing] doN(c) == old(doN(c)) && toInt(d.httpClient) == toInt(c) && req != nil && reqURL(req) == apiURL

// the whole of sendBatch: the outcomes add up over all sub-batches
// parsing a Retry-After value and waiting it out touch nothing the transmission can see
//@ package time
//@ assume time.ParseDuration
//@ package net/http
//@ assume net/http.ParseTime
//@ package github.com/jonboulle/clockwork
//@ assume github.com/jonboulle/clockwork.Clock.Until
//@ assume github.com/jonboulle/clockwork.Clock.Sleep
//@ package transmit
//@ contract transmit.(*DirectTransmission).sendBatch props C26,C36 havoc noinv
//@   arith math
//@   assert only none
//@   requires d != nil && d.httpClient != nil
//@   let m = d.Metrics
//@   let k = d.metricKeys.updownQueuedItems
//@   let n = len(wholeBatch)
//@   let d0 = downN(d.Metrics, d.metricKeys.updownQueuedItems)
//@   ensures[every-event-gets-exactly-one-outcome] downN(m, k) == d0 + n
//@   loop 1 invariant[taken-so-far-have-their-outcome] len(wholeBatch) <= n && downN(m, k) == d0 + n - len(wholeBatch) && toInt(d.Metrics) == toInt(m) && d.metricKeys.updownQueuedItems == k && d.httpClient != nil
//@   loop 2 invariant[skipped-events-have-their-outcome] 0 <= i && i <= len(wholeBatch) && len(subBatch) <= i && len(wholeBatch) <= n && downN(m, k) == d0 + n - len(wholeBatch) + i - len(subBatch) && toInt(d.Metrics) == toInt(m) && d.metricKeys.updownQueuedItems == k && d.httpClient != nil
//@   loop 3 invariant[the-sub-batch-is-still-pending] len(wholeBatch) <= n && downN(m, k) == d0 + n - len(wholeBatch) - len(subBatch) && toInt(d.Metrics) == toInt(m) && d.metricKeys.updownQueuedItems == k && d.httpClient != nil
// an answer whose body the code has closed is one it has decided to retry: it may end up as the final answer only
// when no attempt is left (the second 429/503 in a row), never because the retry was skipped
//@   loop 3 exits[an-answer-set-aside-for-a-retry-is-retried-while-an-attempt-is-left] resp != nil && resp.Body != nil && bodyClosed(resp.Body) ==> try >= 2
//@   loop 4 invariant[headers-change-nothing] len(wholeBatch) <= n && downN(m, k) == d0 + n - len(wholeBatch) - len(subBatch) && toInt(d.Metrics) == toInt(m) && d.metricKeys.updownQueuedItems == k && d.httpClient != nil
//@   loop 5 invariant[answered-so-far-have-their-outcome] len(wholeBatch) <= n && downN(m, k) == d0 + n - len(wholeBatch) - len(subBatch) + iter && toInt(d.Metrics) == toInt(m) && d.metricKeys.updownQueuedItems == k && d.httpClient != nil
//@   loop 6 invariant[failed-so-far-have-their-outcome] len(wholeBatch) <= n && downN(m, k) == d0 + n - len(wholeBatch) - len(subBatch) + iter && toInt(d.Metrics) == toInt(m) && d.metricKeys.updownQueuedItems == k && d.httpClient != nil
//@   modifies all(downN), all(bodyClosed), all(doN)

// ---- C26: a pending batch leaves within 1.25 x BatchTimeout of its first event. Three pieces: the dispatcher scans
// the table every quarter of the timeout (the ticker it creates has exactly that period), one scan hands every batch
// that holds events and is at least BatchTimeout old to the sending pool and leaves the others alone, and the
// arithmetic that turns "scanned every T/4, sent at the first scan at which it is T old" into "sent before 1.25 T".
//@ ghost tickerPeriod(ref) int
//@ final transmit.DirectTransmission.batchTimeout
//@ contract transmit.(*DirectTransmission).dispatchStaleBatches props C26,C16 havocheap noinv
//@   arith math
//@   assert only none
//@   requires d != nil
// (a shorter period would do as well: the bound only needs scans at most a quarter of the timeout apart)
//@   loop 1 invariant[the-table-is-scanned-every-quarter-of-the-timeout] tickerPeriod(batchTicker) <= toInt(d.batchTimeout) / 4
//@   modifies all(goN)
//@ fragment transmit.(*DirectTransmission).dispatchStaleBatches loop 3 body props C26,C16 noinv
//@   arith math
//@   assert only none
//@   requires d != nil && d.dispatchPool != nil
//@   requires[batches-present] forall k transmitKey :: in(d.eventBatches, k) ==> d.eventBatches[k] != nil
//@   let p = d.dispatchPool
//@   let here = in(d.eventBatches, key)
//@   let b = d.eventBatches[key]
//@   let stale = here && len(b.events) > 0 && dispatchStart.Sub(b.startTime) >= d.batchTimeout
//@   ensures[a-batch-that-is-old-enough-is-sent] stale ==> goN(p) == old(goN(p)) + 1 && len(b.events) == 0
//@   ensures[any-other-batch-is-left-alone] !stale ==> goN(p) == old(goN(p)) && (here ==> b.events == old(b.events))
//@   modifies field(eventBatch, events), all(goN)
//@ lemma C26.scanned-every-quarter-means-sent-before-five-quarters props C26 : forall first int, t0 int, T int, k int :: T >= 4 && k >= 1 && (t0 + (k - 1) * (T / 4)) - first < T ==> (t0 + k * (T / 4)) - first < T + T / 4
