//go:build verif

package sample

// Contracts for package sample (comment-only; read by /verif/govc).

// ---- C10: deterministic sampling is a pure, nested function of the trace ID

//@ spec detHash(id string) uint32 := binary.BigEndian.Uint32(sha1.Sum([]byte(id + shardingSalt))[:4])
//@ spec keepDet(id string, n int) bool := n <= 1 || toInt(detHash(id)) <= 4294967295 / toInt(n)

//@ objinv sample.DeterministicSampler bound : this.sampleRate >= 1 && this.sampleRate <= 1<<31 ==> toInt(this.upperBound) == 4294967295 / toInt(this.sampleRate)

//@ contract sample.newSamplerMetricNames props C10
//@   modifies nothing

//@ contract sample.(*DeterministicSampler).Start props C10 unshared
//@   requires d != nil && d.Config != nil
//@   requires[range@C10] 1 <= d.Config.SampleRate && d.Config.SampleRate <= 1<<31
//@   ensures[rate] d.sampleRate == old(d.Config.SampleRate)
//@   ensures[bound] toInt(d.upperBound) == 4294967295 / toInt(old(d.Config.SampleRate))
//@   ensures[noerr] result == nil
//@   modifies d.sampleRate, d.upperBound, d.Metrics, d.metricNames

//@ contract sample.(*DeterministicSampler).GetSampleRate props C10
//@   requires d != nil && trace != nil
//@   requires d.sampleRate <= 1<<31
//@   ensures[keep] keep == keepDet(trace.TraceID, d.sampleRate)
//@   ensures[rate] toInt(rate) == ite(d.sampleRate <= 1, 1, toInt(d.sampleRate))
//@   modifies nothing

//@ lemma C10.det-nesting props C10 : forall v uint32, m int, n int :: 1 <= m && m <= n && toInt(v) <= 4294967295 / toInt(n) ==> toInt(v) <= 4294967295 / toInt(m)
//@ lemma C10.det-rate1-keeps-all props C10 : forall id string :: keepDet(id, 1) && keepDet(id, 0)
//@ lemma C10.det-nested-keep props C10 : forall id string, m int, n int :: 1 <= m && m <= n && keepDet(id, n) ==> keepDet(id, m)
