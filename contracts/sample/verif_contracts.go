//go:build verif

package sample

// Contracts for package sample (comment-only; read by /verif/govc).

// ---- C10: deterministic sampling is a pure, nested function of the trace ID

//@ spec detHash(id string) uint32 := binary.BigEndian.Uint32(sha1.Sum([]byte(id + shardingSalt))[:4])
//@ spec keepDet(id string, n int) bool := n <= 1 || toInt(detHash(id)) <= 4294967295 / toInt(n)

//@ objinv sample.DeterministicSampler bound : this.sampleRate >= 1 && this.sampleRate <= 1<<31 ==> toInt(this.upperBound) == 4294967295 / toInt(this.sampleRate)

//@ contract sample.newSamplerMetricNames props C10
//@   modifies nothing

//@ contract sample.(*DeterministicSampler).Start props C10 unshared
//@   requires d != nil && d.Config != nil
//@   requires[range@C10] 1 <= d.Config.SampleRate && d.Config.SampleRate <= 1<<31
//@   ensures[rate] d.sampleRate == old(d.Config.SampleRate)
//@   ensures[bound] toInt(d.upperBound) == 4294967295 / toInt(old(d.Config.SampleRate))
//@   ensures[noerr] result == nil
//@   modifies d.sampleRate, d.upperBound, d.Metrics, d.metricNames

//@ contract sample.(*DeterministicSampler).GetSampleRate props C10
//@   requires d != nil && trace != nil
//@   requires d.sampleRate <= 1<<31
//@   ensures[keep] keep == keepDet(trace.TraceID, d.sampleRate)
//@   ensures[rate] toInt(rate) == ite(d.sampleRate <= 1, 1, toInt(d.sampleRate))
//@   modifies nothing

//@ lemma C10.det-nesting props C10 : forall v uint32, m int, n int :: 1 <= m && m <= n && toInt(v) <= 4294967295 / toInt(n) ==> toInt(v) <= 4294967295 / toInt(m)
//@ lemma C10.det-rate1-keeps-all props C10 : forall id string :: keepDet(id, 1) && keepDet(id, 0)
//@ lemma C10.det-nested-keep props C10 : forall id string, m int, n int :: 1 <= m && m <= n && keepDet(id, n) ==> keepDet(id, m)

// ---- C13: throughput goals scale with the current cluster size.
// Ghost: the goal throughput currently in force inside a dynsampler-go sampler.
//@ ghost goalInForce(ref) int
//@ assume sample.CanSetGoalThroughputPerSec.SetGoalThroughputPerSec
//@   ghostupdate goalInForce(this) :: goalInForce(this) == p0

//@ spec clusterGoal(configured int, peers int) int := max(configured / peers, 1)
// every cluster-sized throughput sampler runs with max(1, configured / peers)
//@ spec goalsScaled(s *SamplerFactory) bool := forall k string :: in(s.sharedDynsamplers, k) && implements(s.sharedDynsamplers[k].dynsampler, CanSetGoalThroughputPerSec) && in(s.goalThroughputConfigs, k) ==> goalInForce(refOf(s.sharedDynsamplers[k].dynsampler)) == clusterGoal(s.goalThroughputConfigs[k], s.peerCount)
// distinct definitions never share a dynsampler instance
//@ spec instancesDistinct(s *SamplerFactory) bool := forall a string, b string :: in(s.sharedDynsamplers, a) && in(s.sharedDynsamplers, b) && a != b ==> refOf(s.sharedDynsamplers[a].dynsampler) != refOf(s.sharedDynsamplers[b].dynsampler)

//@ objinv sample.SamplerFactory peers : this.peerCount >= 1
//@ objinv sample.SamplerFactory distinct : instancesDistinct(this)

//@ contract sample.(*SamplerFactory).updatePeerCounts props C13
//@   requires s != nil
//@   let got = s.Peers.GetPeers()
//@   ensures[peer-count-follows-membership] s.peerCount == ite(s.Peers != nil && result1of(got) == nil && len(result0of(got)) > 0, len(result0of(got)), old(s.peerCount))
//@   ensures[goals-scaled] goalsScaled(s)
//@   ensures[registry-untouched] s.sharedDynsamplers == old(s.sharedDynsamplers) && s.goalThroughputConfigs == old(s.goalThroughputConfigs)
//@   loop 1 invariant s.sharedDynsamplers == old(s.sharedDynsamplers) && s.goalThroughputConfigs == old(s.goalThroughputConfigs) && (forall k string :: seen(k) ==> in(s.sharedDynsamplers, k)) && (forall k string :: seen(k) && implements(s.sharedDynsamplers[k].dynsampler, CanSetGoalThroughputPerSec) && in(s.goalThroughputConfigs, k) ==> goalInForce(refOf(s.sharedDynsamplers[k].dynsampler)) == clusterGoal(s.goalThroughputConfigs[k], s.peerCount))
//@   modifies s.peerCount, all(goalInForce)

//@ contract sample.(*SamplerFactory).Start props C13 unshared
//@   requires s != nil
//@   ensures[one-peer-until-told-otherwise] s.peerCount == 1
//@   ensures[goals-scaled] goalsScaled(s)
//@   modifies s.peerCount, s.sharedDynsamplers, s.goalThroughputConfigs

//@ ghost clearedN(ref) int
//@ contract sample.(*SamplerFactory).ClearDynsamplers props C12,C13 havocheap
//@   requires s != nil
//@   ghostupdate clearedN(s) :: clearedN(s) == old(clearedN(s)) + 1
//@   ensures[registry-emptied] card(s.sharedDynsamplers) == 0 && card(s.goalThroughputConfigs) == 0 && (forall k string :: !in(s.sharedDynsamplers, k) && !in(s.goalThroughputConfigs, k))
//@   ensures[goals-scaled] goalsScaled(s)

// Whatever sampler type is created, on whichever worker, creation ends by
// re-applying the cluster size (the call to updatePeerCounts).
// starting a sampler may do anything to that sampler, but it does not rewrite the factory's table of configured goals
//@ assume sample.Sampler.Start havocheap
//@   ensures[configured-goals-untouched@C13] forall f *SamplerFactory :: f != nil ==> f.goalThroughputConfigs == old(f.goalThroughputConfigs)
// lastPrefix(s): the key prefix the most recent sampler was created under (call log)
//@ ghost lastPrefix(ref) string
//@ contract sample.(*SamplerFactory).createSampler props C13 havoc
//@   requires s != nil
//@   ghostupdate[created-under@C12] lastPrefix(s) :: lastPrefix(s) == keyPrefix
//@   ensures[goals-scaled-after-creation] result != nil ==> goalsScaled(s)
// the goal remembered for rescaling is the CONFIGURED goal - never the one currently in force on the shared
// dynsampler, which may already be divided by the cluster size (a second worker creating the same sampler would
// otherwise divide it again)
//@   ensures[the-goal-remembered-is-the-configured-one-total] (result != nil && isType(c, *config.TotalThroughputSamplerConfig) && old(asPtr(c, *config.TotalThroughputSamplerConfig).UseClusterSize)) ==> s.goalThroughputConfigs[old(makeDynsamplerKey(keyPrefix, "totalthroughput", toInt(asPtr(c, *config.TotalThroughputSamplerConfig).GoalThroughputPerSec), asPtr(c, *config.TotalThroughputSamplerConfig).FieldList))] == old(asPtr(c, *config.TotalThroughputSamplerConfig).GoalThroughputPerSec)
//@   ensures[the-goal-remembered-is-the-configured-one-ema] (result != nil && isType(c, *config.EMAThroughputSamplerConfig) && old(asPtr(c, *config.EMAThroughputSamplerConfig).UseClusterSize)) ==> s.goalThroughputConfigs[old(makeDynsamplerKey(keyPrefix, "emathroughput", toInt(asPtr(c, *config.EMAThroughputSamplerConfig).GoalThroughputPerSec), asPtr(c, *config.EMAThroughputSamplerConfig).FieldList))] == old(asPtr(c, *config.EMAThroughputSamplerConfig).GoalThroughputPerSec)
//@   ensures[the-goal-remembered-is-the-configured-one-windowed] (result != nil && isType(c, *config.WindowedThroughputSamplerConfig) && old(asPtr(c, *config.WindowedThroughputSamplerConfig).UseClusterSize)) ==> s.goalThroughputConfigs[old(makeDynsamplerKey(keyPrefix, "windowedthroughput", toInt(asPtr(c, *config.WindowedThroughputSamplerConfig).GoalThroughputPerSec), asPtr(c, *config.WindowedThroughputSamplerConfig).FieldList))] == old(asPtr(c, *config.WindowedThroughputSamplerConfig).GoalThroughputPerSec)

// C12 (isolation between destinations): the sampler for a destination is created under that destination's own key -
// the key is the prefix of every shared dynsampler's registry key, so two environments that merely fall back to the
// same (default) definition still get separate state.
//@ assume config.Config.GetSamplerConfigForDestName
//@ contract sample.(*SamplerFactory).GetSamplerImplementationForKey#isolation props C12 havoc
//@   assert only none
//@   requires s != nil && s.Config != nil
//@   ensures[created-under-the-destination-s-own-key] lastPrefix(s) == samplerKey

// ---- C12: sampler state is shared across workers and isolated between definitions.
// Ghost: the registry key under which the most recent lookup was made.
//@ ghost registryKey(ref) string

//@ contract sample.makeDynsamplerKey props C12 function
//@   modifies nothing

//@ contract sample.getMetricType inline
//@ contract sample.(*dynsamplerMetricsRecorder).RegisterMetrics props C12
//@   requires d != nil
//@   modifies d.dynPrefix, d.lastMetrics, d.metricNames

// Sharing: every worker asking for the same key gets the instance created first;
// a new key gets a new instance, stored under that key, and no other entry changes.
// The registry is shared by all workers and guarded by the factory mutex: lookup and insertion must be one
// critical section (if the lock is given up in between, another worker may insert first: the executor then
// treats the guarded fields as arbitrary when the lock is taken again, and the postconditions fail).
//@ guarded_by sample.SamplerFactory.mutex: sharedDynsamplers
//@ contract sample.getSharedDynsamplerAndRecorder props C12,C13,C35 localcalls
//@   assert locks
//@   requires s != nil
//@   requires[lock-free-at-entry@C12,C35] s.mutex == 0
//@   ensures[lock-released@C12,C35] s.mutex == 0
//@   ghostupdate registryKey(s) :: registryKey(s) == dynsamplerKey
//@   ensures[same-key-same-instance] in(old(s.sharedDynsamplers), dynsamplerKey) && implements(old(s.sharedDynsamplers)[dynsamplerKey].dynsampler, ST) ==> s.sharedDynsamplers == old(s.sharedDynsamplers) && result1 == old(s.sharedDynsamplers)[dynsamplerKey].recorder
//@   ensures[new-key-new-entry] !in(old(s.sharedDynsamplers), dynsamplerKey) ==> in(s.sharedDynsamplers, dynsamplerKey) && s.sharedDynsamplers[dynsamplerKey].recorder == result1 && isFresh(result1)
//@   ensures[other-entries-untouched] forall k string :: k != dynsamplerKey ==> in(s.sharedDynsamplers, k) == in(old(s.sharedDynsamplers), k) && s.sharedDynsamplers[k] == old(s.sharedDynsamplers)[k]
//@   modifies s.sharedDynsamplers, s.mutex

// The isolation clause "share state only if their entire configurations are identical":
// the registry key of a DynamicSampler definition is computed from the prefix, the
// rate and the field list only, so definitions that differ in ClearFrequency, MaxKeys
// or UseTraceLength collide (open finding F-C12-1, witness in /verif/findings).
//@ spec dynamicKey(prefix string, rate int64, clearFrequency int64, maxKeys int, useTraceLength bool) string := makeDynsamplerKey(prefix, "dynamic", rate, nil)
//@ lemma C12.key-reflects-environment props C12 : forall p string, r int64, cf int64, mk int, tl bool :: dynamicKey(p, r, cf, mk, tl) == makeDynsamplerKey(p, "dynamic", r, nil)
//@ lemma C12.key-distinguishes-tuning props C12 finding F-C12-1 : forall p string, r int64, cf1 int64, cf2 int64, mk int, tl bool :: cf1 != cf2 ==> dynamicKey(p, r, cf1, mk, tl) != dynamicKey(p, r, cf2, mk, tl)

// ---- C28: sampler start-up with any rate that passes validation (SampleRate >= 1, no upper bound)
//@ contract sample.(*DeterministicSampler).Start#safety props C28 unshared
//@   requires d != nil && d.Config != nil
//@   requires[validated] d.Config.SampleRate >= 1
//@   modifies d.sampleRate, d.upperBound, d.Metrics, d.metricNames

// ---- C28/C04: the dynsampler-backed samplers never panic and never report a rate below 1
//@ contract sample.(*DynamicSampler).GetSampleRate props C28,C04,C11 havoc
//@   requires d != nil && trace != nil
//@   ensures[rate-at-least-one] rate >= 1
//@ contract sample.(*EMADynamicSampler).GetSampleRate props C28,C04,C11 havoc
//@   requires d != nil && trace != nil
//@   ensures[rate-at-least-one] rate >= 1
//@ contract sample.(*TotalThroughputSampler).GetSampleRate props C28,C04,C11 havoc
//@   requires d != nil && trace != nil
//@   ensures[rate-at-least-one] rate >= 1
//@ contract sample.(*EMAThroughputSampler).GetSampleRate props C28,C04,C11 havoc
//@   requires d != nil && trace != nil
//@   ensures[rate-at-least-one] rate >= 1
//@ contract sample.(*WindowedThroughputSampler).GetSampleRate props C28,C04,C11 havoc
//@   requires d != nil && trace != nil
//@   ensures[rate-at-least-one] rate >= 1

// ---- C35: the factory is used by every collector worker and by the peer-change callback
//@ guarded_by sample.SamplerFactory.mutex: goalThroughputConfigs, peerCount
//@ lockdiscipline sample.SamplerFactory mutex props C35 skip: Start
// C13: a sampler the factory has handed out is the one it keeps adjusting when the cluster changes size - an
// entry of the shared table is never replaced by a second instance made for the same key (a presence test made
// in an earlier critical section is worthless: another worker may have inserted in between).
//@ insertonly sample.SamplerFactory.sharedDynsamplers
//@ guarded_by sample.dynsamplerMetricsRecorder.mu: lastMetrics
//@ lockdiscipline sample.dynsamplerMetricsRecorder mu props C35 skip: RegisterMetrics

// ---- C11: dynamic sample keys depend only on the trace's distinct field values.
// The per-field table maps hash(string form of a value) -> that string. Collected values are a SET per field
// (insertion order and duplicates do not matter), Values() lists a field's set in sorted order, and the key is
// emitted from those sorted lists - so the key is a function of the sets.
//@ spec strHash(s string) uint64 := wyhash.Hash([]byte(s), 0)
// every stored string hashes to its slot (so the strings of one field are pairwise different)
//@ spec slotsConsistent(m map[uint64]string) bool := forall h uint64 :: in(m, h) ==> strHash(at(m, h)) == h
//@ assume types.(*Payload).Exists getter
//@ assume types.(*Payload).Get getter

// C09: the text a value contributes to the key depends on the number, not on the Go type the wire encoding
// produced for it (JSON: float64; msgpack: int64 / uint64 / float32 / float64): every number reads as the plain
// decimal text of its value.
// a whole number reads as its decimal integer whatever its size; any other number in plain decimal notation
//@ spec numText(x float64) string := ite(x == math.Trunc(x) && math.Abs(x) < 18446744073709551616.0, strconv.FormatFloat(x, 'f', 0, 64), strconv.FormatFloat(x, 'f', -1, 64))
//@ contract sample.appendFloat inline
//@ spec keyText(v any) string := ite(isString(v), anyString(v), numText(numOf(v)))
// offeredN(d): how many values have been offered to the collector of distinct values (call log)
//@ ghost offeredN(ref) int
//@ contract sample.(*distinctValue).AddAsString props C11,C09
//@   arith math
//@   ghostupdate[offered@C11] offeredN(d) :: offeredN(d) == old(offeredN(d)) + 1
//@   requires d != nil && 0 <= fieldIdx && fieldIdx < len(d.values)
//@   requires[slots-consistent] forall i int :: 0 <= i && i < len(d.values) ==> slotsConsistent(d.values[i])
// strings and numbers have a modelled text form; booleans, nil and nested values are formatted by fmt and not
// compared across encodings here
//@   domain[string-or-number] isString(value) || isNumeric(value)
// the formatting differs per dynamic type; the solvers do not find this case analysis by themselves in time
//@   split isString(value)
//@   split isInt64(value)
//@   split isInt(value)
//@   split isUint64(value)
//@   split isFloat64(value)
//@   split isFloat32(value)
//@   let s = keyText(value)
//@   let h = strHash(s)
//@   let isNew = !in(d.values[fieldIdx], h)
//@   ensures[a-known-value-changes-nothing] !isNew ==> !result && d.values == old(d.values) && d.totalUniqueCount == old(d.totalUniqueCount)
//@   ensures[a-new-value-is-counted] isNew ==> d.totalUniqueCount == old(d.totalUniqueCount) + 1
//@   ensures[a-new-value-below-the-cap-joins-its-field-set] isNew && old(d.totalUniqueCount) + 1 < d.maxDistinctValue ==> result && d.values[fieldIdx] == mapset(old(d.values[fieldIdx]), h, s)
//@   ensures[at-the-cap-nothing-is-stored] isNew && old(d.totalUniqueCount) + 1 >= d.maxDistinctValue ==> !result && d.values == old(d.values)
//@   ensures[other-fields-untouched] len(d.values) == old(len(d.values)) && (forall i int :: 0 <= i && i < len(d.values) && i != fieldIdx ==> d.values[i] == old(d.values)[i])
//@   ensures[slots-consistent] forall i int :: 0 <= i && i < len(d.values) ==> slotsConsistent(d.values[i])
//@   modifies d.buf, d.values, d.totalUniqueCount

//@ contract sample.(*distinctValue).Values props C11
//@   arith math
//@   requires d != nil
//@   requires[slots-consistent] forall i int :: 0 <= i && i < len(d.values) ==> slotsConsistent(d.values[i])
//@   let m = d.values[fieldIdx]
//@   ensures[out-of-range-or-empty] (fieldIdx < 0 || fieldIdx >= len(d.values) || card(m) == 0) ==> len(result) == 0
//@   ensures[as-many-as-the-set] 0 <= fieldIdx && fieldIdx < len(d.values) && card(m) > 0 ==> len(result) == card(m)
//@   ensures[members-of-the-set] 0 <= fieldIdx && fieldIdx < len(d.values) ==> (forall j int :: 0 <= j && j < len(result) ==> in(m, strHash(result[j])))
//@   ensures[sorted] forall a int, b int :: 0 <= a && a < b && b < len(result) ==> result[a] <= result[b]
//@   ensures[table-untouched] d.values == old(d.values) && d.totalUniqueCount == old(d.totalUniqueCount)
//@   loop 1 invariant[untouched] d.values == old(d.values) && d.totalUniqueCount == old(d.totalUniqueCount) && slotsConsistent(valueMap)
//@   loop 1 invariant[one-per-iteration] len(d.valuesBuffer) == iter
//@   loop 1 invariant[visited-are-keys] forall h uint64 :: seen(h) ==> in(valueMap, h)
//@   loop 1 invariant[collected-were-visited] forall j int :: 0 <= j && j < len(d.valuesBuffer) ==> seen(strHash(d.valuesBuffer[j]))
//@   modifies d.valuesBuffer

//@ contract sample.(*distinctValue).Reset props C11
//@   arith math
//@   requires d != nil
//@   ensures[one-empty-set-per-field] len(d.values) == len(fields) && (forall i int :: 0 <= i && i < len(d.values) ==> card(d.values[i]) == 0 && (forall h uint64 :: !in(d.values[i], h)))
//@   ensures[counters-reset] d.totalUniqueCount == 0 && d.maxDistinctValue == maxDistinctValue && len(d.buf) == 0 && len(d.valuesBuffer) == 0
//@   loop 1 invariant len(d.values) <= len(fields) || len(d.values) == old(len(d.values))
//@   loop 2 invariant len(d.values) == len(fields) && (forall i int :: 0 <= i && i < iter ==> card(d.values[i]) == 0 && (forall h uint64 :: !in(d.values[i], h)))
//@   modifies d.maxDistinctValue, d.values, d.totalUniqueCount, d.buf, d.valuesBuffer

// One field's share of the key: every distinct value of the field is written once (followed by the value
// delimiter) and counted once. Values() hands the field's set over as a strictly increasing list.
//@ fragment sample.(*traceKey).build loop 3 body props C11 havocheap
//@   arith math
//@   requires d != nil && d.distinctValue != nil && d.keyBuilder != nil
//@   requires[slots-consistent] forall q int :: 0 <= q && q < len(d.distinctValue.values) ==> slotsConsistent(d.distinctValue.values[q])
//@   ensures[each-distinct-value-is-counted] (forall a int, b int :: 0 <= a && a < b && b < len(values) ==> values[a] < values[b]) ==> fieldCount == old(fieldCount) + len(values)
//@   loop 1 invariant[counted-so-far] (forall a int, b int :: 0 <= a && a < b && b < len(values) ==> values[a] < values[b]) ==> fieldCount == old(fieldCount) + iter && (iter > 0 ==> prevStr == values[iter - 1])

// One span's share of one key field: the field's value on that span is offered to the collector of distinct values
// exactly when the field is PRESENT on the span - whatever the value, an explicit null included - and the cap on
// distinct values has not been reached; a span without the field contributes nothing.
//@ fragment sample.(*traceKey).build loop 2 body props C11 havocheap
//@   arith math
//@   assert only none
//@   requires d != nil && d.distinctValue != nil && span != nil && 0 <= i && i < len(d.distinctValue.values)
//@   requires[slots-consistent] forall q int :: 0 <= q && q < len(d.distinctValue.values) ==> slotsConsistent(d.distinctValue.values[q])
//@   let dv = d.distinctValue
//@   let present = span.Data.Exists(field)
//@   let room = d.distinctValue.totalUniqueCount < maxKeyLength
//@   ensures[a-present-field-is-offered-once] present && room ==> offeredN(dv) == old(offeredN(dv)) + 1
//@   ensures[an-absent-field-offers-nothing] !present ==> offeredN(dv) == old(offeredN(dv))
//@   modifies all(offeredN)

// ---- C08: the rules sampler applies the FIRST rule, in configuration order, that matches the trace.
// Whether one rule matches is decided by ruleMatchesTrace / ruleMatchesSpanInTrace (by scope); here they are
// deterministic readings of (trace, rule, nested-fields flag) - their own semantics are not under contract.
//@ assume config.(*RulesBasedSamplerRule).String getter
//@ spec ruleApplies(t *types.Trace, r *config.RulesBasedSamplerRule, nested bool) bool := ite(r.Scope == "span", ruleMatchesSpanInTrace(t, r, nested), ite(r.Scope == "trace" || r.Scope == "", ruleMatchesTrace(t, r, nested), true))
//@ contract sample.(*RulesBasedSampler).GetSampleRate props C08,C28 havocheap
//@   arith math
//@   requires s != nil && s.Config != nil && trace != nil
//@   requires[rules-present] forall j int :: 0 <= j && j < len(s.Config.Rules) ==> s.Config.Rules[j] != nil
//@   requires[spans-and-conditions-present] (forall k int :: 0 <= k && k < len(trace.GetSpans()) ==> trace.GetSpans()[k] != nil) && (forall j int, i int :: 0 <= j && j < len(s.Config.Rules) && 0 <= i && i < len(s.Config.Rules[j].Conditions) ==> s.Config.Rules[j].Conditions[i] != nil)
//@   let rules = s.Config.Rules
//@   let nested = s.Config.CheckNestedFields
//@   ensures[no-rule-matches-keeps-at-rate-one] (forall j int :: 0 <= j && j < len(rules) ==> !ruleApplies(trace, rules[j], nested)) ==> rate == 1 && keep && reason == "no rule matched" && key == ""
//@   ensures[first-matching-drop-rule-drops] forall j int :: 0 <= j && j < len(rules) && ruleApplies(trace, rules[j], nested) && (forall k int :: 0 <= k && k < j ==> !ruleApplies(trace, rules[k], nested)) && rules[j].Sampler == nil && rules[j].Drop ==> !keep
//@   ensures[first-matching-rate-rule-gives-its-rate] forall j int :: 0 <= j && j < len(rules) && ruleApplies(trace, rules[j], nested) && (forall k int :: 0 <= k && k < j ==> !ruleApplies(trace, rules[k], nested)) && rules[j].Sampler == nil && rules[j].SampleRate >= 1 ==> toInt(rate) == rules[j].SampleRate
//@   ensures[rate-one-without-drop-always-keeps] forall j int :: 0 <= j && j < len(rules) && ruleApplies(trace, rules[j], nested) && (forall k int :: 0 <= k && k < j ==> !ruleApplies(trace, rules[k], nested)) && rules[j].Sampler == nil && rules[j].SampleRate == 1 && !rules[j].Drop ==> keep
//@   ensures[a-non-positive-rate-never-keeps] forall j int :: 0 <= j && j < len(rules) && ruleApplies(trace, rules[j], nested) && (forall k int :: 0 <= k && k < j ==> !ruleApplies(trace, rules[k], nested)) && rules[j].Sampler == nil && rules[j].SampleRate <= 0 ==> !keep
//@   ensures[first-matching-rule-with-a-missing-downstream-sampler-keeps] forall j int :: 0 <= j && j < len(rules) && ruleApplies(trace, rules[j], nested) && (forall k int :: 0 <= k && k < j ==> !ruleApplies(trace, rules[k], nested)) && rules[j].Sampler != nil && !in(s.samplers, rules[j].String()) ==> rate == 1 && keep
//@   ensures[downstream-sampler-decides] forall j int :: 0 <= j && j < len(rules) && ruleApplies(trace, rules[j], nested) && (forall k int :: 0 <= k && k < j ==> !ruleApplies(trace, rules[k], nested)) && rules[j].Sampler != nil && in(s.samplers, rules[j].String()) ==> (forall q int :: q == toInt(refOf(s.samplers[rules[j].String()])) ==> askedN(q) == old(askedN(q)) + 1)
//@   loop 1 invariant[earlier-rules-did-not-match] s != nil && s.Config != nil && s.Config.Rules == rules && s.Config.CheckNestedFields == nested && (forall k int :: 0 <= k && k < iter ==> !ruleApplies(trace, rules[k], nested)) && (forall q int :: askedN(q) == old(askedN(q)))
//@   modifies all(askedN)

// ---- C08 / C09: what a condition reads from a span. A condition names one or more fields; the value is that of
// the FIRST field, in the order written, that is present - on the root span for a field written root.X (skipped
// when the trace has no root span yet), on the span itself otherwise. checkedOnlyRoot says that nothing but the
// root span was consulted up to and including that field, i.e. that every other span of the trace reads the same:
// that is what lets the callers stop looking at further spans, so it may be set only then (a function that never
// sets it is slower, not wrong).
//@ contract config.(*RulesBasedSamplerCondition).GetComputedField inline
//@ spec isRootField(f string) bool := strings.HasPrefix(f, "root.")
//@ spec fieldHit(t *types.Trace, s *types.Span, f string) bool := ite(isRootField(f), t.RootSpan != nil && t.RootSpan.Data.Exists(f[5:]), s.Data.Exists(f))
//@ spec fieldVal(t *types.Trace, s *types.Span, f string) any := ite(isRootField(f), t.RootSpan.Data.Get(f[5:]), s.Data.Get(f))
// gjson / encoding/json only read their arguments
//@ assume github.com/tidwall/gjson.Get
//@ assume github.com/tidwall/gjson.Result.Exists
//@ assume github.com/tidwall/gjson.Result.String
//@ contract sample.extractValueFromSpan props C08,C09 function opaque
//@   arith math
//@   requires trace != nil && span != nil && condition != nil
// looking inside JSON-encoded nested fields (gjson) is not modelled
//@   domain[nested-lookup-off] !checkNestedFields
//@   let fs = condition.Fields
//@   let descendants = condition.Field == "?.NUM_DESCENDANTS"
// result0 = value, result1 = exists, result2 = checkedOnlyRoot
//@   ensures[descendant-count-is-read-from-the-trace] descendants ==> result1 && result2 && isInt64(result0) && anyInt(result0) == toInt(trace.DescendantCount())
//@   ensures[no-field-present-means-absent] !descendants && (forall j int :: 0 <= j && j < len(fs) ==> !fieldHit(trace, span, fs[j])) ==> !result1 && result0 == nil && (result2 ==> (forall i int :: 0 <= i && i < len(fs) ==> isRootField(fs[i])))
//@   ensures[the-first-field-present-gives-the-value] !descendants ==> (forall j int :: 0 <= j && j < len(fs) && fieldHit(trace, span, fs[j]) && (forall i int :: 0 <= i && i < j ==> !fieldHit(trace, span, fs[i])) ==> result1 && result0 == fieldVal(trace, span, fs[j]) && (result2 ==> (forall i int :: 0 <= i && i <= j ==> isRootField(fs[i]))))
//@   ensures[a-value-comes-from-the-first-field-present] !descendants && result1 ==> (exists j int :: 0 <= j && j < len(fs) && fieldHit(trace, span, fs[j]) && (forall i int :: 0 <= i && i < j ==> !fieldHit(trace, span, fs[i])) && result0 == fieldVal(trace, span, fs[j]) && (result2 ==> (forall i int :: 0 <= i && i <= j ==> isRootField(fs[i]))))
//@   ensures[absent-means-no-field-is-present] !descendants && !result1 ==> (forall j int :: 0 <= j && j < len(fs) ==> !fieldHit(trace, span, fs[j])) && result0 == nil && (result2 ==> (forall i int :: 0 <= i && i < len(fs) ==> isRootField(fs[i])))
//@   loop 1 invariant[earlier-fields-are-absent] (forall i int :: 0 <= i && i < iter ==> !fieldHit(trace, original, fs[i])) && (checkedOnlyRoot ==> (forall i int :: 0 <= i && i < iter ==> isRootField(fs[i]))) && toInt(original) == toInt(old(span)) && condition.Fields == fs
//@   modifies nothing

// what makes the early exit of the callers sound: when only the root span was consulted, every span reads the same
//@ lemma C08.root-only-reads-the-same props C08,C09 : forall t *types.Trace, s1 *types.Span, s2 *types.Span, c *config.RulesBasedSamplerCondition :: t != nil && s1 != nil && s2 != nil && c != nil && nth(2, extractValueFromSpan(t, s1, c, false)) ==> nth(0, extractValueFromSpan(t, s2, c, false)) == nth(0, extractValueFromSpan(t, s1, c, false)) && nth(1, extractValueFromSpan(t, s2, c, false)) == nth(1, extractValueFromSpan(t, s1, c, false))

// the untyped operators (no Datatype): the comparison is compare()'s, read per operator
//@ contract sample.conditionMatchesValue props C08,C09 function opaque
//@   arith math
//@   requires condition != nil
//@   let op = condition.Operator
//@   ensures[an-absent-field-matches-only-not-exists] !exists ==> result == (op == "not-exists")
//@   ensures[exists-matches-a-present-field] (exists && op == "exists") ==> result
//@   ensures[not-exists-does-not-match-a-present-field] (exists && op == "not-exists") ==> !result
// two numbers (of any wire type), two strings or two booleans are ordered; the six comparison operators read that order
//@   domain[exactly-representable-integers] (isInt64(value) || isInt(value) || isUint64(value) ==> -9007199254740992 <= anyInt(value) && anyInt(value) <= 9007199254740992) && (isInt64(condition.Value) || isInt(condition.Value) || isUint64(condition.Value) ==> -9007199254740992 <= anyInt(condition.Value) && anyInt(condition.Value) <= 9007199254740992)
//@   let cv = condition.Value
//@   let ordered = (isNumeric(value) && isNumeric(cv)) || (isString(value) && isString(cv)) || (isBool(value) && isBool(cv))
//@   let ord = ite(isNumeric(value) && isNumeric(cv), ite(numOf(value) < numOf(cv), -1, ite(numOf(value) > numOf(cv), 1, 0)), ite(isString(value) && isString(cv), ite(anyString(value) < anyString(cv), -1, ite(anyString(value) == anyString(cv), 0, 1)), ite(anyBool(value) == anyBool(cv), 0, ite(anyBool(cv), -1, 1))))
//@   ensures[equal] (exists && ordered && op == config.EQ) ==> result == (ord == 0)
//@   ensures[not-equal] (exists && ordered && op == config.NEQ) ==> result == (ord != 0)
//@   ensures[greater] (exists && ordered && op == config.GT) ==> result == (ord == 1)
//@   ensures[greater-or-equal] (exists && ordered && op == config.GTE) ==> result == (ord >= 0)
//@   ensures[less] (exists && ordered && op == config.LT) ==> result == (ord == -1)
//@   ensures[less-or-equal] (exists && ordered && op == config.LTE) ==> result == (ord <= 0)
//@   ensures[a-number-and-a-string-never-match] (exists && ((isNumeric(value) && isString(cv)) || (isString(value) && isNumeric(cv))) && (op == config.EQ || op == config.NEQ || op == config.GT || op == config.GTE || op == config.LT || op == config.LTE)) ==> !result
//@   ensures[any-other-operator-matches-nothing] (op != config.EQ && op != config.NEQ && op != config.GT && op != config.GTE && op != config.LT && op != config.LTE && op != config.Exists && op != config.NotExists) ==> !result
//@   modifies nothing

// ---- C08 / C09: whether a rule matches a trace. A condition holds on a span when the value the condition reads
// there (extractValueFromSpan) satisfies its operator - the typed comparison function built at start-up when the
// condition has a Datatype or a text operator (condition.Matches), the untyped comparison otherwise.
//   scope span : the rule matches when ONE span satisfies EVERY condition;
//   scope trace: the rule matches when EVERY condition is satisfied by SOME span (has-root-span is about the trace).
// Both are statements about the SET of spans: the order in which the spans arrived cannot matter.
//@ purefn config.RulesBasedSamplerCondition.Matches
//@ spec condOn(t *types.Trace, s *types.Span, c *config.RulesBasedSamplerCondition, nested bool) bool := ite(c.Matches == nil, conditionMatchesValue(c, nth(0, extractValueFromSpan(t, s, c, nested)), nth(1, extractValueFromSpan(t, s, c, nested))), c.Matches(nth(0, extractValueFromSpan(t, s, c, nested)), nth(1, extractValueFromSpan(t, s, c, nested))))
//@ contract sample.ruleMatchesSpanInTrace props C08,C09 function opaque
//@   arith math
//@   assert uses C08.root-only-reads-the-same
//@   requires trace != nil && rule != nil
//@   requires[spans-and-conditions-present] (forall k int :: 0 <= k && k < len(trace.GetSpans()) ==> trace.GetSpans()[k] != nil) && (forall j int :: 0 <= j && j < len(rule.Conditions) ==> rule.Conditions[j] != nil)
//@   domain[nested-lookup-off] !checkNestedFields
//@   let spans = trace.GetSpans()
//@   let conds = rule.Conditions
//@   ensures[a-rule-without-conditions-matches] conds == nil ==> result
//@   ensures[a-match-means-one-span-satisfies-every-condition] conds != nil && result ==> (exists k int :: 0 <= k && k < len(spans) && (forall j int :: 0 <= j && j < len(conds) ==> condOn(trace, spans[k], conds[j], false)))
//@   ensures[no-match-means-every-span-fails-some-condition] conds != nil && !result ==> (forall k int :: 0 <= k && k < len(spans) ==> (exists j int :: 0 <= j && j < len(conds) && !condOn(trace, spans[k], conds[j], false)))
//@   loop 1 invariant[no-earlier-span-satisfies-every-condition] rule.Conditions == conds && (forall k int :: 0 <= k && k < iter ==> (exists j int :: 0 <= j && j < len(conds) && !condOn(trace, spans[k], conds[j], false)))
//@   loop 2 invariant[conditions-so-far-hold-on-this-span] rule.Conditions == conds && span != nil && ruleMatched && (forall j int :: 0 <= j && j < iter ==> condOn(trace, span, conds[j], false))
//@   modifies nothing

//@ assume config.TryConvertToBool function
//@ spec condOnTrace(t *types.Trace, c *config.RulesBasedSamplerCondition) bool := ite(c.Operator == config.HasRootSpan, (t.RootSpan != nil) == config.TryConvertToBool(c.Value), exists k int :: 0 <= k && k < len(t.GetSpans()) && condOn(t, t.GetSpans()[k], c, false))
//@ contract sample.ruleMatchesTrace props C08,C09 function opaque
//@   arith math
//@   assert uses C08.root-only-reads-the-same
//@   requires t != nil && rule != nil
//@   requires[spans-and-conditions-present] (forall k int :: 0 <= k && k < len(t.GetSpans()) ==> t.GetSpans()[k] != nil) && (forall j int :: 0 <= j && j < len(rule.Conditions) ==> rule.Conditions[j] != nil)
//@   domain[nested-lookup-off] !checkNestedFields
//@   let spans = t.GetSpans()
//@   let conds = rule.Conditions
//@   ensures[a-rule-without-conditions-matches] conds == nil ==> result
//@   ensures[a-match-means-every-condition-is-satisfied-by-some-span] conds != nil && result ==> (forall j int :: 0 <= j && j < len(conds) ==> condOnTrace(t, conds[j]))
//@   ensures[no-match-means-some-condition-is-satisfied-by-no-span] conds != nil && !result ==> (exists j int :: 0 <= j && j < len(conds) && !condOnTrace(t, conds[j]))
//@   loop 1 invariant[counted-exactly-the-conditions-satisfied] rule.Conditions == conds && 0 <= matched && matched <= iter && (matched == iter ==> (forall j int :: 0 <= j && j < iter ==> condOnTrace(t, conds[j]))) && (matched < iter ==> (exists j int :: 0 <= j && j < iter && !condOnTrace(t, conds[j])))
//@   loop 2 invariant[no-earlier-span-satisfies-the-condition] rule.Conditions == conds && condition != nil && toInt(condition) == toInt(conds[iter1]) && condition.Operator != config.HasRootSpan && 0 <= matched && matched <= iter1 && (matched == iter1 ==> (forall j int :: 0 <= j && j < iter1 ==> condOnTrace(t, conds[j]))) && (matched < iter1 ==> (exists j int :: 0 <= j && j < iter1 && !condOnTrace(t, conds[j]))) && (forall k int :: 0 <= k && k < iter ==> !condOn(t, spans[k], condition, false))
//@   modifies nothing

// ---- C09: a comparison in a rule depends on the NUMBER a span carries, not on the Go type the wire encoding
// produced for it (JSON gives float64, msgpack gives int64 / uint64 / float32 / float64, YAML rule values are
// int or float64). compare() must order any two numeric values by their numeric value.
//@ spec isNumeric(v any) bool := isInt64(v) || isInt(v) || isUint64(v) || isFloat64(v) || isFloat32(v)
//@ spec numOf(v any) float64 := ite(isFloat64(v) || isFloat32(v), anyFloat(v), toReal(anyInt(v)))
//@ contract sample.normalizeNumber props C09,C08
//@   arith math
//@   ensures[integers-that-fit-become-int64] isInt64(v) || isInt(v) || (isUint64(v) && anyInt(v) <= 9223372036854775807) ==> isInt64(result) && anyInt(result) == anyInt(v)
//@   ensures[huge-unsigned-become-float64] isUint64(v) && anyInt(v) > 9223372036854775807 ==> isFloat64(result)
//@   ensures[floats-become-float64] isFloat64(v) || isFloat32(v) ==> isFloat64(result) && anyFloat(result) == anyFloat(v)
//@   ensures[everything-else-is-untouched] isString(v) || isBool(v) || v == nil ==> result == v
//@   ensures[a-non-number-stays-a-non-number] isString(v) ==> isString(result)
//@   modifies nothing
//@ contract sample.compare props C09,C08
//@   arith math
// integers up to 2^53 in magnitude are exactly representable in float64 (beyond that the int/float comparison rounds)
//@   domain[exactly-representable-integers] (isInt64(a) || isInt(a) || isUint64(a) ==> -9007199254740992 <= anyInt(a) && anyInt(a) <= 9007199254740992) && (isInt64(b) || isInt(b) || isUint64(b) ==> -9007199254740992 <= anyInt(b) && anyInt(b) <= 9007199254740992)
//@   ensures[numbers-compare-by-value-whatever-their-type] isNumeric(a) && isNumeric(b) ==> result1 && result0 == ite(numOf(a) < numOf(b), -1, ite(numOf(a) > numOf(b), 1, 0))
//@   ensures[strings-compare-as-strings] isString(a) && isString(b) ==> result1 && result0 == ite(anyString(a) < anyString(b), -1, ite(anyString(a) == anyString(b), 0, 1))
//@   ensures[booleans-false-before-true] isBool(a) && isBool(b) ==> result1 && result0 == ite(anyBool(a) == anyBool(b), 0, ite(anyBool(b), -1, 1))
//@   ensures[a-number-and-a-string-do-not-compare] (isNumeric(a) && isString(b)) || (isString(a) && isNumeric(b)) ==> !result1
//@   modifies nothing
