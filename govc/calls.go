package main

// Calls: spec special forms, conversions, builtins, modelled library functions,
// dropped (effect-free) calls, contracts, inlining, unknown calls.

import (
	"strconv"
	"fmt"
	"go/ast"
	"go/constant"
	"go/token"
	"go/types"
	"regexp"
	"strings"
)

type constantValue = constant.Value

func constantFromString(s string) constant.Value {
	return constant.MakeFromLiteral(s, token.INT, 0)
}

func funcRef(f *types.Func) string {
	f = f.Origin()
	sig := f.Type().(*types.Signature)
	pkg := ""
	if f.Pkg() != nil {
		pkg = shortPkg(f.Pkg().Path())
	}
	if recv := sig.Recv(); recv != nil {
		t := types.Unalias(recv.Type())
		ptr := false
		if p, ok := t.(*types.Pointer); ok {
			t = types.Unalias(p.Elem())
			ptr = true
		}
		name := "?"
		if n, ok := t.(*types.Named); ok {
			name = n.Obj().Name()
			if n.Obj().Pkg() != nil {
				pkg = shortPkg(n.Obj().Pkg().Path())
			}
		}
		if ptr {
			return pkg + ".(*" + name + ")." + f.Name()
		}
		return pkg + "." + name + "." + f.Name()
	}
	return pkg + "." + f.Name()
}

// calleeOf resolves the called function object and receiver.
func (ex *Exec) calleeOf(st *State, call *ast.CallExpr, sc *SpecCtx) (fn *types.Func, recv *Val, fv *Val) {
	fun := ast.Unparen(call.Fun)
	if ix, ok := fun.(*ast.IndexExpr); ok {
		fun = ix.X // explicit instantiation
	}
	if ix, ok := fun.(*ast.IndexListExpr); ok {
		fun = ix.X
	}
	switch f := fun.(type) {
	case *ast.Ident:
		var obj types.Object
		if sc != nil {
			if v, ok := sc.binds[f.Name]; ok {
				return nil, nil, v
			}
			obj = ex.lookupSpecName(f.Name, sc)
		} else {
			obj = ex.info.ObjectOf(f)
		}
		if fo, ok := obj.(*types.Func); ok {
			return fo, nil, nil
		}
		if obj != nil {
			v := ex.eval(st, f, sc)
			return nil, nil, v
		}
	case *ast.SelectorExpr:
		// package-qualified function
		if id, ok := f.X.(*ast.Ident); ok {
			var pkg *types.Package
			if sc == nil {
				if pn, isPkg := ex.info.ObjectOf(id).(*types.PkgName); isPkg {
					pkg = pn.Imported()
				}
			} else if _, bound := sc.binds[id.Name]; !bound {
				if o := ex.lookupSpecName(id.Name, sc); o == nil || isPkgName(o) {
					pkg = ex.lookupImport(id.Name, sc)
				}
			}
			if pkg != nil {
				if fo, ok := pkg.Scope().Lookup(f.Sel.Name).(*types.Func); ok {
					return fo, nil, nil
				}
				v := ex.eval(st, f, sc)
				return nil, nil, v
			}
		}
		_, cur := ex.selectorPlace(st, f, sc)
		var obj types.Object
		if sc == nil {
			if s, ok := ex.info.Selections[f]; ok {
				obj = s.Obj()
			}
		} else if cur != nil {
			bc := ex.baseCursor(st, f.X, sc)
			_, obj, _ = ex.fieldPath(f, bc.t, sc)
		}
		if fo, ok := obj.(*types.Func); ok && cur != nil {
			return fo, ex.cursorRecv(st, *cur, fo), nil
		}
		v := ex.eval(st, f, sc)
		return nil, nil, v
	}
	v := ex.eval(st, fun, sc)
	return nil, nil, v
}

func (ex *Exec) evalArgs(st *State, call *ast.CallExpr, sc *SpecCtx) []*Val {
	var args []*Val
	if len(call.Args) == 1 {
		if inner, ok := ast.Unparen(call.Args[0]).(*ast.CallExpr); ok && sc == nil {
			if tup, ok := ex.typeOf(inner).(*types.Tuple); ok && tup.Len() > 1 {
				return ex.evalCall(st, inner, sc)
			}
		}
	}
	for _, a := range call.Args {
		args = append(args, ex.eval(st, a, sc))
	}
	return args
}

func (ex *Exec) evalCall(st *State, call *ast.CallExpr, sc *SpecCtx) []*Val {
	return ex.evalCallWithArgs2(st, call, nil, false, sc)
}

func (ex *Exec) evalCallWithArgs(st *State, call *ast.CallExpr, args []*Val) []*Val {
	return ex.evalCallWithArgs2(st, call, args, true, nil)
}

func (ex *Exec) evalCallWithArgs2(st *State, call *ast.CallExpr, preArgs []*Val, havePre bool, sc *SpecCtx) []*Val {
	fun := ast.Unparen(call.Fun)
	// spec special forms
	if sc != nil {
		if id, ok := fun.(*ast.Ident); ok {
			if vs, handled := ex.specForm(st, id.Name, call, sc); handled {
				return vs
			}
		}
	}
	// conversion?
	if sc == nil {
		if tv, ok := ex.info.Types[fun]; ok && tv.IsType() {
			v := ex.eval(st, call.Args[0], nil)
			return []*Val{ex.convert(st, v, tv.Type, call.Pos())}
		}
	} else {
		if t := ex.specTypeExpr(fun, sc); t != nil {
			v := ex.eval(st, call.Args[0], sc)
			return []*Val{ex.convert(st, v, t, call.Pos())}
		}
	}
	// builtin?
	if id, ok := fun.(*ast.Ident); ok {
		var obj types.Object
		if sc == nil {
			obj = ex.info.ObjectOf(id)
		} else if _, bound := sc.binds[id.Name]; !bound {
			obj = ex.lookupSpecName(id.Name, sc)
		}
		if b, ok := obj.(*types.Builtin); ok {
			return ex.builtin(st, b.Name(), call, sc)
		}
	}
	// immediate closure call
	if lit, ok := fun.(*ast.FuncLit); ok && sc == nil {
		args := preArgs
		if !havePre {
			args = ex.evalArgs(st, call, nil)
		}
		return ex.inlineLit(st, lit, args, ex)
	}
	fn, recv, fv := ex.calleeOf(st, call, sc)
	args := preArgs
	if !havePre {
		args = ex.evalArgs(st, call, sc)
	}
	if fn == nil && fv != nil && fv.Fn != nil {
		if fv.Fn.Lit != nil && sc == nil {
			return ex.inlineLit(st, fv.Fn.Lit, args, fv.Fn.Ex)
		}
		if fv.Fn.Obj != nil {
			fn, recv = fv.Fn.Obj, fv.Fn.Recv
		}
	}
	var resT types.Type
	if sc == nil {
		resT = ex.typeOf(call)
	}
	if fn == nil {
		if vs, ok := ex.pureFieldCall(st, fun, fv, args, sc, resT); ok {
			return vs
		}
		// call through an unknown function value
		if sc != nil {
			ex.specErr("call of unknown function in contract expression at %s", ex.pos(call.Pos()))
			return []*Val{ex.freshVal(nil, "unk")}
		}
		return ex.unknownCall(st, "function value "+exprString(call.Fun), nil, args, resT, call.Pos(), fv)
	}
	return ex.callFunc(st, fn, recv, args, call, sc, resT)
}

// isRefineryRef: does the function reference name code of the refinery module?
func isRefineryRef(ref string) bool {
	// refinery packages are referenced by their short (module-relative) path: no dot in the first path element
	first := ref
	if k := strings.IndexAny(ref, "/."); k >= 0 {
		first = ref[:k]
	}
	switch first {
	case "agent", "app", "cmd", "collect", "config", "generics", "internal", "logger", "metrics", "pubsub", "route", "sample", "service", "sharder", "transmit", "types", "tools", "test":
		return true
	}
	return false
}

func posOf(call *ast.CallExpr) token.Pos {
	if call == nil {
		return token.NoPos
	}
	return call.Pos()
}

func exprString(e ast.Expr) string {
	switch e := e.(type) {
	case *ast.Ident:
		return e.Name
	case *ast.SelectorExpr:
		return exprString(e.X) + "." + e.Sel.Name
	case *ast.CallExpr:
		return exprString(e.Fun) + "(…)"
	case *ast.StarExpr:
		return "*" + exprString(e.X)
	case *ast.IndexExpr:
		return exprString(e.X) + "[…]"
	case *ast.ParenExpr:
		return "(" + exprString(e.X) + ")"
	}
	return fmt.Sprintf("%T", e)
}

func (ex *Exec) specTypeExpr(fun ast.Expr, sc *SpecCtx) types.Type {
	switch f := fun.(type) {
	case *ast.Ident:
		if _, ok := sc.binds[f.Name]; ok {
			return nil
		}
		if o, ok := ex.lookupSpecName(f.Name, sc).(*types.TypeName); ok {
			return o.Type()
		}
	case *ast.SelectorExpr:
		if id, ok := f.X.(*ast.Ident); ok {
			if _, bound := sc.binds[id.Name]; bound {
				return nil
			}
			if o := ex.lookupSpecName(id.Name, sc); o == nil || isPkgName(o) {
				if p := ex.lookupImport(id.Name, sc); p != nil {
					if tn, ok := p.Scope().Lookup(f.Sel.Name).(*types.TypeName); ok {
						return tn.Type()
					}
				}
			}
		}
	case *ast.ArrayType, *ast.StarExpr, *ast.MapType, *ast.InterfaceType:
		return ex.resolveType(fun, sc)
	case *ast.ParenExpr:
		return ex.specTypeExpr(f.X, sc)
	}
	return nil
}

func resultTypes(fn *types.Func) []types.Type {
	sig := fn.Type().(*types.Signature)
	var out []types.Type
	for i := 0; i < sig.Results().Len(); i++ {
		out = append(out, sig.Results().At(i).Type())
	}
	return out
}

func (ex *Exec) freshResults(fn *types.Func, resT types.Type, hint string) []*Val {
	var ts []types.Type
	if resT != nil {
		if tup, ok := resT.(*types.Tuple); ok {
			for i := 0; i < tup.Len(); i++ {
				ts = append(ts, tup.At(i).Type())
			}
		} else {
			ts = []types.Type{resT}
		}
	} else if fn != nil {
		ts = resultTypes(fn)
	}
	var out []*Val
	for _, t := range ts {
		out = append(out, ex.freshVal(t, hint))
	}
	return out
}

// callFunc dispatches a call to a known function object.
func (ex *Exec) callFunc(st *State, fn *types.Func, recv *Val, args []*Val, call *ast.CallExpr, sc *SpecCtx, resT types.Type) []*Val {
	ref := funcRef(fn)
	savedCall := ex.curCall
	ex.curCall = call
	defer func() { ex.curCall = savedCall }()
	// arguments take the parameter types (boxing into interfaces, typing constants)
	if sig, ok := fn.Type().(*types.Signature); ok {
		np := sig.Params().Len()
		conv := make([]*Val, len(args))
		copy(conv, args)
		for i := range conv {
			if conv[i] == nil {
				continue
			}
			if i < np && !(sig.Variadic() && i >= np-1) {
				pt := sig.Params().At(i).Type()
				if _, isTP := types.Unalias(pt).(*types.TypeParam); !isTP {
					conv[i] = ex.assignConv(st, conv[i], pt, token.NoPos)
				}
			}
		}
		rawArgs := args
		args = conv
		if vs, ok := ex.modelled(st, ref, fn, recv, rawArgs, posOf(call), sc, resT); ok {
			return vs
		}
	}
	pos := token.NoPos
	if call != nil {
		pos = call.Pos()
	}
	// 1. modelled library functions
	if vs, ok := ex.modelled(st, ref, fn, recv, args, pos, sc, resT); ok {
		return vs
	}
	// 2. contracts (in-repo or assumed)
	if c, ok := ex.eng.cs.Contracts[ref]; ok && c.Getter {
		return ex.applyGetter(st, c, fn, recv, args, sc)
	}
	if _, ok := ex.eng.cs.Contracts[ref]; !ok && sc == nil {
		ex.checkLockPre(st, ref, fn, recv, args, pos)
	}
	if c, ok := ex.eng.cs.Contracts[ref]; ok && !(ex.fn != nil && c.Inline) {
		return ex.applyContract(st, c, fn, recv, args, pos, sc, resT)
	}
	// 3. effect-free by table
	if ex.eng.isDropped(ref, fn) {
		ex.dropped[ref]++
		return ex.freshResults(fn, resT, fn.Name())
	}
	if sc != nil {
		// pure in-repo helper functions may be inlined inside contracts
		if fi := ex.eng.findFunc(ref); fi != nil && fi.Body != nil {
			return ex.inlineFunc(st, fi, recv, args, pos)
		}
		ex.specErr("contract expression calls %s, which has no contract or model", ref)
		return ex.freshResults(fn, resT, "unk")
	}
	// 4. inline small in-repo functions on request
	if c, ok := ex.eng.cs.Contracts[ref]; ok && c.Inline {
		if fi := ex.eng.findFunc(ref); fi != nil && fi.Body != nil {
			return ex.inlineFunc(st, fi, recv, args, pos)
		}
	}
	if ex.eng.autoInline[ref] {
		if fi := ex.eng.findFunc(ref); fi != nil && fi.Body != nil && ex.inlineDepth < 3 {
			return ex.inlineFunc(st, fi, recv, args, pos)
		}
	}
	return ex.unknownCall(st, ref, recv, args, resT, pos, nil)
}

func (ex *Exec) unknownCall(st *State, ref string, recv *Val, args []*Val, resT types.Type, pos token.Pos, fv *Val) []*Val {
	ex.unknown[ref]++
	if fv != nil && fv.Sh != nil && fv.Sh.IsLeaf() {
		// effect log of calls made through function values (when the ghosts are declared)
		if g, ok := ex.eng.cs.Ghosts["fnCalls"]; ok {
			l := ex.ghostLoc(g, nil)
			n := ex.readLoc(st, l)
			ex.writeLoc(st, l, ex.intVal("(+ "+n.S+" 1)", types.Typ[types.Int]))
		}
		if g, ok := ex.eng.cs.Ghosts["fnCallsT"]; ok && fv.T != nil {
			l := ex.ghostLoc(g, []*Val{{S: fmt.Sprint(typeID(fv.T))}})
			n := ex.readLoc(st, l)
			ex.writeLoc(st, l, ex.intVal("(+ "+n.S+" 1)", types.Typ[types.Int]))
		}
		if g, ok := ex.eng.cs.Ghosts["fnCalledN"]; ok {
			l := ex.ghostLoc(g, []*Val{fv})
			n := ex.readLoc(st, l)
			ex.writeLoc(st, l, ex.intVal("(+ "+n.S+" 1)", types.Typ[types.Int]))
		}
	}
	if fv != nil && ex.contract != nil && ex.contract.LocalCalls {
		// a call through a function value: by the contract's `localcalls` attribute it
		// only affects the objects handed to it
		ex.assumption("calls through function values in " + ex.contract.Func + " only modify the objects passed to them (attribute localcalls)")
		for _, a := range args {
			if a == nil || a.T == nil || a.Loc != nil {
				continue
			}
			if pt, ok := a.T.Underlying().(*types.Pointer); ok {
				if _, isStruct := pt.Elem().Underlying().(*types.Struct); isStruct {
					sh := ex.eng.sh.shapeOf(pt.Elem())
					if !sh.IsLeaf() {
						l := &Loc{Heap: true, TKey: heapTypeKey(pt.Elem()), Ref: a.S, Sh: sh, T: pt.Elem()}
						ex.writeLoc(st, l, ex.freshValSh(sh, "callee"))
					}
				}
			}
		}
		if resT == nil && fv.T != nil {
			if sig, ok := fv.T.Underlying().(*types.Signature); ok {
				resT = sig.Results()
			}
		}
		rs := ex.freshResults(nil, resT, "res")
		// `assert callresults <formula over result>`: what the contract assumes of every
		// value returned through a function value
		for _, cl := range ex.contract.Clauses {
			if cl.Kind == "assert" && strings.HasPrefix(cl.Text, "callresults ") && len(rs) > 0 {
				e, err := parseSpecExpr(strings.TrimPrefix(cl.Text, "callresults "))
				if err != nil {
					ex.specErr("bad callresults clause: %v", err)
					continue
				}
				sc := ex.ownCtx(ex.entry, token.NoPos)
				sc.binds["result"] = rs[0]
				ex.specDepth++
				g := ex.eval(st, e, sc)
				ex.specDepth--
				st.assume(g.S)
				ex.assumption("values returned through function values in " + ex.contract.Func + " satisfy: " + strings.TrimPrefix(cl.Text, "callresults "))
			}
		}
		return rs
	}
	if ex.discovery == 0 {
		ex.note("unmodelled call %s at %s: result fresh, heap havocked", ref, ex.pos(pos))
	}
	external := fv == nil && !strings.Contains(ref, " ") && ex.eng.findFunc(ref) == nil && !isRefineryRef(ref)
	if external {
		ex.keepGhosts = true
		ex.assumption("library code (" + strings.SplitN(ref, ".", 2)[0] + "…) does not call back into refinery functions that carry ghost effect logs")
	}
	ex.havocAllHeap(st, ref)
	ex.keepGhosts = false
	ex.reassumeObjInvs(st)
	// locals whose address was passed are havocked too
	for _, a := range append([]*Val{recv}, args...) {
		if a != nil && a.Loc != nil && !a.Loc.Heap {
			ex.writeLoc(st, a.Loc, ex.freshValSh(a.Loc.Sh, "havoc"))
			ex.recordAssign(a.Loc.Obj)
		}
	}
	if resT == nil && fv != nil && fv.T != nil {
		if sig, ok := fv.T.Underlying().(*types.Signature); ok {
			resT = sig.Results()
		}
	}
	return ex.freshResults(nil, resT, "res")
}

// ---------------------------------------------------------------------------
// Inlining

func (ex *Exec) inlineLit(st *State, lit *ast.FuncLit, args []*Val, owner *Exec) []*Val {
	sig, _ := ex.typeOf(lit).(*types.Signature)
	if sig == nil {
		if owner != nil && owner.info != nil {
			if tv, ok := owner.info.Types[lit]; ok {
				sig, _ = tv.Type.(*types.Signature)
			}
		}
	}
	if sig == nil {
		ex.havocAllHeap(st, "closure")
		return nil
	}
	return ex.inlineBody(st, lit.Body, sig, nil, nil, args, ex.info, lit.Pos())
}

func (ex *Exec) inlineFunc(st *State, fi *FuncInfo, recv *Val, args []*Val, pos token.Pos) []*Val {
	var recvObj *types.Var
	if fi.Sig.Recv() != nil {
		recvObj = fi.Sig.Recv()
	}
	saved := ex.info
	ex.info = fi.Pkg.TypesInfo
	defer func() { ex.info = saved }()
	return ex.inlineBody(st, fi.Body, fi.Sig, recvObj, recv, args, fi.Pkg.TypesInfo, pos)
}

func (ex *Exec) inlineBody(st *State, body *ast.BlockStmt, sig *types.Signature, recvObj *types.Var, recv *Val, args []*Val, info *types.Info, pos token.Pos) []*Val {
	if ex.inlineDepth > 6 {
		ex.havocAllHeap(st, "inline-depth")
		return ex.freshResults(nil, sig.Results(), "deep")
	}
	// bind parameters
	if recvObj != nil && recv != nil {
		st.vars[recvObj] = recv
	}
	np := sig.Params().Len()
	for i := 0; i < np; i++ {
		p := sig.Params().At(i)
		if sig.Variadic() && i == np-1 {
			// pack the remaining arguments into a slice unless already a slice
			if len(args) == np && args[i] != nil && args[i].Sh != nil && args[i].Sh.Kind == "slice" {
				st.vars[p] = args[i]
			} else {
				sh := ex.eng.sh.shapeOf(p.Type())
				arr := ex.zeroSh(sh.kid("elems"), nil)
				n := 0
				for _, a := range args[min(i, len(args)):] {
					arr = ex.storeVal(arr, fmt.Sprint(n), a)
					n++
				}
				st.vars[p] = &Val{Sh: sh, T: p.Type(), Kids: []*Val{ex.intVal(fmt.Sprint(n), types.Typ[types.Int]), arr}}
			}
			continue
		}
		if i < len(args) {
			st.vars[p] = ex.assignConv(st, args[i], p.Type(), pos)
		}
	}
	for i := 0; i < sig.Results().Len(); i++ {
		r := sig.Results().At(i)
		if r.Name() != "" {
			st.vars[r] = ex.zeroVal(r.Type())
		}
	}
	// run
	savedFn, savedRets, savedDefers := ex.fn, ex.inlineRets, st.defers
	savedLoop, savedSel, savedContract := ex.loopOrd, ex.selectOrd, ex.contract
	st.defers = nil
	ex.inlineRets = nil
	ex.inlineDepth++
	ex.contract = nil
	tmpFn := &FuncInfo{Ref: "inline", Sig: sig, Body: body}
	if savedFn != nil {
		tmpFn.Ref = savedFn.Ref
		tmpFn.Pkg = savedFn.Pkg
	}
	ex.fn = tmpFn
	f := ex.execBlock(st, body.List)
	for _, s := range f.normal {
		ex.finishReturn(s, nil, body.Rbrace)
	}
	rets := ex.inlineRets
	ex.fn, ex.inlineRets = savedFn, savedRets
	ex.loopOrd, ex.selectOrd, ex.contract = savedLoop, savedSel, savedContract
	ex.inlineDepth--
	// merge return states back into st
	var states []*State
	nres := sig.Results().Len()
	resObjs := make([]types.Object, nres)
	for i := range resObjs {
		resObjs[i] = types.NewVar(token.NoPos, nil, fmt.Sprintf("$res%d", i), sig.Results().At(i).Type())
	}
	for _, r := range rets {
		r.st.defers = savedDefers
		for i := 0; i < nres; i++ {
			if i < len(r.results) {
				r.st.vars[resObjs[i]] = ex.assignConv(r.st, r.results[i], sig.Results().At(i).Type(), pos)
			} else {
				r.st.vars[resObjs[i]] = ex.freshVal(sig.Results().At(i).Type(), "res")
			}
		}
		states = append(states, r.st)
	}
	if len(states) == 0 {
		// callee never returns (panic / infinite loop)
		st.assume("false")
		return ex.freshResults(nil, sig.Results(), "noret")
	}
	m := ex.mergeStates(states)
	ms := m[0]
	for _, o := range m[1:] {
		ms = ex.merge2(ms, o)
	}
	st.pc, st.vars, st.heap, st.epoch, st.defers = ms.pc, ms.vars, ms.heap, ms.epoch, savedDefers
	var out []*Val
	for i := 0; i < nres; i++ {
		out = append(out, st.vars[resObjs[i]])
		delete(st.vars, resObjs[i])
	}
	return out
}

// ---------------------------------------------------------------------------
// Contracts at call sites

func (ex *Exec) calleeCtx(c *Contract, fn *types.Func, recv *Val, args []*Val, old *State) *SpecCtx {
	sc := &SpecCtx{old: old, binds: map[string]*Val{}, subst: map[types.Object]*Val{}}
	if fn.Pkg() != nil {
		sc.pkg = fn.Pkg()
	}
	if fi := ex.eng.findFunc(funcRef(fn)); fi != nil && fi.Body != nil && fi.Pkg != nil {
		// type parameters and imports of the callee's file are visible in its contract
		sc.scope = fi.Pkg.Types.Scope().Innermost(fi.Body.Lbrace + 1)
		sc.pos = fi.Body.Lbrace + 1
	}
	sig := fn.Type().(*types.Signature)
	if sig.Recv() != nil && recv != nil {
		if n := sig.Recv().Name(); n != "" && n != "_" {
			sc.binds[n] = recv
		}
		sc.binds["this"] = recv
		// generic receiver: map the type parameters to the type arguments of this receiver
		if recv.T != nil {
			if rn := namedOf(recv.T); rn != nil && rn.TypeArgs() != nil && rn.Origin().TypeParams() != nil {
				sc.tsubst = map[string]types.Type{}
				tps := rn.Origin().TypeParams()
				for i := 0; i < tps.Len() && i < rn.TypeArgs().Len(); i++ {
					sc.tsubst[tps.At(i).Obj().Name()] = rn.TypeArgs().At(i)
				}
			}
		}
	}
	np := sig.Params().Len()
	for i := 0; i < np; i++ {
		p := sig.Params().At(i)
		name := p.Name()
		if name == "" || name == "_" {
			name = fmt.Sprintf("p%d", i)
		}
		if sig.Variadic() && i == np-1 && !(len(args) == np && args[i] != nil && args[i].Sh != nil && args[i].Sh.Kind == "slice") {
			sh := ex.eng.sh.shapeOf(p.Type())
			arr := ex.zeroSh(sh.kid("elems"), nil)
			n := 0
			for _, a := range args[min(i, len(args)):] {
				arr = ex.storeVal(arr, fmt.Sprint(n), a)
				n++
			}
			sc.binds[name] = &Val{Sh: sh, T: p.Type(), Kids: []*Val{ex.intVal(fmt.Sprint(n), types.Typ[types.Int]), arr}}
			continue
		}
		if i < len(args) {
			sc.binds[name] = ex.assignConvNoState(args[i], p.Type())
		}
		sc.binds[fmt.Sprintf("p%d", i)] = sc.binds[name]
	}
	return sc
}

func (ex *Exec) assignConvNoState(v *Val, t types.Type) *Val {
	tmp := &State{vars: map[types.Object]*Val{}, heap: map[string]string{}}
	return ex.assignConv(tmp, v, t, token.NoPos)
}

func bindResults(sc *SpecCtx, fn *types.Func, results []*Val) {
	sig := fn.Type().(*types.Signature)
	for i, r := range results {
		if i < sig.Results().Len() {
			if n := sig.Results().At(i).Name(); n != "" && n != "_" {
				sc.binds[n] = r
			}
		}
		sc.binds[fmt.Sprintf("result%d", i)] = r
	}
	if len(results) > 0 {
		sc.binds["result"] = results[0]
	}
}

// checkLockPre: inside a lock-discipline contract, a callee's own lock-discipline precondition (mutex free /
// held / write-held when it is called) is an obligation of the call.
func (ex *Exec) checkLockPre(st *State, ref string, fn *types.Func, recv *Val, args []*Val, pos token.Pos) {
	if ex.contract == nil || !strings.HasSuffix(ex.contract.Func, "#locks") || strings.Contains(ref, "#") || ex.discovery > 0 || fn == nil {
		return
	}
	lc := ex.eng.cs.Contracts[ref+"#locks"]
	if lc == nil {
		return
	}
	lsc := ex.calleeCtx(lc, fn, recv, args, st.clone())
	ex.specDepth++
	saved := ex.curClause
	for _, cl := range lc.Clauses {
		if cl.Kind == "requires" && cl.Expr != nil && cl.Name != "" {
			ex.curClause = lc.Func + ": requires " + cl.Text
			g := ex.eval(st, cl.Expr, lsc)
			ex.oblig(st, "pre@call", fmt.Sprintf("pre(%s)%s@call%d", lc.Func, cl.Name, ex.callOrd(lc.Func, pos)), pos, g.S, "requires "+cl.Text)
		}
	}
	ex.curClause = saved
	ex.specDepth--
}

func (ex *Exec) applyContract(st *State, c *Contract, fn *types.Func, recv *Val, args []*Val, pos token.Pos, scCaller *SpecCtx, resT types.Type) []*Val {
	ex.usedContracts[c.Func]++
	if c.Kind == "assume" {
		ex.assumedUsed[c.Func]++
	}
	pre := st.clone()
	sc := ex.calleeCtx(c, fn, recv, args, pre)
	ex.specDepth++
	defer func() { ex.specDepth-- }()
	saveClause := ex.curClause
	defer func() { ex.curClause = saveClause }()
	// inside a lock-discipline contract, a callee's own lock-discipline precondition (mutex free / held /
	// write-held when it is called) is an obligation of the call, and it leaves the mutex in that state
	if scCaller == nil {
		ex.checkLockPre(st, c.Func, fn, recv, args, pos)
	}
	// lets first (they may be used by requires)
	evalLets := func(s *State) {
		for _, cl := range c.Clauses {
			if cl.Kind == "let" && cl.Expr != nil {
				ex.curClause = c.Func + ": let " + cl.LetName
				sc.binds[cl.LetName] = ex.eval(s, cl.Expr, sc)
			}
		}
	}
	evalLets(st)
	if scCaller == nil && ex.discovery == 0 {
		n := 0
		for _, cl := range c.Clauses {
			if cl.Kind != "requires" || cl.Expr == nil {
				continue
			}
			n++
			if !ex.clauseActive(cl) {
				continue
			}
			if ex.contract != nil && strings.HasSuffix(ex.contract.Func, "#locks") && !strings.HasPrefix(cl.Name, "lock") {
				// a synthesized lock-discipline contract carries no functional preconditions of its own, so it
				// cannot be asked to establish the callee's: only the callee's lock preconditions are demanded
				continue
			}
			ex.curClause = c.Func + ": requires " + cl.Text
			g := ex.eval(st, cl.Expr, sc)
			name := cl.Name
			if name == "" {
				name = fmt.Sprintf("#%d", n)
			}
			ex.callN[c.Func]++
			ex.oblig(st, "pre@call", fmt.Sprintf("pre(%s)%s@call%d", c.Func, name, ex.callOrd(c.Func, pos)), pos, g.S, "requires "+cl.Text)
		}
	}
	// object invariants of the callee's receiver must hold at the call (visible-state semantics)
	if scCaller == nil && ex.discovery == 0 && recv != nil && !c.Unshared && !(ex.contract != nil && ex.contract.NoInv) {
		if sig, ok := fn.Type().(*types.Signature); ok && sig.Recv() != nil {
			n := namedOf(sig.Recv().Type())
			if n != nil && len(ex.eng.cs.ObjInvs[typeKey(n)]) > 0 && ex.fn != nil && ex.fn.Pkg != nil && fn.Pkg() != nil && ex.fn.Pkg.Types != fn.Pkg() {
				// a caller in another package cannot have touched the (unexported) representation
				ex.assumption("object invariants of " + typeKey(n) + " hold whenever code of another package calls its methods (visible-state semantics; the invariants mention unexported fields only)")
				n = nil
			}
			if n != nil {
				for _, oi := range ex.eng.cs.ObjInvs[typeKey(n)] {
					if oi.Expr == nil {
						continue
					}
					osc := &SpecCtx{old: pre, binds: map[string]*Val{"this": recv}, subst: map[types.Object]*Val{}, pkg: fn.Pkg()}
					ex.curClause = "objinv " + oi.Name
					g := ex.eval(st, oi.Expr, osc)
					ex.oblig(st, "objinv@call", fmt.Sprintf("objinv(%s):%s@call%d", c.Func, oi.Name, ex.callOrd(c.Func+"#inv", pos)), pos, g.S, "object invariant "+oi.Name+" holds when "+c.Func+" is called")
				}
			}
		}
	}
	// havoc the frame
	if c.Havoc {
		ex.havocAllHeap(st, c.Func)
		ex.reassumeObjInvs(st)
	} else if c.HavocHeap {
		ex.keepGhosts = true
		ex.havocAllHeap(st, c.Func)
		ex.keepGhosts = false
		ex.reassumeObjInvs(st)
	}
	if c.LocalCalls {
		for _, gname := range []string{"fnCalls", "fnCallsT", "fnCalledN"} {
			if _, ok := ex.eng.cs.Ghosts[gname]; ok {
				ex.havocSpecLval(st, "all("+gname+")", sc)
			}
		}
	}
	for _, cl := range c.Clauses {
		if cl.Kind != "modifies" {
			continue
		}
		for _, item := range splitTopLevel(cl.Text, ',') {
			item = strings.TrimSpace(item)
			if item == "" || item == "nothing" {
				continue
			}
			if item == "everything" {
				ex.havocAllHeap(st, c.Func)
				continue
			}
			ex.curClause = c.Func + ": modifies " + item
			ex.havocSpecLval(st, item, sc)
		}
	}
	// results
	results := ex.freshResults(fn, resT, fn.Name())
	if len(results) == 0 && fn != nil {
		results = ex.freshResults(fn, nil, fn.Name())
	}
	if c.Function {
		// a deterministic function of its scalar arguments: results are applications of
		// an uninterpreted function, so equal arguments give equal results
		ex.assumption(c.Func + " is treated as a deterministic function of its arguments")
		var sorts, terms []string
		for _, a := range args {
			// scalars; the components of an `any`; slices of scalars contribute their length and contents
			s2, t2 := ex.flattenArg(a)
			sorts = append(sorts, s2...)
			terms = append(terms, t2...)
		}
		for i, r := range results {
			if r.Sh == nil || len(sorts) == 0 {
				continue
			}
			var build func(sh *Shape, path string) *Val
			build = func(sh *Shape, path string) *Val {
				if sh.IsLeaf() {
					fname := "fn_" + smtName(c.Func) + fmt.Sprintf("_r%d", i) + smtName(path)
					ex.eng.smt.declFun(fname, "(declare-fun "+fname+" ("+strings.Join(sorts, " ")+") "+sh.Leaf+")")
					return ex.loaded(&Val{Sh: sh, T: sh.T, S: "(" + fname + " " + strings.Join(terms, " ") + ")"})
				}
				o := &Val{Sh: sh, T: sh.T}
				for k, ks := range sh.Kids {
					o.Kids = append(o.Kids, build(ks, path+"."+sh.Names[k]))
				}
				switch sh.Kind {
				case "slice":
					st.assume("(<= 0 " + o.Kids[0].S + ")")
				case "map":
					st.assume("(<= 0 " + o.Kids[1].S + ")")
				}
				return o
			}
			if r.Sh.Kind != "any" && r.Sh.Kind != "slice" && !r.Sh.IsLeaf() && r.Sh.Kind != "struct" {
				continue
			}
			v := build(r.Sh, "")
			v.T = r.T
			results[i] = v
		}
	}
	bindResults(sc, fn, results)
	// ghost effects of the callee
	for _, cl := range c.Clauses {
		if cl.Kind != "ghostupdate" || cl.Expr == nil || !ex.clauseActive(cl) {
			continue
		}
		for _, item := range splitTopLevel(cl.LetName, ',') {
			ex.curClause = c.Func + ": ghostupdate " + item
			ex.havocSpecLval(st, strings.TrimSpace(item), sc)
		}
	}
	// `domain` clauses restrict the inputs the contract speaks about: they are not
	// obligations of the caller; outside the domain nothing is promised.
	dom := "true"
	for _, cl := range c.Clauses {
		if cl.Kind == "domain" && cl.Expr != nil {
			ex.curClause = c.Func + ": domain " + cl.Text
			dom = and(dom, ex.eval(pre, cl.Expr, sc).S)
		}
	}
	dom = ex.def("dom", "Bool", dom)
	for _, cl := range c.Clauses {
		if (cl.Kind != "ensures" && cl.Kind != "ghostupdate") || cl.Expr == nil || cl.Finding != "" {
			continue
		}
		if !ex.clauseActive(cl) {
			continue // a clause restricted to other properties: neither demanded nor used in this check
		}
		if c.Opaque && ex.contract != nil && cl.Kind == "ensures" {
			continue // opaque: what callers may use is exported by lemmas (`assert uses`)
		}
		ex.curClause = c.Func + ": ensures " + cl.Text
		nErr := len(ex.specErrs)
		g := ex.eval(st, cl.Expr, sc)
		if len(ex.specErrs) > nErr && cl.Kind == "ensures" {
			// a postcondition that speaks of the callee's own local variables (ghost state of an object the
			// callee builds) says nothing a caller can observe: it is proved for the callee and not used here
			onlyLocals := true
			for _, e := range ex.specErrs[nErr:] {
				if !strings.Contains(e, "does not denote a variable here") && !strings.Contains(e, "undefined name") {
					onlyLocals = false
				}
			}
			if onlyLocals {
				ex.specErrs = ex.specErrs[:nErr]
				continue
			}
		}
		if cl.Kind == "ghostupdate" {
			// a call log records the call whatever the arguments: the contract's domain does not restrict it
			st.assume(g.S)
			continue
		}
		st.assume(implies(dom, g.S))
	}
	return results
}

// applyGetter: a pure getter returns a deterministic function of its receiver,
// of the receiver's ghost version (bumped by reloads) and of its scalar arguments.
func (ex *Exec) applyGetter(st *State, c *Contract, fn *types.Func, recv *Val, args []*Val, sc *SpecCtx) []*Val {
	ex.usedContracts[c.Func]++
	ex.assumedUsed[c.Func]++
	s := st
	if sc != nil && sc.inOld {
		s = sc.old
	}
	rs := "0"
	if recv != nil && recv.Sh != nil && recv.Sh.IsLeaf() {
		rs = ex.ptrIdentity(recv)
	}
	verArr := ex.heapArr(s, heapKey("G$", "getterVersion"), "Int")
	ver := "(select " + verArr + " " + rs + ")"
	argSorts := []string{"Int", "Int"}
	argTerms := []string{rs, ver}
	for _, a := range args {
		if a != nil && a.Sh != nil && a.Sh.IsLeaf() {
			argSorts = append(argSorts, a.Sh.Leaf)
			argTerms = append(argTerms, a.S)
		}
	}
	var out []*Val
	for i, rt := range resultTypes(fn) {
		sh := ex.eng.sh.shapeOf(rt)
		var build func(sh *Shape, path string) *Val
		build = func(sh *Shape, path string) *Val {
			if sh.IsLeaf() {
				fname := "gt_" + smtName(c.Func) + fmt.Sprintf("_r%d_", i) + smtName(path)
				ex.eng.smt.declFun(fname, "(declare-fun "+fname+" ("+strings.Join(argSorts, " ")+") "+sh.Leaf+")")
				v := &Val{Sh: sh, T: sh.T, S: "(" + fname + " " + strings.Join(argTerms, " ") + ")"}
				return ex.loaded(v)
			}
			o := &Val{Sh: sh, T: sh.T}
			for k, ks := range sh.Kids {
				o.Kids = append(o.Kids, build(ks, path+"."+sh.Names[k]))
			}
			switch sh.Kind {
			case "slice":
				st.assume("(<= 0 " + o.Kids[0].S + ")")
			case "map":
				st.assume("(<= 0 " + o.Kids[1].S + ")")
			}
			return o
		}
		v := build(sh, "")
		v.T = rt
		out = append(out, v)
	}
	// ensures clauses may constrain the result further
	if len(c.Clauses) > 0 {
		csc := ex.calleeCtx(c, fn, recv, args, s)
		bindResults(csc, fn, out)
		ex.specDepth++
		for _, cl := range c.Clauses {
			if cl.Kind == "ensures" && cl.Expr != nil {
				st.assume(ex.eval(s, cl.Expr, csc).S)
			}
		}
		ex.specDepth--
	}
	return out
}

// reassumeObjInvs: after a call with unknown effects, the object invariants of the
// current receiver are assumed to hold again (code outside the type's methods
// cannot break them: the fields are unexported; other methods are assumed to preserve them).
func (ex *Exec) reassumeObjInvs(st *State) {
	if ex.fn == nil || ex.fn.Sig == nil || ex.fn.Sig.Recv() == nil || ex.fn.Obj == nil || ex.inlineDepth > 0 {
		return
	}
	n := namedOf(ex.fn.Sig.Recv().Type())
	if n == nil || len(ex.eng.cs.ObjInvs[typeKey(n)]) == 0 {
		return
	}
	ex.assumption("object invariants of " + typeKey(n) + " are preserved by calls with unknown effects (visible-state semantics)")
	recv := ex.readVar(ex.entry, ex.fn.Sig.Recv())
	for _, oi := range ex.eng.cs.ObjInvs[typeKey(n)] {
		if oi.Expr == nil {
			continue
		}
		sc := &SpecCtx{old: ex.entry, binds: map[string]*Val{"this": recv}, subst: map[types.Object]*Val{}}
		if ex.fn.Pkg != nil {
			sc.pkg = ex.fn.Pkg.Types
		}
		ex.specDepth++
		saved := ex.curClause
		ex.curClause = "objinv " + oi.Name
		g := ex.eval(st, oi.Expr, sc)
		ex.curClause = saved
		ex.specDepth--
		st.assume(g.S)
	}
}

func (ex *Exec) callOrd(ref string, pos token.Pos) int {
	key := ref
	m := ex.callSites[key]
	if m == nil {
		m = map[token.Pos]int{}
		ex.callSites[key] = m
	}
	if n, ok := m[pos]; ok {
		return n
	}
	m[pos] = len(m) + 1
	return m[pos]
}

// havocSpecLval havocs one item of a modifies clause.
var allGhostRe = regexp.MustCompile(`^all\((\w+)\)$`)

// fieldKeys resolves a modifies item `field(pkg.Type, Path.To.Field)` -- that field of every
// object of the type -- to its heap keys (one per leaf).
var fieldItemRe = regexp.MustCompile(`^field\(([^,]+),\s*([\w.]+)\)$`)

func (ex *Exec) fieldKeys(item string, sc *SpecCtx) ([]string, []*Shape, bool) {
	m := fieldItemRe.FindStringSubmatch(item)
	if m == nil {
		return nil, nil, false
	}
	te, err := parseSpecExpr(strings.TrimSpace(m[1]))
	if err != nil {
		ex.specErr("bad type in modifies item %q", item)
		return nil, nil, true
	}
	t := ex.resolveType(te, sc)
	if t == nil {
		ex.specErr("unknown type in modifies item %q", item)
		return nil, nil, true
	}
	sh := ex.eng.sh.shapeOf(t)
	for _, comp := range strings.Split(m[2], ".") {
		var next *Shape
		for i, n := range sh.Names {
			if n == comp {
				next = sh.Kids[i]
			}
		}
		if next == nil {
			ex.specErr("no field %s in modifies item %q", comp, item)
			return nil, nil, true
		}
		sh = next
	}
	var keys []string
	var leaves []*Shape
	sh.leafPaths(m[2], func(p string, leaf *Shape) {
		keys = append(keys, heapKey(heapTypeKey(t), p))
		leaves = append(leaves, leaf)
	})
	return keys, leaves, true
}

func (ex *Exec) havocSpecLval(st *State, item string, sc *SpecCtx) {
	if keys, leaves, ok := ex.fieldKeys(item, sc); ok {
		for i, key := range keys {
			_ = ex.heapArr(st, key, leaves[i].Leaf)
			ex.havocHeapKey(st, key, ex.eng.heapSortOf(key))
		}
		return
	}
	if m := allGhostRe.FindStringSubmatch(item); m != nil {
		// the whole ghost function (every index)
		if g, ok := ex.eng.cs.Ghosts[m[1]]; ok {
			l := ex.ghostLoc(g, []*Val{{S: "0"}})
			key := heapKey("G$", g.Name)
			_ = ex.heapArr(st, key, l.Sh.Leaf)
			ex.havocHeapKey(st, key, ex.eng.heapSortOf(key))
			return
		}
	}
	e, err := parseSpecExpr(item)
	if err != nil {
		ex.specErr("bad modifies item %q: %v", item, err)
		return
	}
	for _, loc := range ex.specLocs(st, e, sc) {
		ex.writeLoc(st, loc, ex.freshValSh(loc.Sh, "mod"))
		if !loc.Heap {
			ex.recordAssign(loc.Obj)
		}
	}
}

// specLocs resolves a modifies item to locations.
func (ex *Exec) specLocs(st *State, e ast.Expr, sc *SpecCtx) []*Loc {
	switch x := e.(type) {
	case *ast.ParenExpr:
		return ex.specLocs(st, x.X, sc)
	case *ast.CallExpr:
		// ghost application g(ref) / g(ref, i)
		if id, ok := x.Fun.(*ast.Ident); ok {
			if g, ok := ex.eng.cs.Ghosts[id.Name]; ok {
				var args []*Val
				for _, a := range x.Args {
					args = append(args, ex.eval(st, a, sc))
				}
				if l := ex.ghostLoc(g, args); l != nil {
					return []*Loc{l}
				}
				return nil
			}
		}
	case *ast.StarExpr:
		p := ex.eval(st, x.X, sc)
		if l := ex.derefLoc(st, p); l != nil {
			return []*Loc{l}
		}
	case *ast.SelectorExpr, *ast.Ident:
		if l := ex.place(st, e, sc); l != nil {
			return []*Loc{l}
		}
		// a bound name that is a pointer: the whole object
		v := ex.eval(st, e, sc)
		if v != nil && v.T != nil {
			if _, ok := v.T.Underlying().(*types.Pointer); ok {
				if l := ex.derefLoc(st, v); l != nil {
					return []*Loc{l}
				}
			}
		}
	}
	ex.specErr("modifies item is not a location: %s", exprString(e))
	return nil
}

// ghostLoc: the heap location of a ghost function application.
func (ex *Exec) ghostLoc(g *GhostDecl, args []*Val) *Loc {
	rt := ex.eng.ghostResultType(g)
	rsh := ex.eng.sh.shapeOf(rt)
	if len(args) == 0 || len(g.Params) == 0 {
		return &Loc{Heap: true, TKey: "G$", Ref: "0", Path: []string{g.Name}, Sh: rsh, T: rt}
	}
	if len(g.Params) == 1 {
		return &Loc{Heap: true, TKey: "G$", Ref: args[0].S, Path: []string{g.Name}, Sh: rsh, T: rt}
	}
	// two parameters: the cell holds an array indexed by the second
	idx := "Int"
	if len(g.Params) > 1 {
		if s, ok := ex.eng.sh.keySort(ex.eng.resolveTypeName(g.Params[1], g.Pkg)); ok {
			idx = s
		}
	}
	lifted := ex.eng.sh.lift(rsh, idx)
	return &Loc{Heap: true, TKey: "G$", Ref: args[0].S, Path: []string{g.Name}, Sh: lifted, T: rt}
}

// ---------------------------------------------------------------------------
// Spec special forms

func (ex *Exec) specForm(st *State, name string, call *ast.CallExpr, sc *SpecCtx) ([]*Val, bool) {
	one := func(v *Val) ([]*Val, bool) { return []*Val{v}, true }
	switch name {
	case "old":
		if len(call.Args) != 1 {
			ex.specErr("old takes one argument")
			return one(ex.freshVal(nil, "old"))
		}
		n := *sc
		n.inOld = true
		if n.cur == nil {
			n.cur = st
		}
		return one(ex.eval(sc.old, call.Args[0], &n))
	case "implies":
		a := ex.eval(st, call.Args[0], sc)
		b := ex.eval(st, call.Args[1], sc)
		return one(ex.boolVal(implies(a.S, b.S)))
	case "iff":
		a := ex.eval(st, call.Args[0], sc)
		b := ex.eval(st, call.Args[1], sc)
		return one(ex.boolVal(eq(a.S, b.S)))
	case "ite":
		c := ex.eval(st, call.Args[0], sc)
		a := ex.eval(st, call.Args[1], sc)
		b := ex.eval(st, call.Args[2], sc)
		a, b = ex.coerceNum(a, b)
		if a.Sh.IsLeaf() && b.Sh.IsLeaf() {
			t := a.T
			if t == nil || isUntyped(t) {
				t = b.T
			}
			return one(&Val{Sh: a.Sh, T: t, S: ite(c.S, a.S, b.S)})
		}
		ex.bound++
		v := ex.iteVal(c.S, a, b)
		ex.bound--
		return one(v)
	case "forall", "exists":
		lit, ok := call.Args[0].(*ast.FuncLit)
		if !ok {
			ex.specErr("malformed quantifier")
			return one(ex.boolVal("true"))
		}
		n := sc
		var binders, ranges []string
		for _, f := range lit.Type.Params.List {
			t := ex.resolveType(f.Type, sc)
			if t == nil {
				ex.specErr("unknown type in quantifier")
				t = types.Typ[types.Int]
			}
			sh := ex.eng.sh.shapeOf(t)
			if !sh.IsLeaf() {
				ex.specErr("quantified variable must have a scalar type")
				continue
			}
			for _, nm := range f.Names {
				ex.eng.qn++
				bv := fmt.Sprintf("q_%s_%d", nm.Name, ex.eng.qn)
				binders = append(binders, "("+bv+" "+sh.Leaf+")")
				n = n.with(nm.Name, &Val{Sh: sh, T: t, S: bv})
				if lo, hi, ok := intRange(t); ok {
					ranges = append(ranges, "(<= "+lo+" "+bv+")", "(<= "+bv+" "+hi+")")
				}
			}
		}
		ret := lit.Body.List[0].(*ast.ReturnStmt).Results[0]
		ex.bound++
		pc0 := len(st.pc)
		body := ex.eval(st, ret, n)
		ex.bound--
		// facts contributed while evaluating the body (postconditions of function contracts applied to the
		// bound variables) are universally valid statements about those applications: they stay under the binder
		var facts []string
		if len(st.pc) > pc0 && len(binders) > 0 {
			facts = append(facts, st.pc[pc0:]...)
			st.pc = st.pc[:pc0]
		}
		if len(binders) == 0 {
			return one(body)
		}
		bs := body.S
		if name == "forall" {
			bs = implies(and(append(ranges, facts...)...), bs)
		} else {
			bs = and(append(append(ranges, facts...), bs)...)
		}
		return one(ex.boolVal("(" + name + " (" + strings.Join(binders, " ") + ") " + bs + ")"))
	case "in":
		m := ex.eval(st, call.Args[0], sc)
		k := ex.eval(st, call.Args[1], sc)
		if m.Sh != nil && m.Sh.Kind == "map" {
			mt, _ := m.T.Underlying().(*types.Map)
			k = ex.coerceTo(k, mtKey(mt))
			return one(ex.boolVal("(select " + m.kid("dom").S + " " + k.S + ")"))
		}
		if m.Sh != nil && m.Sh.Kind == "lift" && m.Sh.IsLeaf() {
			return one(ex.boolVal("(select " + m.S + " " + k.S + ")"))
		}
		ex.specErr("in(m,k): m is not a modelled map")
		return one(ex.boolVal(ex.eng.smt.fresh("in", "Bool")))
	case "card":
		m := ex.eval(st, call.Args[0], sc)
		if m.Sh != nil && m.Sh.Kind == "map" {
			return one(m.kid("card"))
		}
		ex.specErr("card(m): m is not a modelled map")
		return one(ex.intVal("0", types.Typ[types.Int]))
	case "seen":
		k := ex.eval(st, call.Args[0], sc)
		if sv, ok := sc.binds["$seen"]; ok {
			return one(ex.boolVal("(select " + sv.S + " " + k.S + ")"))
		}
		ex.specErr("seen(k) used outside a map range loop invariant")
		return one(ex.boolVal("false"))
	case "at":
		// at(m, k): the value stored under k, without the "absent gives zero" wrapper (meaningful only under in(m, k))
		m := ex.eval(st, call.Args[0], sc)
		k := ex.eval(st, call.Args[1], sc)
		if m.Sh != nil && m.Sh.Kind == "map" {
			mt := m.T.Underlying().(*types.Map)
			k = ex.coerceTo(k, mtKey(mt))
			return one(ex.retype(ex.selectVal(m.kid("val"), k.S), mt.Elem()))
		}
		ex.specErr("at: not a modelled map")
		return one(ex.freshVal(nil, "at"))
	case "mapset":
		m := ex.eval(st, call.Args[0], sc)
		k := ex.eval(st, call.Args[1], sc)
		v := ex.eval(st, call.Args[2], sc)
		if m.Sh != nil && m.Sh.Kind == "map" {
			mt := m.T.Underlying().(*types.Map)
			ex.bound++
			r := ex.mapStore(m, ex.assignConvNoState(k, mt.Key()), ex.assignConvNoState(v, mt.Elem()))
			ex.bound--
			return one(r)
		}
		ex.specErr("mapset: not a modelled map")
		return one(m)
	case "mapdel":
		m := ex.eval(st, call.Args[0], sc)
		k := ex.eval(st, call.Args[1], sc)
		if m.Sh != nil && m.Sh.Kind == "map" {
			mt := m.T.Underlying().(*types.Map)
			ex.bound++
			r := ex.mapDelete(m, ex.assignConvNoState(k, mt.Key()))
			ex.bound--
			return one(r)
		}
		ex.specErr("mapdel: not a modelled map")
		return one(m)
	case "samedom":
		a := ex.eval(st, call.Args[0], sc)
		b := ex.eval(st, call.Args[1], sc)
		if a.Sh.Kind == "map" && b.Sh.Kind == "map" {
			return one(ex.boolVal(and(eq(a.kid("dom").S, b.kid("dom").S), eq(a.kid("card").S, b.kid("card").S))))
		}
		return one(ex.boolVal("true"))
	case "isType":
		v := ex.eval(st, call.Args[0], sc)
		t := ex.resolveType(call.Args[1], sc)
		if t != nil && v.Sh != nil && v.Sh.IsLeaf() && v.Sh.Leaf == "Int" {
			if g, ok := ex.eng.cs.Ghosts["dynType"]; ok {
				// a non-empty interface value (an object reference): its dynamic type is the ghost dynType(ref),
				// which is written at allocation; objects that already existed have an unknown one
				s0 := st
				if sc != nil && sc.inOld {
					s0 = sc.old
				}
				cur := ex.readLoc(s0, ex.ghostLoc(g, []*Val{{S: v.S}}))
				return one(ex.boolVal(and("(not (= "+v.S+" 0))", eq(cur.S, fmt.Sprint(typeID(t))))))
			}
		}
		if t == nil || v.Sh == nil || v.Sh.Kind != "any" {
			ex.specErr("isType(v, T): v must be an `any` value and T a type")
			return one(ex.boolVal("false"))
		}
		return one(ex.boolVal(and(eq(v.kid("tag").S, fmt.Sprint(tagOther)), eq(v.kid("ty").S, fmt.Sprint(typeID(t))))))
	case "result0of", "result1of", "result2of":
		v := ex.eval(st, call.Args[0], sc)
		i := int(name[6] - '0')
		if v.Sh != nil && v.Sh.Kind == "tuple" && i < len(v.Kids) {
			return one(v.Kids[i])
		}
		ex.specErr("%s: argument is not a multi-value call", name)
		return one(ex.freshVal(nil, "tuple"))
	case "callsOf":
		// number of calls made so far through function values of the given (named) function type
		t := ex.resolveType(call.Args[0], sc)
		g, ok := ex.eng.cs.Ghosts["fnCallsT"]
		if t == nil || !ok {
			ex.specErr("callsOf(T): T must be a function type and ghost fnCallsT(int) int must be declared")
			return one(ex.intVal("0", types.Typ[types.Int]))
		}
		s := st
		if sc.inOld {
			s = sc.old
		}
		return one(ex.retype(ex.readLoc(s, ex.ghostLoc(g, []*Val{{S: fmt.Sprint(typeID(t))}})), types.Typ[types.Int]))
	case "implements":
		v := ex.eval(st, call.Args[0], sc)
		t := ex.resolveType(call.Args[1], sc)
		if t == nil || v.Sh == nil || v.Sh.Kind != "any" {
			ex.specErr("implements(v, I): v must be an `any` value and I an interface type")
			return one(ex.boolVal("false"))
		}
		_, ok := ex.typeAssert(st, v, t)
		return one(ex.boolVal(ok))
	case "refOf":
		v := ex.eval(st, call.Args[0], sc)
		if v.Sh != nil && v.Sh.Kind == "any" {
			return one(&Val{Sh: leafShape(types.Typ[types.UnsafePointer], "Int"), T: types.Typ[types.UnsafePointer], S: v.kid("ref").S})
		}
		return one(v)
	case "fnName":
		// fnName(f): the qualified name of the function or method a function value denotes, when that is known
		// where the call is made (r.queryTokenChecker -> "route.(*Router).queryTokenChecker"); "" otherwise
		if len(call.Args) == 1 {
			v := ex.eval(st, call.Args[0], sc)
			name := ""
			if v != nil && v.Fn != nil && v.Fn.Obj != nil {
				name = funcRef(v.Fn.Obj)
			}
			return one(&Val{Sh: leafShape(types.Typ[types.String], "String"), T: types.Typ[types.String], S: smtString(name)})
		}
		ex.specErr("fnName takes one argument")
		return one(ex.freshVal(nil, "fnName"))
	case "wallclock":
		// wallclock(k): the k-th reading of the wall clock (time.Now / time.Since) the function under
		// verification has taken, in execution order (1-based); unconstrained when there is no such reading
		if len(call.Args) == 1 {
			if lit, ok := call.Args[0].(*ast.BasicLit); ok {
				if k, err := strconv.Atoi(lit.Value); err == nil && k >= 1 {
					if k <= len(ex.nowVals) {
						return one(ex.nowVals[k-1])
					}
					if tt := ex.eng.resolveTypeName("time.Time", ""); tt != nil {
						return one(ex.freshVal(tt, "wallclock"))
					}
				}
			}
		}
		ex.specErr("wallclock(k): k must be a positive literal")
		return one(ex.freshVal(nil, "wallclock"))
	case "nth":
		// nth(k, f(args)): the k-th result of a call with several results
		if len(call.Args) == 2 {
			if lit, ok := call.Args[0].(*ast.BasicLit); ok {
				if k, err := strconv.Atoi(lit.Value); err == nil {
					if inner, ok := ast.Unparen(call.Args[1]).(*ast.CallExpr); ok {
						vs := ex.evalCall(st, inner, sc)
						if k >= 0 && k < len(vs) {
							return one(vs[k])
						}
					}
				}
			}
		}
		ex.specErr("nth(k, call): k must be a literal index into the results of the call")
		return one(ex.freshVal(nil, "nth"))
	case "asPtr", "asType":
		v := ex.eval(st, call.Args[0], sc)
		t := ex.resolveType(call.Args[1], sc)
		if t != nil && v.Sh != nil && v.Sh.IsLeaf() && v.Sh.Leaf == "Int" && name == "asPtr" {
			if _, isPtr := t.Underlying().(*types.Pointer); isPtr {
				isRef := false
				if b, isB := v.T.Underlying().(*types.Basic); isB && b.Kind() == types.UnsafePointer {
					isRef = true
				}
				if pt, isP := v.T.Underlying().(*types.Pointer); isP {
					if st0, isS := pt.Elem().Underlying().(*types.Struct); isS && st0.NumFields() == 0 {
						isRef = true
					}
				}
				if isRef {
					// a ghost of result type `ref`: an object reference viewed at the given pointer type
					return one(&Val{Sh: ex.eng.sh.shapeOf(t), T: t, S: v.S})
				}
				if _, isIface := v.T.Underlying().(*types.Interface); isIface {
					// a non-empty interface value is its object reference; the dynamic type is not tracked
					ex.assumption("asPtr on a " + types.TypeString(v.T, nil) + " value: its dynamic type is assumed to be " + types.TypeString(t, nil))
					return one(ex.retype(v, t))
				}
			}
		}
		if t == nil || v.Sh == nil || v.Sh.Kind != "any" {
			ex.specErr("asPtr(v, T): v must be an `any` value and T a type")
			return one(ex.freshVal(t, "asptr"))
		}
		r, _ := ex.typeAssert(st, v, t)
		return one(r)
	case "isFresh":
		// the object was allocated during the call (it did not exist in the caller's entry state)
		v := ex.eval(st, call.Args[0], sc)
		return one(ex.boolVal("(> " + v.S + " " + ex.eng.alloc0() + ")"))
	case "atoi":
		// numeric value of a string of decimal digits, -1 otherwise (SMT-LIB str.to_int)
		v := ex.eval(st, call.Args[0], sc)
		return one(&Val{Sh: leafShape(types.Typ[types.UntypedInt], "Int"), T: types.Typ[types.UntypedInt], S: "(str.to_int " + v.S + ")"})
	case "clockNow":
		c := ex.eval(st, call.Args[0], sc)
		return one(ex.clockNow(st, c, nil, sc))
	case "toInt":
		// mathematical integer of an integer-typed value (no conversion semantics)
		v := ex.eval(st, call.Args[0], sc)
		return one(&Val{Sh: leafShape(types.Typ[types.UntypedInt], "Int"), T: types.Typ[types.UntypedInt], S: v.S})
	case "toReal":
		v := ex.eval(st, call.Args[0], sc)
		if v.Sh.Leaf == "Real" {
			return one(v)
		}
		return one(&Val{Sh: leafShape(types.Typ[types.Float64], "Real"), T: types.Typ[types.Float64], S: "(to_real " + v.S + ")"})
	case "isNil":
		v := ex.eval(st, call.Args[0], sc)
		if v.Sh.Kind == "any" {
			return one(ex.boolVal(eq(v.kid("tag").S, "0")))
		}
		return one(ex.boolVal(eq(v.S, "0")))
	case "tag":
		v := ex.eval(st, call.Args[0], sc)
		if v.Sh.Kind == "any" {
			return one(v.kid("tag"))
		}
		return one(ex.intVal("7", types.Typ[types.Int]))
	case "isInt64", "isInt", "isUint64", "isFloat64", "isFloat32", "isString", "isBool", "isOther":
		v := ex.eval(st, call.Args[0], sc)
		if v.Sh == nil || v.Sh.Kind != "any" {
			ex.specErr("%s: argument is not an `any` value (%v)", name, v.T)
			return one(ex.boolVal("false"))
		}
		tg := map[string]int{"isInt64": tagInt64, "isInt": tagInt, "isUint64": tagUint64, "isFloat64": tagFloat, "isFloat32": tagF32, "isString": tagString, "isBool": tagBool, "isOther": tagOther}[name]
		return one(ex.boolVal(eq(v.kid("tag").S, fmt.Sprint(tg))))
	case "anyInt", "anyFloat", "anyString", "anyBool":
		v := ex.eval(st, call.Args[0], sc)
		if v.Sh.Kind != "any" {
			ex.specErr("%s: argument is not an `any` value", name)
			return one(ex.freshVal(nil, "any"))
		}
		f := map[string]string{"anyInt": "i", "anyFloat": "r", "anyString": "s", "anyBool": "b"}[name]
		return one(v.kid(f))
	}
	if g, ok := ex.eng.cs.Ghosts[name]; ok {
		var args []*Val
		for _, a := range call.Args {
			args = append(args, ex.eval(st, a, sc))
		}
		if name == "owns" && len(args) == 1 && args[0].Loc != nil && !args[0].Loc.Heap {
			// a pointer to a local copy: nobody else can hold it yet
			return one(ex.boolVal("true"))
		}
		s := st
		if sc.inOld {
			s = sc.old
		}
		loc := ex.ghostLoc(g, args)
		v := ex.readLoc(s, loc)
		if len(g.Params) > 1 && len(args) > 1 {
			v = ex.selectVal(v, args[1].S)
		}
		rt := ex.eng.ghostResultType(g)
		return one(ex.retype(v, rt))
	}
	if sf, ok := ex.eng.cs.Specs[name]; ok {
		var args []*Val
		for _, a := range call.Args {
			args = append(args, ex.eval(st, a, sc))
		}
		return one(ex.applySpecFn(st, sf, args, sc))
	}
	return nil, false
}

func (ex *Exec) applySpecFn(st *State, sf *SpecFn, args []*Val, sc *SpecCtx) *Val {
	if len(args) != len(sf.Params) {
		ex.specErr("spec %s: wrong number of arguments", sf.Name)
		return ex.freshVal(nil, "spec")
	}
	pkg := ex.eng.typesPkg(sf.Pkg)
	n := &SpecCtx{old: sc.old, binds: map[string]*Val{}, subst: map[types.Object]*Val{}, pkg: pkg, inOld: sc.inOld}
	if q, ok := sc.binds["$seen"]; ok {
		n.binds["$seen"] = q
	}
	rt := ex.eng.resolveTypeName(sf.Result, sf.Pkg)
	if sf.Uninterp {
		var sorts, terms []string
		for i, p := range sf.Params {
			pt := ex.eng.resolveTypeName(p.Type, sf.Pkg)
			s, ok := ex.eng.sh.keySort(pt)
			if !ok {
				ex.specErr("spec %s: parameter %s must be scalar", sf.Name, p.Name)
				s = "Int"
			}
			sorts = append(sorts, s)
			a := args[i]
			if a.C != nil && pt != nil {
				a = ex.constVal(a.C, pt)
			}
			terms = append(terms, a.S)
		}
		rs, _ := ex.eng.sh.keySort(rt)
		fname := "sf_" + smtName(sf.Name)
		ex.eng.smt.declFun(fname, "(declare-fun "+fname+" ("+strings.Join(sorts, " ")+") "+rs+")")
		if lo, hi, ok := intRange(rt); ok {
			var bs, as []string
			for i, s := range sorts {
				bs = append(bs, fmt.Sprintf("(x%d %s)", i, s))
				as = append(as, fmt.Sprintf("x%d", i))
			}
			app := "(" + fname + " " + strings.Join(as, " ") + ")"
			ex.eng.smt.addFunAx(fname, "(forall ("+strings.Join(bs, " ")+") (! (and (<= "+lo+" "+app+") (<= "+app+" "+hi+")) :pattern ("+app+")))")
		}
		return &Val{Sh: ex.eng.sh.shapeOf(rt), T: rt, S: "(" + fname + " " + strings.Join(terms, " ") + ")"}
	}
	for i, p := range sf.Params {
		a := args[i]
		pt := ex.eng.resolveTypeName(p.Type, sf.Pkg)
		if pt != nil {
			if a.C != nil && isUntyped(a.T) {
				a = ex.constVal(a.C, pt)
			} else if a.T == nil {
				a = ex.retype(a, pt)
			}
		}
		n.binds[p.Name] = a
	}
	if sf.Expr == nil {
		return ex.freshVal(rt, "spec")
	}
	saved := ex.curClause
	ex.curClause = "spec " + sf.Name
	v := ex.eval(st, sf.Expr, n)
	ex.curClause = saved
	if rt != nil && v.Sh != nil && v.Sh.IsLeaf() {
		if v.C != nil && isUntyped(v.T) {
			return ex.constVal(v.C, rt)
		}
		return ex.retype(v, rt)
	}
	return v
}

// evalClause evaluates a contract clause of the function under verification.
func (ex *Exec) evalClause(st *State, cl *Clause, old *State, pos token.Pos, extra map[string]*Val, results []*Val) string {
	return ex.evalClauseVal2(st, cl, old, pos, extra, results).S
}

func (ex *Exec) evalClauseVal(st *State, cl *Clause, old *State, pos token.Pos, extra map[string]*Val) *Val {
	return ex.evalClauseVal2(st, cl, old, pos, extra, nil)
}

func (ex *Exec) evalClauseVal2(st *State, cl *Clause, old *State, pos token.Pos, extra map[string]*Val, results []*Val) *Val {
	if cl.Expr == nil {
		return ex.boolVal("true")
	}
	sc := ex.ownCtx(old, pos)
	for k, v := range ex.lets {
		sc.binds[k] = v
	}
	for k, v := range extra {
		sc.binds[k] = v
	}
	if results != nil && ex.fn.Obj != nil {
		bindResults(sc, ex.fn.Obj, results)
	} else if results != nil {
		for i, r := range results {
			sc.binds[fmt.Sprintf("result%d", i)] = r
		}
		if len(results) > 0 {
			sc.binds["result"] = results[0]
		}
	}
	ex.specDepth++
	saved := ex.curClause
	ex.curClause = cl.Kind + " " + cl.Text
	// in a postcondition a parameter denotes the value the caller passed (Go parameters are assignable
	// locals; the caller only ever sees the entry value, and that is what the clause is instantiated with
	// at call sites)
	savedPE := ex.paramsAtEntry
	ex.paramsAtEntry = cl.Kind == "ensures" && results != nil && ex.contract != nil && ex.contract.Frag == "" && old != nil
	v := ex.eval(st, cl.Expr, sc)
	ex.paramsAtEntry = savedPE
	ex.curClause = saved
	ex.specDepth--
	return v
}

// ownCtx: spec context for the function under verification.
func (ex *Exec) ownCtx(old *State, pos token.Pos) *SpecCtx {
	sc := &SpecCtx{old: old, binds: map[string]*Val{}, subst: map[types.Object]*Val{}}
	if ex.fn.Pkg != nil {
		sc.pkg = ex.fn.Pkg.Types
		if pos.IsValid() {
			sc.scope = ex.fn.Pkg.Types.Scope().Innermost(pos)
			sc.pos = pos
		}
	}
	if ex.fn.Sig != nil && ex.fn.Sig.Recv() != nil {
		sc.binds["this"] = nil
		delete(sc.binds, "this")
	}
	return sc
}

// ---------------------------------------------------------------------------
// Builtins

func (ex *Exec) builtin(st *State, name string, call *ast.CallExpr, sc *SpecCtx) []*Val {
	one := func(v *Val) []*Val { return []*Val{v} }
	intT := types.Typ[types.Int]
	switch name {
	case "len", "cap":
		x := ex.eval(st, call.Args[0], sc)
		if x.C != nil && x.C.Kind() == constant.String {
			return one(ex.constVal(constant.MakeInt64(int64(len(constant.StringVal(x.C)))), intT))
		}
		if x.T != nil {
			if p, ok := x.T.Underlying().(*types.Pointer); ok {
				if at, ok := p.Elem().Underlying().(*types.Array); ok {
					return one(ex.intVal(fmt.Sprint(at.Len()), intT))
				}
			}
		}
		if x.Sh == nil {
			return one(ex.freshVal(intT, "len"))
		}
		switch x.Sh.Kind {
		case "slice":
			if name == "cap" {
				c := ex.freshVal(intT, "cap")
				st.assume("(>= " + c.S + " " + x.kid("len").S + ")")
				return one(c)
			}
			return one(ex.retype(x.kid("len"), intT))
		case "array":
			return one(ex.intVal(fmt.Sprint(x.T.Underlying().(*types.Array).Len()), intT))
		case "map":
			return one(ex.retype(x.kid("card"), intT))
		case "leaf":
			if x.Sh.Leaf == "String" {
				return one(ex.intVal("(str.len "+x.S+")", intT))
			}
		}
		n := ex.freshVal(intT, "len")
		st.assume("(<= 0 " + n.S + ")")
		return one(n)
	case "append":
		s := ex.eval(st, call.Args[0], sc)
		rt := s.T
		if sc == nil {
			rt = ex.typeOf(call)
		}
		if s.Sh == nil || s.Sh.Kind != "slice" {
			if b, ok := s.T.(*types.Basic); ok && b.Kind() == types.UntypedNil && rt != nil {
				s = ex.zeroVal(rt)
			} else {
				return one(ex.freshVal(rt, "append"))
			}
		}
		if call.Ellipsis.IsValid() {
			o := ex.eval(st, call.Args[1], sc)
			if o.Sh != nil && o.Sh.Kind == "slice" {
				return one(ex.appendSlice(st, s, o, rt))
			}
			if o.Sh != nil && o.Sh.IsLeaf() && o.Sh.Leaf == "String" {
				r := ex.freshVal(rt, "appendstr")
				st.assume(eq(r.kid("len").S, "(+ "+s.kid("len").S+" (str.len "+o.S+"))"))
				return one(r)
			}
			return one(ex.freshVal(rt, "append"))
		}
		n := s.kid("len").S
		arr := s.kid("elems")
		et := elemType(s.T)
		for i, a := range call.Args[1:] {
			v := ex.assignConv(st, ex.eval(st, a, sc), et, a.Pos())
			arr = ex.storeVal(arr, "(+ "+n+" "+fmt.Sprint(i)+")", v)
		}
		out := &Val{Sh: s.Sh, T: rt, Kids: []*Val{ex.intVal(ex.def("len", "Int", fmt.Sprintf("(+ %s %d)", n, len(call.Args)-1)), intT), arr}}
		return one(out)
	case "make":
		t := ex.typeOf(call)
		if sc != nil {
			t = ex.resolveType(call.Args[0], sc)
		}
		if t == nil {
			return one(ex.freshVal(nil, "make"))
		}
		switch t.Underlying().(type) {
		case *types.Map:
			for _, a := range call.Args[1:] {
				ex.eval(st, a, sc)
			}
			return one(ex.emptyMap(t))
		case *types.Slice:
			sh := ex.eng.sh.shapeOf(t)
			n := ex.eval(st, call.Args[1], sc)
			if sc == nil {
				ex.safety(st, "make-size", call.Pos(), "(<= 0 "+n.S+")")
				if ex.boundMake {
					// the allocation must be bounded by a constant or by what the contract names
					// as the bound (typically the length of the input still to be read)
					bound := "1073741824"
					if ex.contract != nil {
						for _, cl := range ex.contract.Clauses {
							if cl.Kind == "assert" && strings.HasPrefix(cl.Text, "makebound ") {
								if e, err := parseSpecExpr(strings.TrimPrefix(cl.Text, "makebound ")); err == nil {
									bsc := ex.ownCtx(ex.entry, call.Pos())
									ex.specDepth++
									bound = ex.eval(st, e, bsc).S
									ex.specDepth--
								}
							}
						}
					}
					ex.safety(st, "make-bounded", call.Pos(), "(<= "+n.S+" "+bound+")")
				}
				if len(call.Args) > 2 {
					c := ex.eval(st, call.Args[2], sc)
					ex.safety(st, "make-cap", call.Pos(), "(<= "+n.S+" "+c.S+")")
				}
			}
			arr := ex.zeroSh(sh.kid("elems"), nil)
			return one(&Val{Sh: sh, T: t, Kids: []*Val{ex.retype(n, intT), arr}})
		case *types.Chan:
			if len(call.Args) > 1 && sc == nil {
				n := ex.eval(st, call.Args[1], sc)
				ex.safety(st, "make-chan-size", call.Pos(), "(<= 0 "+n.S+")")
			}
			c := ex.freshVal(t, "chan")
			st.assume("(< 0 " + c.S + ")")
			return one(c)
		}
		return one(ex.freshVal(t, "make"))
	case "new":
		t := ex.resolveType(call.Args[0], sc)
		if t == nil {
			return one(ex.freshVal(ex.typeOf(call), "new"))
		}
		return one(ex.alloc(st, ex.zeroVal(t), t))
	case "delete":
		m := ex.eval(st, call.Args[0], sc)
		k := ex.eval(st, call.Args[1], sc)
		if m.Sh != nil && m.Sh.Kind == "map" {
			mt := m.T.Underlying().(*types.Map)
			k = ex.assignConv(st, k, mt.Key(), call.Pos())
			ex.assignBack(st, call.Args[0], ex.mapDelete(m, k))
		} else {
			ex.havocExpr(st, call.Args[0])
		}
		return nil
	case "min", "max":
		var acc *Val
		for _, a := range call.Args {
			v := ex.eval(st, a, sc)
			if acc == nil {
				acc = v
				continue
			}
			x, y := ex.coerceNum(acc, v)
			t := x.T
			if t == nil || isUntyped(t) {
				t = y.T
			}
			op := "<="
			if name == "max" {
				op = ">="
			}
			if x.C != nil && y.C != nil {
				tok := token.LEQ
				if name == "max" {
					tok = token.GEQ
				}
				if constant.Compare(x.C, tok, y.C) {
					acc = x
				} else {
					acc = y
				}
				continue
			}
			acc = &Val{Sh: x.Sh, T: t, S: ex.def("mm", x.Sh.Leaf, "(ite ("+op+" "+x.S+" "+y.S+") "+x.S+" "+y.S+")")}
		}
		return one(acc)
	case "panic":
		for _, a := range call.Args {
			ex.eval(st, a, sc)
		}
		if sc == nil {
			ex.safety(st, "panic", call.Pos(), "false")
		}
		st.assume("false")
		return nil
	case "copy":
		d := ex.eval(st, call.Args[0], sc)
		s := ex.eval(st, call.Args[1], sc)
		_ = s
		if d.Sh != nil && d.Sh.Kind == "slice" {
			nv := ex.freshVal(d.T, "copied")
			st.assume(eq(nv.kid("len").S, d.kid("len").S))
			ex.assignBack(st, call.Args[0], nv)
		}
		return one(ex.freshVal(intT, "copyn"))
	case "close":
		ch := ex.eval(st, call.Args[0], sc)
		// ghost closedN(ch) (when declared): close of a nil or already closed channel panics
		if g, ok := ex.eng.cs.Ghosts["closedN"]; ok && sc == nil && ch.Sh != nil && ch.Sh.IsLeaf() {
			loc := ex.ghostLoc(g, []*Val{ch})
			n := ex.readLoc(st, loc)
			ex.safety(st, "close-of-closed-channel", call.Pos(), and(not(eq(ch.S, "0")), eq(n.S, "0")))
			ex.writeLoc(st, loc, ex.intVal("(+ "+n.S+" 1)", types.Typ[types.Int]))
		}
		return nil
	case "clear":
		m := ex.eval(st, call.Args[0], sc)
		if m.Sh != nil && m.Sh.Kind == "map" {
			ex.assignBack(st, call.Args[0], ex.emptyMap(m.T))
		} else {
			ex.havocExpr(st, call.Args[0])
		}
		return nil
	case "print", "println":
		return nil
	case "recover":
		return one(ex.freshVal(ex.typeOf(call), "recover"))
	}
	ex.note("unmodelled builtin %s", name)
	return one(ex.freshVal(ex.typeOf(call), name))
}

func (ex *Exec) appendSlice(st *State, s, o *Val, rt types.Type) *Val {
	n := s.kid("len").S
	m := o.kid("len").S
	if n == "0" && s.kid("elems") != nil && o.kid("elems") != nil && shapesCompatible(s.kid("elems").Sh, o.kid("elems").Sh) {
		// appending to an empty slice: the result holds exactly the appended elements; its backing array is
		// identified with the source's (elements beyond the length are not observable without re-slicing to cap)
		sh := s.Sh
		return &Val{Sh: sh, T: rt, Kids: []*Val{ex.intVal(m, types.Typ[types.Int]), o.kid("elems")}}
	}
	r := ex.freshVal(rt, "appended")
	if rt == nil {
		r = ex.freshValSh(s.Sh, "appended")
	}
	st.assume(eq(r.kid("len").S, "(+ "+n+" "+m+")"))
	// appending to an empty slice: the backing array is identified with the source's (see above)
	if r.kid("elems") != nil && o.kid("elems") != nil && r.kid("elems").Sh.IsLeaf() && o.kid("elems").Sh.IsLeaf() && r.kid("elems").Sh.Leaf == o.kid("elems").Sh.Leaf {
		st.assume(implies(eq(n, "0"), eq(r.kid("elems").S, o.kid("elems").S)))
	}
	// element facts, leafwise, for leaf element arrays only
	ra, sa, oa := r.kid("elems"), s.kid("elems"), o.kid("elems")
	var walk func(ra, sa, oa *Val)
	walk = func(ra, sa, oa *Val) {
		if ra.Sh.IsLeaf() {
			st.assume("(forall ((i Int)) (! (=> (and (<= 0 i) (< i " + n + ")) (= (select " + ra.S + " i) (select " + sa.S + " i))) :pattern ((select " + ra.S + " i))))")
			st.assume("(forall ((i Int)) (! (=> (and (<= " + n + " i) (< i (+ " + n + " " + m + "))) (= (select " + ra.S + " i) (select " + oa.S + " (- i " + n + ")))) :pattern ((select " + ra.S + " i))))")
			return
		}
		for i := range ra.Kids {
			if i < len(sa.Kids) && i < len(oa.Kids) {
				walk(ra.Kids[i], sa.Kids[i], oa.Kids[i])
			}
		}
	}
	if ra != nil && sa != nil && oa != nil && shapesCompatible(ra.Sh, sa.Sh) && shapesCompatible(ra.Sh, oa.Sh) {
		walk(ra, sa, oa)
	}
	return r
}

func (ex *Exec) chanSend(st *State, ch, v *Val, pos token.Pos) {
	// ghost: number of sends on the channel and the values sent
	if g, ok := ex.eng.cs.Ghosts["sentN"]; ok {
		loc := ex.ghostLoc(g, []*Val{ch})
		n := ex.readLoc(st, loc)
		if ga, ok := ex.eng.cs.Ghosts["sentAt"]; ok && v.Sh != nil && v.Sh.IsLeaf() && v.Sh.Leaf == "Int" {
			la := ex.ghostLoc(ga, []*Val{ch, n})
			arr := ex.readLoc(st, la)
			ex.writeLoc(st, la, ex.storeVal(arr, n.S, v))
		}
		// a struct value: each scalar field f is logged in ghost sent_f(ch, n) when that ghost is declared
		if v.Sh != nil && !v.Sh.IsLeaf() && v.Sh.Kind == "struct" {
			for i, name := range v.Sh.Names {
				if gf, ok := ex.eng.cs.Ghosts["sent_"+name]; ok && i < len(v.Kids) && v.Kids[i].Sh != nil && v.Kids[i].Sh.IsLeaf() {
					la := ex.ghostLoc(gf, []*Val{ch, n})
					arr := ex.readLoc(st, la)
					ex.writeLoc(st, la, ex.storeVal(arr, n.S, v.Kids[i]))
				}
			}
		}
		ex.writeLoc(st, loc, ex.intVal("(+ "+n.S+" 1)", types.Typ[types.Int]))
	}
}


// pureFieldCall: a call through a func-typed struct field declared `purefn pkg.Type.Field`: the result is an
// uninterpreted function of the function value and the arguments; nothing else happens.
func (ex *Exec) pureFieldCall(st *State, fun ast.Expr, fv *Val, args []*Val, sc *SpecCtx, resT types.Type) ([]*Val, bool) {
	sel, ok := fun.(*ast.SelectorExpr)
	if !ok || fv == nil || fv.Sh == nil || !fv.Sh.IsLeaf() || len(ex.eng.cs.PureFns) == 0 {
		return nil, false
	}
	x := ex.eval(st, sel.X, sc)
	if x == nil || x.T == nil {
		return nil, false
	}
	t := x.T
	if p, isP := t.Underlying().(*types.Pointer); isP {
		t = p.Elem()
	}
	n := namedOf(t)
	if n == nil {
		return nil, false
	}
	key := heapTypeKey(n) + "." + sel.Sel.Name
	if !ex.eng.cs.PureFns[key] {
		return nil, false
	}
	sig, ok := fv.T.Underlying().(*types.Signature)
	if !ok || sig.Results().Len() != 1 {
		return nil, false
	}
	rt := sig.Results().At(0).Type()
	rsh := ex.eng.sh.shapeOf(rt)
	if !rsh.IsLeaf() {
		return nil, false
	}
	sorts, terms := []string{"Int"}, []string{fv.S}
	for _, a := range args {
		s2, t2 := ex.flattenArg(a)
		sorts = append(sorts, s2...)
		terms = append(terms, t2...)
	}
	fname := "uf_apply_" + smtName(key)
	ex.eng.smt.declFun(fname, "(declare-fun "+fname+" ("+strings.Join(sorts, " ")+") "+rsh.Leaf+")")
	ex.assumption("functions held in " + key + " are pure: a call yields a value determined by the function and its arguments and has no effect (directive purefn)")
	ex.modelUsed["purefn:"+key]++
	return []*Val{ex.loaded(&Val{Sh: rsh, T: rt, S: "(" + fname + " " + strings.Join(terms, " ") + ")"})}, true
}

// flattenArg: the SMT terms that identify an argument value (scalars, the seven components of an `any`,
// length and contents of a slice of scalars).
func (ex *Exec) flattenArg(a *Val) (sorts, terms []string) {
	if a == nil || a.Sh == nil {
		return nil, nil
	}
	switch {
	case a.Sh.IsLeaf():
		return []string{a.Sh.Leaf}, []string{ex.ptrIdentity(a)}
	case a.Sh.Kind == "any":
		// the components that matter for the dynamic type the value holds (two interface values that are ==
		// must give the same terms): payload slots not used by the tag are blanked
		tag := a.kid("tag").S
		isT := func(ts ...int) string {
			var cs []string
			for _, t := range ts {
				cs = append(cs, eq(tag, fmt.Sprint(t)))
			}
			return or(cs...)
		}
		sorts = []string{"Int", "Int", "Real", "String", "Bool", "Int", "Int"}
		terms = []string{tag,
			ite(isT(tagInt64, tagInt, tagUint64, tagOther), a.kid("i").S, "0"),
			ite(isT(tagFloat, tagF32), a.kid("r").S, "0.0"),
			ite(isT(tagString, tagOther), a.kid("s").S, "\"\""),
			ite(isT(tagBool), a.kid("b").S, "false"),
			ite(isT(tagOther), a.kid("ref").S, "0"),
			ite(isT(tagOther), a.kid("ty").S, "0")}
		return
	case a.Sh.Kind == "slice" && a.kid("elems").Sh.IsLeaf():
		return []string{"Int", a.kid("elems").Sh.Leaf}, []string{a.kid("len").S, a.kid("elems").S}
	}
	return nil, nil
}


// ptrIdentity: the term that identifies a pointer value. A pointer into the middle of an object (the address of
// an embedded struct field, e.g. &span.Data) is identified by the object and the field path, so that getters and
// function contracts applied to s1.Data and s2.Data are not conflated.
func (ex *Exec) ptrIdentity(v *Val) string {
	if v == nil || v.Loc == nil || v.Sh == nil || !v.Sh.IsLeaf() || v.Sh.Leaf != "Int" {
		if v == nil {
			return "0"
		}
		return v.S
	}
	l := v.Loc
	if l.Heap {
		ex.eng.smt.declFun("uf_fieldaddr", "(declare-fun uf_fieldaddr (Int Int) Int)")
		return "(uf_fieldaddr " + l.Ref + " " + fmt.Sprint(ex.eng.pathID(l.TKey+"#"+strings.Join(l.Path, "."))) + ")"
	}
	if l.Obj != nil {
		ex.eng.smt.declFun("uf_localaddr", "(declare-fun uf_localaddr (Int Int) Int)")
		return "(uf_localaddr " + fmt.Sprint(ex.eng.pathID(fmt.Sprintf("local:%s@%d", l.Obj.Name(), l.Obj.Pos()))) + " " + fmt.Sprint(ex.eng.pathID(strings.Join(l.Path, "."))) + ")"
	}
	return v.S
}
