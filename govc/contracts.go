package main

// Contract files: `//@` comment lines in <pkg>/verif_contracts.go (build tag verif).

import (
	"fmt"
	"go/ast"
	"go/parser"
	"os"
	"path/filepath"
	"regexp"
	"strconv"
	"strings"
)

type Clause struct {
	Kind    string // requires, ensures, modifies, let, invariant, decreases, cover, assert
	Name    string // optional label
	Text    string
	Expr    ast.Expr
	Loop    int    // loop ordinal for invariant/decreases
	Finding string // known-finding id if the clause is expected to fail
	Line    int
	File    string
	LetName string
	Props   []string // restricts the clause to these properties (empty: all of the contract's)
}

type Contract struct {
	Kind     string // contract | assume | fragment
	Func     string // function reference
	Props    []string
	Clauses  []*Clause
	Arith    string // nooverflow (default) | math | wraps
	Strings  string
	Frag     string // "select N case K" / "loop N body"
	File     string
	Line     int
	Pure     bool // assumed contracts: no effect on heap at all
	Havoc    bool // call havocs whole heap in addition to modifies (unknown effects)
	Inline   bool // callers inline the body instead of using the contract
	NoFrame  bool
	NoInv    bool // object invariants of the receiver are neither assumed nor checked (thin safety contracts)
	Unshared bool
	Getter   bool // pure getter: the result is a function of the receiver (and its ghost version)
	LocalCalls bool // calls through function values only affect the objects passed to them
	HavocHeap  bool // may change any program state, but ghost effect logs only as declared
	Opaque     bool // callers under verification see only that the results are determined by the arguments (attribute function) and the preconditions; the postconditions are for lemmas, which export what callers need
	Function   bool // deterministic function of its scalar arguments (same arguments, same results)
}

// Confine: `confine pkg.Type props P init: ... thread: ...` - every field of the struct that no other discipline
// covers (final, guarded_by, a self-synchronising type) is either assigned only by the init functions (which run
// before the type's goroutines exist) or touched only by the init functions and the functions of one goroutine.
type Confine struct {
	Type   string
	Props  []string
	Init   map[string]bool
	Thread map[string]bool
}

// GoTracked: `gotracked pkg.Type props P wait: wg…` - every goroutine a method of the type starts is announced, in
// the statement just before the `go`, to one of the wait groups that the type's Stop waits for.
type GoTracked struct {
	Type  string
	Props []string
	Wait  map[string]bool
}

type SpecFn struct {
	Name   string
	Params []specParam
	Result string
	Text   string
	Expr   ast.Expr
	Pkg    string // package path in whose scope it is evaluated
	File   string
	Line   int
	Uninterp bool
}

type specParam struct{ Name, Type string }

type GhostDecl struct {
	Name   string
	Params []string // Go types of index params (ref/int/string)
	Result string   // Go type
	Pkg    string
}

type Lemma struct {
	Name    string
	Props   []string
	Text    string
	Expr    ast.Expr
	Pkg     string
	File    string
	Line    int
	Finding string
	Uses    []string // function refs whose contract posts are assumed (by name)
}

type ObjInv struct {
	Type string // pkg.Type
	Name string
	Text string
	Expr ast.Expr
	Pkg  string
	File string
	Line int
}

type ContractSet struct {
	Contracts map[string]*Contract   // by funcref (contract and assume)
	Fragments []*Contract
	Specs     map[string]*SpecFn
	Ghosts    map[string]*GhostDecl
	Lemmas    []*Lemma
	ObjInvs   map[string][]*ObjInv
	Guarded   map[string]string // "pkg.Type.field" -> mutex field name
	Owned     []string
	Finals    []string
	Standins  []Standin
	Locks     []LockDiscipline
	Confines  []Confine
	GoTracked []GoTracked
	BoxedNonZero map[string][]string // `boxednonzero pkg.Type.Field props P`: type key + "." + field -> props
	Unopaque  []Unopaque
	NilReset   map[string]bool // `nilreset pkg.Type.field`: a slice field that, when emptied, must become nil (never a reslice of itself)
	FinalInit  map[string]string // final field -> the function that initialises it
	InsertOnly map[string]bool // `insertonly pkg.Type.field`: a shared map whose entries are only ever added, never replaced
	Sweeps    map[string]string // `sweep Cxx safety`: the check of Cxx also discharges the safety obligations of every contract listed under other properties
	PureFns   map[string]bool // `purefn pkg.Type.Field`: a func-typed field holding pure functions (deterministic in their arguments, no effect)
	KeyTypes  []string // struct types used as map keys: values are terms of an uninterpreted sort built by an injective constructor
	Files     []string
	Errors    []string
}

// Standin: a bounded cross-check (a Go test run through -overlay) of an ASSUMED contract
// against the real function. Labelled bounded in the evidence, never counted as proved.
type Standin struct {
	Func string // the assumed function
	Pkg  string // package directory relative to the repo
	File string // test file relative to /verif
	Test string
}

func newContractSet() *ContractSet {
	return &ContractSet{Contracts: map[string]*Contract{}, Specs: map[string]*SpecFn{}, Ghosts: map[string]*GhostDecl{}, ObjInvs: map[string][]*ObjInv{}, Guarded: map[string]string{}}
}

var clauseRe = regexp.MustCompile(`^(requires|domain|split|ensures|modifies|let|cover|assert|invariant|exits|decreases|ghostupdate)(\[[^\]]*\])?\s+(.*)$`)

func splitProps(s string) []string {
	var out []string
	for _, p := range strings.Split(s, ",") {
		p = strings.TrimSpace(p)
		if p != "" {
			out = append(out, p)
		}
	}
	return out
}

// loadContractFile parses one file. pkgPath is the short package path whose
// scope the file's expressions are evaluated in ("" for assumed/external files
// where each decl names its own package).
func (cs *ContractSet) loadContractFile(path string, pkgPath string) error {
	data, err := os.ReadFile(path)
	if err != nil {
		return err
	}
	cs.Files = append(cs.Files, path)
	return cs.loadContractText(path, pkgPath, string(data))
}

// Unopaque: for the listed properties, a named type that is normally an opaque reference is
// given its real (underlying) shape.
type Unopaque struct {
	Type  string
	Props []string
}

// LockDiscipline: every method of Type gets a thin, synthesized lock-discipline contract
// (see Engine.synthLockContracts).
type LockDiscipline struct {
	Type  string // pkg.Type
	Mutex string // mutex field
	Props []string
	Held  map[string]bool // methods that are called with the mutex already held
	WHeld map[string]bool // methods that are called with the mutex write-held
	Skip  map[string]bool
	Pkg   string
}

func (cs *ContractSet) loadContractText(path string, pkgPath string, text string) error {
	lines := strings.Split(text, "\n")
	var cur *Contract
	var lastClause *Clause
	var lastText *string
	errf := func(i int, f string, a ...any) {
		cs.Errors = append(cs.Errors, fmt.Sprintf("%s:%d: %s", path, i+1, fmt.Sprintf(f, a...)))
	}
	for i, raw := range lines {
		t := strings.TrimSpace(raw)
		if !strings.HasPrefix(t, "//@") {
			continue
		}
		t = strings.TrimSpace(t[3:])
		if t == "" || strings.HasPrefix(t, "#") {
			continue
		}
		// strip trailing comment introduced by " // "
		if k := strings.Index(t, " // "); k >= 0 {
			t = strings.TrimSpace(t[:k])
		}
		if strings.HasPrefix(t, "|") {
			// continuation
			if lastText != nil {
				*lastText += " " + strings.TrimSpace(t[1:])
			} else {
				errf(i, "continuation without clause")
			}
			continue
		}
		fields := strings.Fields(t)
		switch fields[0] {
		case "package":
			if len(fields) > 1 {
				pkgPath = fields[1]
			}
			cur = nil
			continue
		case "contract", "assume", "fragment":
			if len(fields) < 2 {
				errf(i, "missing function reference")
				continue
			}
			c := &Contract{Kind: fields[0], Func: fields[1], File: path, Line: i + 1, Arith: "nooverflow"}
			rest := fields[2:]
			for j := 0; j < len(rest); j++ {
				switch rest[j] {
				case "props":
					if j+1 < len(rest) {
						c.Props = splitProps(rest[j+1])
						j++
					}
				case "pure":
					c.Pure = true
				case "havoc":
					c.Havoc = true
				case "inline":
					c.Inline = true
				case "noframe":
					c.NoFrame = true
				case "unshared":
					c.Unshared = true
				case "getter":
					c.Getter = true
				case "localcalls":
					c.LocalCalls = true
				case "noinv":
					c.NoInv = true
				case "havocheap":
					c.HavocHeap = true
				case "function":
					c.Function = true
				case "opaque":
					c.Opaque = true
				case "select", "loop":
					// fragment selector: select N case K | loop N body
					if j+3 < len(rest)+0 && (rest[j+2] == "case") {
						c.Frag = strings.Join(rest[j:j+4], " ")
						j += 3
					} else if j+2 < len(rest)+0 && rest[j+2] == "body" {
						c.Frag = strings.Join(rest[j:j+3], " ")
						j += 2
					} else {
						errf(i, "bad fragment selector")
					}
				default:
					errf(i, "unknown contract attribute %q", rest[j])
				}
			}
			if c.Kind == "fragment" {
				cs.Fragments = append(cs.Fragments, c)
			} else {
				if _, dup := cs.Contracts[c.Func]; dup {
					errf(i, "duplicate contract for %s", c.Func)
				}
				cs.Contracts[c.Func] = c
			}
			cur = c
			lastClause, lastText = nil, nil
			continue
		case "spec":
			// spec name(params) type := expr      |  spec name(params) type uninterpreted
			sf, err := parseSpecDecl(strings.TrimSpace(t[4:]))
			if err != nil {
				errf(i, "%v", err)
				continue
			}
			sf.Pkg, sf.File, sf.Line = pkgPath, path, i+1
			cs.Specs[sf.Name] = sf
			cur = nil
			lastClause = nil
			lastText = &sf.Text
			continue
		case "ghost":
			// ghost name(T1, T2) R
			g, err := parseGhostDecl(strings.TrimSpace(t[5:]))
			if err != nil {
				errf(i, "%v", err)
				continue
			}
			g.Pkg = pkgPath
			cs.Ghosts[g.Name] = g
			cur = nil
			lastText = nil
			continue
		case "lemma":
			// lemma name [props X] [finding F] [uses f1,f2] : expr
			k := strings.Index(t, ":")
			if k < 0 {
				errf(i, "lemma needs ':'")
				continue
			}
			hdr := strings.Fields(t[5:k])
			lm := &Lemma{Pkg: pkgPath, File: path, Line: i + 1, Text: strings.TrimSpace(t[k+1:])}
			if len(hdr) == 0 {
				errf(i, "lemma needs a name")
				continue
			}
			lm.Name = hdr[0]
			for j := 1; j+1 < len(hdr); j += 2 {
				switch hdr[j] {
				case "props":
					lm.Props = splitProps(hdr[j+1])
				case "finding":
					lm.Finding = hdr[j+1]
				case "uses":
					lm.Uses = splitProps(hdr[j+1])
				}
			}
			cs.Lemmas = append(cs.Lemmas, lm)
			cur = nil
			lastText = &lm.Text
			continue
		case "objinv":
			// objinv pkg.Type name : expr(this)
			k := strings.Index(t, ":")
			if k < 0 || len(fields) < 3 {
				errf(i, "objinv Type name : expr")
				continue
			}
			oi := &ObjInv{Type: fields[1], Name: strings.TrimSuffix(fields[2], ":"), Text: strings.TrimSpace(t[k+1:]), Pkg: pkgPath, File: path, Line: i + 1}
			cs.ObjInvs[oi.Type] = append(cs.ObjInvs[oi.Type], oi)
			cur = nil
			lastText = &oi.Text
			continue
		case "purefn":
			if len(fields) < 2 {
				errf(i, "purefn pkg.Type.Field")
				continue
			}
			if cs.PureFns == nil {
				cs.PureFns = map[string]bool{}
			}
			cs.PureFns[fields[1]] = true
			continue
		case "keytype":
			// keytype <qualified struct type>
			if len(fields) != 2 {
				errf(i, "keytype type")
				continue
			}
			cs.KeyTypes = append(cs.KeyTypes, fields[1])
			cur = nil
			lastText = nil
			continue
		case "nilreset":
			if len(fields) != 2 {
				errf(i, "nilreset pkg.Type.field")
				continue
			}
			if cs.NilReset == nil {
				cs.NilReset = map[string]bool{}
			}
			cs.NilReset[fields[1]] = true
			cur = nil
			lastText = nil
			continue
		case "insertonly":
			if len(fields) != 2 {
				errf(i, "insertonly pkg.Type.field")
				continue
			}
			if cs.InsertOnly == nil {
				cs.InsertOnly = map[string]bool{}
			}
			cs.InsertOnly[fields[1]] = true
			cur = nil
			lastText = nil
			continue
		case "sweep":
			// sweep Cxx safety
			if len(fields) != 3 || fields[2] != "safety" {
				errf(i, "sweep Cxx safety")
				continue
			}
			if cs.Sweeps == nil {
				cs.Sweeps = map[string]string{}
			}
			cs.Sweeps[fields[1]] = fields[2]
			cur = nil
			lastText = nil
			continue
		case "unopaque":
			// unopaque <qualified type> props Cxx[,Cyy]
			if len(fields) != 4 || fields[2] != "props" {
				errf(i, "unopaque type props Cxx")
				continue
			}
			cs.Unopaque = append(cs.Unopaque, Unopaque{Type: fields[1], Props: splitProps(fields[3])})
			cur = nil
			lastText = nil
			continue
		case "lockdiscipline":
			// lockdiscipline pkg.Type mutexField props C35 [held: m1, m2] [skip: m3, m4]
			if len(fields) < 5 || fields[3] != "props" {
				errf(i, "lockdiscipline pkg.Type mutex props Cxx [held: ...] [skip: ...]")
				continue
			}
			ld := LockDiscipline{Type: fields[1], Mutex: fields[2], Props: splitProps(fields[4]), Held: map[string]bool{}, WHeld: map[string]bool{}, Skip: map[string]bool{}, Pkg: pkgPath}
			rest := " " + strings.Join(fields[5:], " ")
			for _, part := range []struct {
				tag string
				m   map[string]bool
			}{{" held:", ld.Held}, {"wheld:", ld.WHeld}, {"skip:", ld.Skip}} {
				if k := strings.Index(rest, part.tag); k >= 0 {
					seg := rest[k+len(part.tag):]
					if e := strings.IndexAny(seg, ":"); e >= 0 {
						// up to the next tag
						if sp := strings.LastIndex(seg[:e], " "); sp >= 0 {
							seg = seg[:sp]
						}
					}
					for _, m := range strings.Split(seg, ",") {
						if m = strings.TrimSpace(m); m != "" {
							part.m[m] = true
						}
					}
				}
			}
			cs.Locks = append(cs.Locks, ld)
			cur = nil
			lastText = nil
			continue
		case "boxednonzero":
			// boxednonzero pkg.Type.Field props C23: a value of the struct type converted to the error interface
			// by code under contract for the property has the field non-zero
			if len(fields) < 4 || fields[2] != "props" {
				errf(i, "boxednonzero pkg.Type.Field props Cxx")
				continue
			}
			if cs.BoxedNonZero == nil {
				cs.BoxedNonZero = map[string][]string{}
			}
			cs.BoxedNonZero[fields[1]] = splitProps(fields[3])
			cur = nil
			lastText = nil
			continue
		case "gotracked":
			// gotracked pkg.Type props C36 wait: wg1, wg2
			if len(fields) < 4 || fields[2] != "props" {
				errf(i, "gotracked pkg.Type props Cxx wait: wg1, wg2")
				continue
			}
			gt := GoTracked{Type: fields[1], Props: splitProps(fields[3]), Wait: map[string]bool{}}
			rest := strings.Join(fields[4:], " ")
			if k := strings.Index(rest, "wait:"); k >= 0 {
				for _, m := range strings.Split(rest[k+5:], ",") {
					if m = strings.TrimSpace(m); m != "" {
						gt.Wait[m] = true
					}
				}
			}
			cs.GoTracked = append(cs.GoTracked, gt)
			cur = nil
			lastText = nil
			continue
		case "confine":
			// confine pkg.Type props C35 init: A, B thread: C, D
			if len(fields) < 4 || fields[2] != "props" {
				errf(i, "confine pkg.Type props Cxx init: f, g thread: h, k")
				continue
			}
			cf := Confine{Type: fields[1], Props: splitProps(fields[3]), Init: map[string]bool{}, Thread: map[string]bool{}}
			rest := " " + strings.Join(fields[4:], " ")
			for _, part := range []struct {
				tag string
				m   map[string]bool
			}{{"init:", cf.Init}, {"thread:", cf.Thread}} {
				if k := strings.Index(rest, part.tag); k >= 0 {
					seg := rest[k+len(part.tag):]
					if e := strings.IndexAny(seg, ":"); e >= 0 {
						if sp := strings.LastIndex(seg[:e], " "); sp >= 0 {
							seg = seg[:sp]
						}
					}
					for _, m := range strings.Split(seg, ",") {
						if m = strings.TrimSpace(m); m != "" {
							part.m[m] = true
						}
					}
				}
			}
			cs.Confines = append(cs.Confines, cf)
			cur = nil
			lastText = nil
			continue
		case "standin":
			// standin <funcref> <pkg dir> <test file under /verif> <TestName>
			if len(fields) != 5 {
				errf(i, "standin funcref pkgdir file TestName")
				continue
			}
			cs.Standins = append(cs.Standins, Standin{Func: fields[1], Pkg: fields[2], File: fields[3], Test: fields[4]})
			cur = nil
			lastText = nil
			continue
		case "final":
			// final pkg.Type.Field: assigned only during construction / dependency injection
			if len(fields) > 1 {
				if k := strings.LastIndex(fields[1], "."); k > 0 {
					cs.Finals = append(cs.Finals, fields[1][:k]+"#"+fields[1][k+1:])
					// final T.f init <function>: the named function is the one that sets the field up (it may write it)
					if len(fields) >= 4 && fields[2] == "init" {
						if cs.FinalInit == nil {
							cs.FinalInit = map[string]string{}
						}
						cs.FinalInit[fields[1][:k]+"#"+fields[1][k+1:]] = fields[3]
					}
				}
			}
			cur = nil
			lastText = nil
			continue
		case "owned":
			// owned pkg.Type: writes to objects of this type require the ghost owns(ref)
			if len(fields) > 1 {
				cs.Owned = append(cs.Owned, fields[1])
			}
			cur = nil
			lastText = nil
			continue
		case "guarded_by":
			// guarded_by pkg.Type.mux: f1, f2
			k := strings.Index(t, ":")
			if k < 0 {
				errf(i, "guarded_by T.mu: fields")
				continue
			}
			tm := strings.TrimSpace(t[len("guarded_by"):k])
			dot := strings.LastIndex(tm, ".")
			for _, f := range splitProps(t[k+1:]) {
				cs.Guarded[tm[:dot]+"."+f] = tm[dot+1:]
			}
			cur = nil
			lastText = nil
			continue
		}
		if cur == nil {
			errf(i, "clause outside a contract: %s", t)
			continue
		}
		// directives
		switch fields[0] {
		case "arith":
			if len(fields) > 1 {
				cur.Arith = fields[1]
			}
			continue
		case "strings":
			if len(fields) > 1 {
				cur.Strings = fields[1]
			}
			continue
		case "props":
			if len(fields) > 1 {
				cur.Props = splitProps(fields[1])
			}
			continue
		}
		finding := ""
		if fields[0] == "finding" && len(fields) > 2 {
			finding = fields[1]
			t = strings.TrimSpace(strings.TrimPrefix(strings.TrimSpace(t[len("finding"):]), finding))
			fields = strings.Fields(t)
		}
		loop := 0
		if fields[0] == "loop" && len(fields) > 2 {
			n, err := strconv.Atoi(fields[1])
			if err != nil {
				errf(i, "bad loop ordinal")
				continue
			}
			loop = n
			t = strings.TrimSpace(strings.TrimPrefix(strings.TrimSpace(t[len("loop"):]), fields[1]))
		}
		m := clauseRe.FindStringSubmatch(t)
		if m == nil {
			errf(i, "unrecognised clause: %s", t)
			continue
		}
		cl := &Clause{Kind: m[1], Text: strings.TrimSpace(m[3]), Loop: loop, Finding: finding, Line: i + 1, File: path}
		if m[2] != "" {
			lab := m[2][1 : len(m[2])-1]
			// label may carry a property restriction: [name@C04,C05]
			if k := strings.Index(lab, "@"); k >= 0 {
				cl.Props = splitProps(lab[k+1:])
				lab = lab[:k]
			}
			cl.Name = lab
		}
		if cl.Kind == "ghostupdate" {
			// ghostupdate <ghost location(s)> :: <formula defining the new value>
			k := indexTop(cl.Text, "::")
			if k < 0 {
				errf(i, "ghostupdate loc :: formula")
				continue
			}
			cl.LetName = strings.TrimSpace(cl.Text[:k])
			cl.Text = strings.TrimSpace(cl.Text[k+2:])
		}
		if cl.Kind == "let" {
			k := strings.Index(cl.Text, "=")
			if k < 0 {
				errf(i, "let name = expr")
				continue
			}
			cl.LetName = strings.TrimSpace(cl.Text[:k])
			cl.Text = strings.TrimSpace(cl.Text[k+1:])
		}
		cur.Clauses = append(cur.Clauses, cl)
		lastClause = cl
		lastText = &cl.Text
	}
	_ = lastClause
	return nil
}

func parseSpecDecl(s string) (*SpecFn, error) {
	// name(params) type := expr
	lp := strings.Index(s, "(")
	if lp < 0 {
		return nil, fmt.Errorf("spec: expected name(params)")
	}
	name := strings.TrimSpace(s[:lp])
	depth := 0
	rp := -1
	for i := lp; i < len(s); i++ {
		if s[i] == '(' {
			depth++
		} else if s[i] == ')' {
			depth--
			if depth == 0 {
				rp = i
				break
			}
		}
	}
	if rp < 0 {
		return nil, fmt.Errorf("spec: unbalanced parens")
	}
	sf := &SpecFn{Name: name}
	ps := strings.TrimSpace(s[lp+1 : rp])
	if ps != "" {
		for _, p := range splitTopLevel(ps, ',') {
			f := strings.Fields(strings.TrimSpace(p))
			if len(f) < 2 {
				return nil, fmt.Errorf("spec: parameter needs name and type: %q", p)
			}
			sf.Params = append(sf.Params, specParam{f[0], strings.Join(f[1:], " ")})
		}
	}
	rest := strings.TrimSpace(s[rp+1:])
	if k := strings.Index(rest, ":="); k >= 0 {
		sf.Result = strings.TrimSpace(rest[:k])
		sf.Text = strings.TrimSpace(rest[k+2:])
	} else if strings.HasSuffix(rest, "uninterpreted") {
		sf.Result = strings.TrimSpace(strings.TrimSuffix(rest, "uninterpreted"))
		sf.Uninterp = true
	} else {
		return nil, fmt.Errorf("spec: expected := or uninterpreted")
	}
	return sf, nil
}

func parseGhostDecl(s string) (*GhostDecl, error) {
	lp := strings.Index(s, "(")
	rp := strings.LastIndex(s, ")")
	if lp < 0 || rp < lp {
		return nil, fmt.Errorf("ghost: expected name(types) type")
	}
	g := &GhostDecl{Name: strings.TrimSpace(s[:lp]), Result: strings.TrimSpace(s[rp+1:])}
	for _, p := range splitTopLevel(s[lp+1:rp], ',') {
		p = strings.TrimSpace(p)
		if p != "" {
			g.Params = append(g.Params, p)
		}
	}
	if g.Result == "" {
		return nil, fmt.Errorf("ghost: missing result type")
	}
	return g, nil
}

// ---------------------------------------------------------------------------
// Spec expression pre-transform: `a ==> b`, `a <==> b`, `forall x T :: e`
// are rewritten into Go-parseable calls implies(a,b), iff(a,b),
// forall(func(x T) bool { return e }).

func splitTopLevel(s string, sep byte) []string {
	var out []string
	depth := 0
	start := 0
	for i := 0; i < len(s); i++ {
		c := s[i]
		switch c {
		case '(', '[', '{':
			depth++
		case ')', ']', '}':
			depth--
		case '"':
			i++
			for i < len(s) && s[i] != '"' {
				if s[i] == '\\' {
					i++
				}
				i++
			}
		case '\'':
			i++
			for i < len(s) && s[i] != '\'' {
				if s[i] == '\\' {
					i++
				}
				i++
			}
		case '`':
			i++
			for i < len(s) && s[i] != '`' {
				i++
			}
		default:
			if c == sep && depth == 0 {
				out = append(out, s[start:i])
				start = i + 1
			}
		}
	}
	out = append(out, s[start:])
	return out
}

// indexTop finds the first occurrence of op at nesting depth 0, outside literals.
func indexTop(s, op string) int {
	depth := 0
	for i := 0; i < len(s); i++ {
		c := s[i]
		switch c {
		case '(', '[', '{':
			depth++
		case ')', ']', '}':
			depth--
		case '"':
			i++
			for i < len(s) && s[i] != '"' {
				if s[i] == '\\' {
					i++
				}
				i++
			}
			continue
		case '\'':
			i++
			for i < len(s) && s[i] != '\'' {
				if s[i] == '\\' {
					i++
				}
				i++
			}
			continue
		}
		if depth == 0 && strings.HasPrefix(s[i:], op) {
			// `==>` must not be the tail of `<==>`
			if op == "==>" && i > 0 && s[i-1] == '<' {
				continue
			}
			return i
		}
	}
	return -1
}

func transformSpec(s string) string {
	s = strings.TrimSpace(s)
	for _, q := range []string{"forall", "exists"} {
		if strings.HasPrefix(s, q+" ") {
			k := indexTop(s, "::")
			if k < 0 {
				return s
			}
			binders := strings.TrimSpace(s[len(q):k])
			body := transformSpec(s[k+2:])
			return q + "(func(" + binders + ") bool { return " + body + " })"
		}
	}
	if k := indexTop(s, "<==>"); k >= 0 {
		return "iff(" + transformSpec(s[:k]) + ", " + transformSpec(s[k+4:]) + ")"
	}
	if k := indexTop(s, "==>"); k >= 0 {
		return "implies(" + transformSpec(s[:k]) + ", " + transformSpec(s[k+3:]) + ")"
	}
	// recurse into parenthesised groups
	var b strings.Builder
	for i := 0; i < len(s); i++ {
		c := s[i]
		switch c {
		case '"', '\'', '`':
			j := i + 1
			for j < len(s) && s[j] != c {
				if s[j] == '\\' && c != '`' {
					j++
				}
				j++
			}
			if j >= len(s) {
				j = len(s) - 1
			}
			b.WriteString(s[i : j+1])
			i = j
		case '(':
			// find the matching paren
			depth := 0
			j := i
			for ; j < len(s); j++ {
				if s[j] == '"' || s[j] == '\'' {
					q := s[j]
					j++
					for j < len(s) && s[j] != q {
						if s[j] == '\\' {
							j++
						}
						j++
					}
					continue
				}
				if s[j] == '(' {
					depth++
				} else if s[j] == ')' {
					depth--
					if depth == 0 {
						break
					}
				}
			}
			if j >= len(s) {
				b.WriteString(s[i:])
				return b.String()
			}
			inner := s[i+1 : j]
			var parts []string
			if ti := strings.TrimSpace(inner); strings.HasPrefix(ti, "forall ") || strings.HasPrefix(ti, "exists ") {
				parts = []string{inner}
			} else {
				parts = splitTopLevel(inner, ',')
			}
			for k := range parts {
				parts[k] = transformSpec(parts[k])
			}
			b.WriteByte('(')
			b.WriteString(strings.Join(parts, ", "))
			b.WriteByte(')')
			i = j
		default:
			b.WriteByte(c)
		}
	}
	return b.String()
}

func parseSpecExpr(text string) (ast.Expr, error) {
	tr := transformSpec(text)
	e, err := parser.ParseExpr(tr)
	if err != nil {
		return nil, fmt.Errorf("cannot parse %q (as %q): %v", text, tr, err)
	}
	return e, nil
}

func (cs *ContractSet) parseAll() {
	perr := func(file string, line int, err error) {
		cs.Errors = append(cs.Errors, fmt.Sprintf("%s:%d: %v", file, line, err))
	}
	for _, c := range cs.allContracts() {
		for _, cl := range c.Clauses {
			if cl.Kind == "modifies" || cl.Kind == "assert" {
				continue
			}
			e, err := parseSpecExpr(cl.Text)
			if err != nil {
				perr(cl.File, cl.Line, err)
				continue
			}
			cl.Expr = e
		}
	}
	for _, sf := range cs.Specs {
		if sf.Uninterp {
			continue
		}
		e, err := parseSpecExpr(sf.Text)
		if err != nil {
			perr(sf.File, sf.Line, err)
			continue
		}
		sf.Expr = e
	}
	for _, lm := range cs.Lemmas {
		e, err := parseSpecExpr(lm.Text)
		if err != nil {
			perr(lm.File, lm.Line, err)
			continue
		}
		lm.Expr = e
	}
	for _, ois := range cs.ObjInvs {
		for _, oi := range ois {
			e, err := parseSpecExpr(oi.Text)
			if err != nil {
				perr(oi.File, oi.Line, err)
				continue
			}
			oi.Expr = e
		}
	}
}

func (cs *ContractSet) allContracts() []*Contract {
	var out []*Contract
	for _, k := range sortedKeys(cs.Contracts) {
		out = append(out, cs.Contracts[k])
	}
	out = append(out, cs.Fragments...)
	return out
}

// contractFilesFor returns the contract file for a package: /repo/<pkg>/verif_contracts.go
// if present, else the mirror under /verif/contracts/<pkg>/verif_contracts.go.
func contractFileFor(repo, verif, pkg string) (string, bool) {
	rp := filepath.Join(repo, pkg, "verif_contracts.go")
	mp := filepath.Join(verif, "contracts", pkg, "verif_contracts.go")
	rd, rerr := os.ReadFile(rp)
	md, merr := os.ReadFile(mp)
	switch {
	case rerr == nil && merr == nil:
		if string(rd) != string(md) {
			fmt.Fprintf(os.Stderr, "note: %s differs from its mirror %s; using the mirror (run tools/sync_contracts.sh)\n", rp, mp)
			return mp, false
		}
		return rp, true
	case rerr == nil:
		return rp, true
	case merr == nil:
		return mp, false
	}
	return "", false
}
