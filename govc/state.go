package main

import (
	"fmt"
	"go/ast"
	"go/token"
	"go/types"
	"strings"
)

// Loc is an addressable location: a local variable (plus a path into its value)
// or a heap object field path.
type Loc struct {
	Heap bool
	TKey string       // heap: type key of the object that contains the location
	Ref  string       // heap: reference term
	Obj  types.Object // local
	Path []string
	Sh   *Shape // shape of the located value
	T    types.Type
}

func (l *Loc) field(name string, sh *Shape, t types.Type) *Loc {
	nl := *l
	nl.Path = append(append([]string(nil), l.Path...), name)
	nl.Sh = sh
	nl.T = t
	return &nl
}

func (l *Loc) String() string {
	if l.Heap {
		return fmt.Sprintf("heap(%s,%s).%s", l.TKey, l.Ref, strings.Join(l.Path, "."))
	}
	return fmt.Sprintf("local(%s).%s", l.Obj.Name(), strings.Join(l.Path, "."))
}

// FnVal is a function value whose code or identity is known.
type FnVal struct {
	Lit  *ast.FuncLit
	Obj  *types.Func
	Recv *Val // bound receiver for method values
	Ex   *Exec // the execution in which Lit was created (captures)
}

type deferred struct {
	call *ast.CallExpr
	fn   *Val
	recv *Val
	args []*Val
	id   int
}

type State struct {
	pc     []string
	vars   map[types.Object]*Val
	heap   map[string]string // heap array key -> current term
	defers []deferred
	epoch  string
	gepoch string // epoch of the ghost ("G$") arrays: they survive calls into library code
	id     int
	// released: mutexes (type#ref#field) this path has unlocked: when one is locked again, other
	// goroutines may have run in between, so the fields it guards are arbitrary (interference)
	released map[string]bool
}

// epochOf: which epoch's base array a heap key reads when it has not been written since.
// finalKeys: heap keys (type#field) declared `final`: assigned only while the object is
// constructed / injected, so reads are not affected by havoc (always the entry array).
var finalKeys = map[string]bool{}

func isFinalKey(key string) bool {
	if len(finalKeys) == 0 {
		return false
	}
	if finalKeys[key] {
		return true
	}
	for f := range finalKeys {
		if strings.HasPrefix(key, f+".") {
			return true
		}
	}
	return false
}

func (st *State) epochOf(key string) string {
	if isFinalKey(key) {
		return "0"
	}
	if strings.HasPrefix(key, "G$") {
		if st.gepoch == "" {
			return "0"
		}
		return st.gepoch
	}
	return st.epoch
}

// knows: the term is literally one of the path-condition facts (a cheap syntactic test).
func (st *State) knows(term string) bool {
	if term == "true" {
		return true
	}
	for _, p := range st.pc {
		if p == term {
			return true
		}
	}
	return false
}

func (st *State) clone() *State {
	n := &State{pc: append([]string(nil), st.pc...), vars: make(map[types.Object]*Val, len(st.vars)), heap: make(map[string]string, len(st.heap)), defers: append([]deferred(nil), st.defers...), epoch: st.epoch, gepoch: st.gepoch}
	if len(st.released) > 0 {
		n.released = map[string]bool{}
		for k := range st.released {
			n.released[k] = true
		}
	}
	for k, v := range st.vars {
		n.vars[k] = v
	}
	for k, v := range st.heap {
		n.heap[k] = v
	}
	return n
}

func (st *State) assume(f string) {
	if f == "true" || f == "" {
		return
	}
	st.pc = append(st.pc, f)
}

func (st *State) pcTerm() string { return and(st.pc...) }

// sameLocs: two states can only be merged if every variable that holds a pointer to a
// local (an interior location) holds the same one in both; otherwise they stay separate paths.
func sameLocs(a, b *State) bool {
	chk := func(x, y *State) bool {
		for k, va := range x.vars {
			if va == nil || va.Loc == nil {
				continue
			}
			vb, ok := y.vars[k]
			if !ok || vb == nil || vb.Loc == nil {
				return false
			}
			if va.Loc.Heap != vb.Loc.Heap || va.Loc.Obj != vb.Loc.Obj || va.Loc.Ref != vb.Loc.Ref || strings.Join(va.Loc.Path, ".") != strings.Join(vb.Loc.Path, ".") {
				return false
			}
		}
		return true
	}
	return chk(a, b) && chk(b, a)
}

func sameDefers(a, b *State) bool {
	if !sameLocs(a, b) {
		return false
	}
	if len(a.defers) != len(b.defers) {
		return false
	}
	for i := range a.defers {
		if a.defers[i].id != b.defers[i].id {
			return false
		}
	}
	return true
}

// ---------------------------------------------------------------------------
// Heap access

func heapKey(tkey string, path string) string {
	return tkey + "#" + path
}

func (ex *Exec) heapArr(st *State, key string, leafSort string) string {
	return ex.heapArrSh(st, key, leafSort, nil)
}

func (ex *Exec) heapArrSh(st *State, key string, leafSort string, sh *Shape) string {
	srt := "(Array Int " + leafSort + ")"
	ex.eng.regHeap(key, srt)
	if t, ok := st.heap[key]; ok {
		return t
	}
	if isFinalKey(key) {
		ex.assumption("field " + key + " is final: assigned only while its object is constructed or injected, never afterwards (a write in code under contract is a failed obligation)")
	}
	name := ex.eng.smt.named("H"+st.epochOf(key)+"_"+key, srt)
	// the mutex of an instantiated generic type (generics.MapWithTTL[string,string]#mut) is declared under the
	// generic's name: like every other mutex it is not held by this goroutine when the function is entered
	if ex.lockCheck && st.epochOf(key) == "0" && leafSort == "Int" {
		if a, b := strings.Index(key, "["), strings.LastIndex(key, "]#"); a > 0 && b > a {
			if base := key[:a] + key[b+1:]; ex.eng.mutexKeys[base] && !ex.eng.mutexKeys[key] {
				ex.eng.mutexKeys[key] = true
				st.assume("(forall ((r Int)) (! (= (select " + name + " r) 0) :pattern ((select " + name + " r))))")
			}
		}
	}
	if st.epoch == "0" && sh != nil && !ex.eng.refAxDone[name] {
		ex.eng.refAxDone[name] = true
		lifted := &Shape{T: sh.T, Leaf: srt, Elem: sh, Idx: "Int", Kind: "lift"}
		ex.refArrayAxiom(name, lifted)
	}
	return name
}

// readLoc reads the value stored at a location.
func (ex *Exec) readLoc(st *State, l *Loc) *Val {
	if !l.Heap {
		v := ex.readVar(st, l.Obj)
		for _, p := range l.Path {
			k := v.kid(p)
			if k == nil {
				return ex.freshVal(l.T, "lost")
			}
			v = k
		}
		return v
	}
	prefix := strings.Join(l.Path, ".")
	return ex.heapRead(st, l.TKey, l.Ref, prefix, l.Sh, l.T)
}

func (ex *Exec) heapRead(st *State, tkey, ref, prefix string, sh *Shape, t types.Type) *Val {
	if sh.IsLeaf() {
		arr := ex.heapArrSh(st, heapKey(tkey, prefix), sh.Leaf, sh)
		term := "(select " + arr + " " + ref + ")"
		return ex.loaded(&Val{Sh: sh, T: sh.T, S: term})
	}
	out := &Val{Sh: sh, T: sh.T}
	for i, k := range sh.Kids {
		p := sh.Names[i]
		if prefix != "" {
			p = prefix + "." + p
		}
		out.Kids = append(out.Kids, ex.heapRead(st, tkey, ref, p, k, k.T))
	}
	// structural facts of containers read from memory
	if ex.bound == 0 {
		switch sh.Kind {
		case "slice":
			ex.eng.smt.addAx(out.Kids[0].S, "(<= 0 "+out.Kids[0].S+")")
		case "map":
			ex.eng.smt.addAx(out.Kids[1].S, "(<= 0 "+out.Kids[1].S+")")
		case "any":
			ex.eng.smt.addAx(out.Kids[0].S, "(and (<= 0 "+out.Kids[0].S+") (<= "+out.Kids[0].S+" 8))")
		}
	}
	return out
}

// loaded attaches range facts to a leaf value read from memory.
func (ex *Exec) loaded(v *Val) *Val {
	if ex.bound > 0 || !v.Sh.IsLeaf() || v.Sh.Kind == "lift" {
		return v
	}
	t := v.Sh.T
	if t == nil {
		return v
	}
	if lo, hi, ok := intRange(t); ok {
		name := ex.eng.smt.fresh("ld", "Int")
		ex.eng.smt.syms[name].Def = v.S
		ex.eng.smt.addAx(name, "(and (<= "+lo+" "+name+") (<= "+name+" "+hi+"))")
		return &Val{Sh: v.Sh, T: v.T, S: name}
	}
	if isRefType(t) {
		name := ex.eng.smt.fresh("ldp", "Int")
		ex.eng.smt.syms[name].Def = v.S
		ex.eng.smt.addAx(name, "(<= 0 "+name+")")
		return &Val{Sh: v.Sh, T: v.T, S: name}
	}
	return v
}

func isRefType(t types.Type) bool {
	if _, isTP := types.Unalias(t).(*types.TypeParam); isTP {
		return false
	}
	switch u := t.Underlying().(type) {
	case *types.Pointer, *types.Signature, *types.Chan:
		return true
	case *types.Interface:
		_ = u
		return true
	case *types.Basic:
		return u.Kind() == types.UnsafePointer
	}
	return false
}

func (ex *Exec) writeLoc(st *State, l *Loc, v *Val) {
	if !l.Heap {
		cur := ex.readVar(st, l.Obj)
		st.vars[l.Obj] = updatePath(cur, l.Path, v)
		return
	}
	prefix := strings.Join(l.Path, ".")
	ex.heapWrite(st, l.TKey, l.Ref, prefix, l.Sh, v)
}

func updatePath(cur *Val, path []string, v *Val) *Val {
	if len(path) == 0 {
		return v
	}
	k := cur.kid(path[0])
	if k == nil {
		return cur
	}
	return cur.withKid(path[0], updatePath(k, path[1:], v))
}

func (ex *Exec) heapWrite(st *State, tkey, ref, prefix string, sh *Shape, v *Val) {
	if sh.IsLeaf() {
		key := heapKey(tkey, prefix)
		arr := ex.heapArr(st, key, sh.Leaf)
		s := v.S
		if v.Sh != nil && !v.Sh.IsLeaf() {
			s = ex.freshLeaf(sh, "mismatch")
		}
		st.heap[key] = ex.def("H_"+key, "(Array Int "+sh.Leaf+")", "(store "+arr+" "+ref+" "+s+")")
		ex.noteHeapWriteRef(key, ref)
		return
	}
	for i, k := range sh.Kids {
		p := sh.Names[i]
		if prefix != "" {
			p = prefix + "." + p
		}
		var kv *Val
		if v != nil && v.Sh != nil && !v.Sh.IsLeaf() && i < len(v.Kids) {
			kv = v.Kids[i]
		} else {
			kv = ex.freshValSh(k, "mismatch")
		}
		ex.heapWrite(st, tkey, ref, p, k, kv)
	}
}

func (ex *Exec) noteHeapWrite(key string) {
	for _, r := range ex.recs {
		r.heap[key] = true
		r.addRef(key, "*")
	}
}

func (ex *Exec) noteHeapWriteRef(key, ref string) {
	for _, r := range ex.recs {
		r.heap[key] = true
		r.addRef(key, ref)
	}
}

// havocHeapKey replaces a whole heap array by a fresh one.
func (ex *Exec) havocHeapKey(st *State, key string, sort string) {
	ex.eng.regHeap(key, sort)
	st.heap[key] = ex.eng.smt.fresh("Hh_"+key, sort)
	ex.noteHeapWrite(key)
}

// havocAllHeap forgets everything about the heap (unknown call): a new epoch.
func (ex *Exec) havocAllHeap(st *State, why string) {
	keep := map[string]string{}
	if ex.keepGhosts {
		// ghost effect logs survive calls into library code (which cannot call back
		// into refinery's effectful functions)
		for _, k := range ex.eng.heapKeys() {
			if strings.HasPrefix(k, "G$") {
				if v, ok := st.heap[k]; ok {
					keep[k] = v
				} else {
					keep[k] = ex.eng.smt.named("H"+st.epochOf(k)+"_"+k, ex.eng.heapSortOf(k))
				}
			}
		}
	}
	// the state of mutexes this function operates on is its own (other code cannot unlock them)
	for k := range ex.eng.mutexKeys {
		if v, ok := st.heap[k]; ok {
			keep[k] = v
		} else if ex.eng.heapSortOf(k) == "" {
			continue // never read or written so far: nothing to preserve
		} else {
			keep[k] = ex.eng.smt.named("H"+st.epochOf(k)+"_"+k, ex.eng.heapSortOf(k))
		}
	}
	st.heap = keep
	st.epoch = ex.eng.newEpoch()
	if !ex.keepGhosts {
		st.gepoch = st.epoch
	} else if st.gepoch == "" {
		st.gepoch = "0"
	}
	for _, r := range ex.recs {
		r.all = true
	}
}

// ---------------------------------------------------------------------------
// Variables

func (ex *Exec) readVar(st *State, obj types.Object) *Val {
	if v, ok := st.vars[obj]; ok {
		return v
	}
	// lazily created entry value
	if v, ok := ex.init[obj]; ok {
		return v
	}
	if e, ok := ex.eng.constVars[obj]; ok {
		if _, isCall := e.(*ast.CallExpr); isCall {
			// a sentinel error created once at package initialisation: a fixed non-nil value
			name := ex.eng.smt.named("sentinel_"+obj.Pkg().Name()+"_"+obj.Name(), "Int")
			if !ex.eng.refAxDone[name] {
				ex.eng.refAxDone[name] = true
				ex.eng.smt.addAx(name, "(and (< 0 "+name+") (< "+name+" "+ex.eng.alloc0()+"))")
			}
			v := &Val{Sh: ex.eng.sh.shapeOf(obj.Type()), T: obj.Type(), S: name}
			ex.init[obj] = v
			return v
		}
		if cl, isLit := e.(*ast.CompositeLit); isLit {
			ex.assumption("package variable " + obj.Pkg().Name() + "." + obj.Name() + " is treated as the constant it is initialised with (never assigned in non-test code)")
			saved := ex.info
			ex.info = ex.eng.constVarInfo[obj]
			tmp := &State{vars: map[types.Object]*Val{}, heap: map[string]string{}, epoch: "0"}
			v := ex.evalCompositeLit(tmp, cl, nil)
			ex.info = saved
			ex.init[obj] = v
			return v
		}
		if tv, ok := ex.eng.constVarInfo[obj].Types[e]; ok && tv.Value != nil {
			ex.assumption("package variable " + obj.Pkg().Name() + "." + obj.Name() + " is treated as the constant it is initialised with (never assigned in non-test code)")
			v := ex.constVal(tv.Value, obj.Type())
			v.C = nil
			ex.init[obj] = v
			return v
		}
	}
	ex.entryFresh++
	v := ex.freshVal(obj.Type(), obj.Name())
	ex.entryFresh--
	ex.init[obj] = v
	ex.inputs = append(ex.inputs, obj)
	return v
}

func (ex *Exec) freshLeaf(sh *Shape, hint string) string {
	name := ex.eng.smt.fresh(hint, sh.Leaf)
	if sh.Kind != "lift" && sh.T != nil {
		if lo, hi, ok := intRange(sh.T); ok {
			ex.eng.smt.addAx(name, "(and (<= "+lo+" "+name+") (<= "+name+" "+hi+"))")
		} else if isRefType(sh.T) && sh.Leaf == "Int" {
			if ex.entryFresh > 0 {
				// an entry value: it cannot be an object this function allocates later
				ex.eng.smt.addAx(name, "(and (<= 0 "+name+") (< "+name+" "+ex.eng.alloc0()+"))")
			} else {
				ex.eng.smt.addAx(name, "(<= 0 "+name+")")
			}
		}
	} else if sh.Kind == "lift" && ex.entryFresh > 0 {
		ex.refArrayAxiom(name, sh)
	}
	if sh.Leaf == "String" && sh.Kind != "lift" {
		// the length of a Go string fits in an int
		ex.eng.smt.addAx(name, "(<= (str.len "+name+") 9223372036854775807)")
	}
	return name
}

// refArrayAxiom: every reference stored in an entry-state array predates the
// function's own allocations.
func (ex *Exec) refArrayAxiom(name string, sh *Shape) {
	var idx []string
	cur := sh
	for cur != nil && cur.Kind == "lift" && cur.IsLeaf() {
		idx = append(idx, cur.Idx)
		cur = cur.Elem
	}
	if cur == nil || !cur.IsLeaf() || cur.Leaf != "Int" || cur.T == nil || !isRefType(cur.T) {
		return
	}
	term := name
	var bs []string
	for i, s := range idx {
		v := fmt.Sprintf("r%d", i)
		bs = append(bs, "("+v+" "+s+")")
		term = "(select " + term + " " + v + ")"
	}
	ex.eng.smt.addAx(name, "(forall ("+strings.Join(bs, " ")+") (! (< "+term+" "+ex.eng.alloc0()+") :pattern ("+term+")))")
}

func (ex *Exec) freshValSh(sh *Shape, hint string) *Val {
	if sh.IsLeaf() {
		return &Val{Sh: sh, T: sh.T, S: ex.freshLeaf(sh, hint)}
	}
	out := &Val{Sh: sh, T: sh.T}
	for i, k := range sh.Kids {
		kv := ex.freshValSh(k, hint+"."+sh.Names[i])
		out.Kids = append(out.Kids, kv)
	}
	// structural well-formedness facts
	switch sh.Kind {
	case "slice":
		ex.eng.smt.addAx(out.Kids[0].S, "(<= 0 "+out.Kids[0].S+")")
	case "map":
		ex.eng.smt.addAx(out.Kids[1].S, "(<= 0 "+out.Kids[1].S+")")
	case "any":
		ex.eng.smt.addAx(out.Kids[0].S, "(and (<= 0 "+out.Kids[0].S+") (<= "+out.Kids[0].S+" 8))")
	}
	return out
}

func (ex *Exec) freshVal(t types.Type, hint string) *Val {
	sh := ex.eng.sh.shapeOf(t)
	v := ex.freshValSh(sh, hint)
	v.T = t
	return v
}

// zeroVal is the Go zero value of a type.
func (ex *Exec) zeroVal(t types.Type) *Val {
	return ex.zeroSh(ex.eng.sh.shapeOf(t), t)
}

func (ex *Exec) zeroSh(sh *Shape, t types.Type) *Val {
	if sh.IsLeaf() {
		if sh.Kind == "lift" {
			z := ex.zeroSh(sh.Elem, sh.Elem.T)
			return &Val{Sh: sh, T: t, S: "((as const " + sh.Leaf + ") " + z.S + ")"}
		}
		switch sh.Leaf {
		case "Bool":
			return &Val{Sh: sh, T: t, S: "false"}
		case "Int":
			return &Val{Sh: sh, T: t, S: "0"}
		case "Real":
			return &Val{Sh: sh, T: t, S: "0.0"}
		case "String":
			return &Val{Sh: sh, T: t, S: `""`}
		}
		// uninterpreted sort: a fixed zero constant per sort
		return &Val{Sh: sh, T: t, S: ex.eng.smt.named("zero_"+sh.Leaf, sh.Leaf)}
	}
	out := &Val{Sh: sh, T: t}
	for _, k := range sh.Kids {
		out.Kids = append(out.Kids, ex.zeroSh(k, k.T))
	}
	return out
}

// ---------------------------------------------------------------------------
// Value combinators

func (ex *Exec) iteVal(c string, a, b *Val) *Val {
	if a == b || c == "true" {
		return a
	}
	if c == "false" {
		return b
	}
	if a == nil || b == nil {
		if a == nil {
			return b
		}
		return a
	}
	if a.Sh != b.Sh && (a.Sh.IsLeaf() != b.Sh.IsLeaf() || len(a.Kids) != len(b.Kids)) {
		return ex.freshValSh(a.Sh, "itemix")
	}
	if a.Sh.IsLeaf() {
		if a.S == b.S {
			return a
		}
		out := &Val{Sh: a.Sh, T: a.T, S: ex.def("m", a.Sh.Leaf, ite(c, a.S, b.S))}
		if a.Loc != nil || b.Loc != nil {
			// pointer to interior location on one side only: keep nothing
			out.Loc = nil
		}
		return out
	}
	out := &Val{Sh: a.Sh, T: a.T}
	for i := range a.Kids {
		out.Kids = append(out.Kids, ex.iteVal(c, a.Kids[i], b.Kids[i]))
	}
	return out
}

func (ex *Exec) eqVal(a, b *Val) string {
	if a.Sh.IsLeaf() && b.Sh.IsLeaf() {
		if a.Sh.Leaf != b.Sh.Leaf {
			// Int vs Real from untyped constants
			if a.Sh.Leaf == "Real" && b.Sh.Leaf == "Int" {
				return eq(a.S, "(to_real "+b.S+")")
			}
			if a.Sh.Leaf == "Int" && b.Sh.Leaf == "Real" {
				return eq("(to_real "+a.S+")", b.S)
			}
			// an interface compared with a scalar of a concrete type: box the scalar
			if a.Sh.Leaf == "Int" && a.T != nil && isRefType(a.T) {
				if bv := ex.boxScalar(b); bv != "" {
					return eq(a.S, bv)
				}
			}
			if b.Sh.Leaf == "Int" && b.T != nil && isRefType(b.T) {
				if bv := ex.boxScalar(a); bv != "" {
					return eq(bv, b.S)
				}
			}
			return ex.eng.smt.fresh("eqmix", "Bool")
		}
		return eq(a.S, b.S)
	}
	if a.Sh.IsLeaf() != b.Sh.IsLeaf() || len(a.Kids) != len(b.Kids) {
		// a slice or map compared with nil: nil implies empty (an empty container may or may not be nil)
		for _, pr := range [][2]*Val{{a, b}, {b, a}} {
			c, n := pr[0], pr[1]
			if bt, ok := n.T.(*types.Basic); ok && bt.Kind() == types.UntypedNil && c.Sh != nil {
				r := ex.eng.smt.fresh("isnil", "Bool")
				switch c.Sh.Kind {
				case "any":
					// an empty interface is nil exactly when it holds no dynamic type
					return eq(c.kid("tag").S, "0")
				case "slice", "map":
					// nil-ness is a fixed (uninterpreted) attribute of the container value, so that the code and a
					// contract asking the same question get the same answer; a nil container is empty
					var sorts, terms []string
					var leaves func(v *Val)
					leaves = func(v *Val) {
						if v == nil || v.Sh == nil {
							return
						}
						if v.Sh.IsLeaf() {
							sorts = append(sorts, v.Sh.Leaf)
							terms = append(terms, v.S)
							return
						}
						for _, k := range v.Kids {
							leaves(k)
						}
					}
					leaves(c)
					// the zero value of the container type is the nil container
					if z := ex.zeroSh(c.Sh, c.T); z != nil {
						var zt []string
						var zl func(v *Val)
						zl = func(v *Val) {
							if v == nil || v.Sh == nil {
								return
							}
							if v.Sh.IsLeaf() {
								zt = append(zt, v.S)
								return
							}
							for _, k := range v.Kids {
								zl(k)
							}
						}
						zl(z)
						if len(zt) == len(terms) && len(zt) > 0 {
							same := true
							for i := range zt {
								if zt[i] != terms[i] {
									same = false
								}
							}
							if same {
								return "true"
							}
						}
					}
					size := c.kid("len")
					if c.Sh.Kind == "map" {
						size = c.kid("card")
					}
					if len(terms) == 0 || size == nil {
						ex.eng.smt.addAx(r, implies(r, eq(size.S, "0")))
						return r
					}
					fname := "uf_isnil_" + smtName(strings.Join(sorts, "_"))
					ex.eng.smt.declFun(fname, "(declare-fun "+fname+" ("+strings.Join(sorts, " ")+") Bool)")
					return and("("+fname+" "+strings.Join(terms, " ")+")", eq(size.S, "0"))
				}
			}
		}
		return ex.eng.smt.fresh("eqmix", "Bool")
	}
	if a.Sh.Kind == "any" {
		return ex.anyEq(a, b)
	}
	var cs []string
	for i := range a.Kids {
		cs = append(cs, ex.eqVal(a.Kids[i], b.Kids[i]))
	}
	return and(cs...)
}

// anyEq: interface equality: same dynamic type and equal payload.
func (ex *Exec) anyEq(a, b *Val) string {
	ta, tb := a.kid("tag").S, b.kid("tag").S
	pay := func(tag int, f string) string {
		return implies(eq(ta, fmt.Sprint(tag)), eq(a.kid(f).S, b.kid(f).S))
	}
	return and(eq(ta, tb), pay(tagInt64, "i"), pay(tagInt, "i"), pay(tagUint64, "i"), pay(tagFloat, "r"), pay(tagF32, "r"), pay(tagString, "s"), pay(tagBool, "b"), pay(tagOther, "ref"), pay(tagOther, "ty"), pay(tagOther, "i"), pay(tagOther, "s"))
}

func (ex *Exec) def(hint, sort, term string) string {
	if ex.bound > 0 {
		return term
	}
	return ex.eng.smt.define(hint, sort, term)
}

// selectVal indexes a lifted value.
func (ex *Exec) selectVal(arr *Val, idx string) *Val {
	sh := arr.Sh
	if sh.Kind != "lift" {
		return ex.freshValSh(sh, "badselect")
	}
	if sh.IsLeaf() {
		return &Val{Sh: sh.Elem, T: sh.Elem.T, S: "(select " + arr.S + " " + idx + ")"}
	}
	out := &Val{Sh: sh.Elem, T: sh.Elem.T}
	for _, k := range arr.Kids {
		out.Kids = append(out.Kids, ex.selectVal(k, idx))
	}
	return out
}

func (ex *Exec) storeVal(arr *Val, idx string, v *Val) *Val {
	sh := arr.Sh
	if sh.IsLeaf() {
		s := v.S
		if !v.Sh.IsLeaf() {
			s = ex.freshLeaf(sh.Elem, "mismatch")
		}
		return &Val{Sh: sh, T: arr.T, S: ex.def("st", sh.Leaf, "(store "+arr.S+" "+idx+" "+s+")")}
	}
	out := &Val{Sh: sh, T: arr.T}
	for i, k := range arr.Kids {
		var kv *Val
		if !v.Sh.IsLeaf() && i < len(v.Kids) {
			kv = v.Kids[i]
		} else {
			kv = ex.freshValSh(k.Sh.Elem, "mismatch")
		}
		out.Kids = append(out.Kids, ex.storeVal(k, idx, kv))
	}
	return out
}

// mergeStates joins states that share an ancestor (same defer stacks).
func (ex *Exec) mergeStates(states []*State) []*State {
	var live []*State
	for _, s := range states {
		if s != nil {
			live = append(live, s)
		}
	}
	if len(live) <= 1 {
		return live
	}
	// group by defers
	var groups [][]*State
	for _, s := range live {
		placed := false
		for gi, g := range groups {
			if sameDefers(g[0], s) {
				groups[gi] = append(g, s)
				placed = true
				break
			}
		}
		if !placed {
			groups = append(groups, []*State{s})
		}
	}
	var out []*State
	for _, g := range groups {
		m := g[0]
		for _, s := range g[1:] {
			m = ex.merge2(m, s)
		}
		out = append(out, m)
	}
	return out
}

func (ex *Exec) merge2(a, b *State) *State {
	// common pc prefix
	n := 0
	for n < len(a.pc) && n < len(b.pc) && a.pc[n] == b.pc[n] {
		n++
	}
	ca := and(a.pc[n:]...)
	cb := and(b.pc[n:]...)
	if ca == "false" {
		return b
	}
	if cb == "false" {
		return a
	}
	cond := ex.def("br", "Bool", ca)
	out := &State{pc: append([]string(nil), a.pc[:n]...), vars: map[types.Object]*Val{}, heap: map[string]string{}, defers: a.defers, epoch: a.epoch, gepoch: a.gepoch}
	if len(a.released)+len(b.released) > 0 {
		out.released = map[string]bool{}
		for k := range a.released {
			out.released[k] = true
		}
		for k := range b.released {
			out.released[k] = true
		}
	}
	out.assume(or(cond, cb))
	for k, va := range a.vars {
		vb, ok := b.vars[k]
		if !ok {
			vb = ex.readVar(b, k)
		}
		out.vars[k] = ex.iteVal(cond, va, vb)
	}
	for k, vb := range b.vars {
		if _, ok := a.vars[k]; !ok {
			out.vars[k] = ex.iteVal(cond, ex.readVar(a, k), vb)
		}
	}
	ga, gb := a.gepoch, b.gepoch
	if ga == "" {
		ga = "0"
	}
	if gb == "" {
		gb = "0"
	}
	if a.epoch == b.epoch && ga == gb {
		out.epoch = a.epoch
		out.gepoch = ga
		keys := map[string]bool{}
		for k := range a.heap {
			keys[k] = true
		}
		for k := range b.heap {
			keys[k] = true
		}
		for k := range keys {
			srt := ex.eng.heapSortOf(k)
			ha, hb := a.heap[k], b.heap[k]
			if ha == "" {
				ha = ex.eng.smt.named("H"+a.epochOf(k)+"_"+k, srt)
			}
			if hb == "" {
				hb = ex.eng.smt.named("H"+b.epochOf(k)+"_"+k, srt)
			}
			if ha == hb {
				out.heap[k] = ha
			} else {
				out.heap[k] = ex.def("Hm_"+k, srt, ite(cond, ha, hb))
			}
		}
	} else {
		out.epoch = ex.eng.newEpoch()
		out.gepoch = out.epoch
		if ga == gb {
			out.gepoch = ga
		}
		if a.epoch == b.epoch {
			out.epoch = a.epoch
		}
		for _, k := range ex.eng.heapKeys() {
			srt := ex.eng.heapSortOf(k)
			ha, hb := a.heap[k], b.heap[k]
			if ha == "" {
				ha = ex.eng.smt.named("H"+a.epochOf(k)+"_"+k, srt)
			}
			if hb == "" {
				hb = ex.eng.smt.named("H"+b.epochOf(k)+"_"+k, srt)
			}
			if ha == hb {
				out.heap[k] = ha
			} else {
				out.heap[k] = ex.def("Hm_"+k, srt, ite(cond, ha, hb))
			}
		}
	}
	return out
}

func posStr(fset *token.FileSet, p token.Pos) string {
	if !p.IsValid() {
		return "?"
	}
	ps := fset.Position(p)
	f := ps.Filename
	if k := strings.Index(f, "/repo/"); k >= 0 {
		f = f[k+6:]
	}
	return fmt.Sprintf("%s:%d", f, ps.Line)
}
