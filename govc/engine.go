package main

import (
	"fmt"
	"go/ast"
	"go/parser"
	"go/token"
	"go/types"
	"os"
	"path/filepath"
	"regexp"
	"sort"
	"strings"
	"sync"

	"golang.org/x/tools/go/packages"
)

const modulePath = "github.com/honeycombio/refinery"

type FuncInfo struct {
	Ref  string
	Pkg  *packages.Package
	Decl *ast.FuncDecl
	Lit  *ast.FuncLit
	Obj  *types.Func
	Sig  *types.Signature
	Body *ast.BlockStmt
	File string
}

type Engine struct {
	pathMu       sync.Mutex
	pathIDs      map[string]int  // numbering of interior-pointer field paths
	mutexKeys    map[string]bool // heap keys of mutex fields operated on (kept across havoc)
	repo, verif  string
	fset         *token.FileSet
	pkgs         map[string]*packages.Package // by short path
	smt          *Smt
	sh           *shaper
	cs           *ContractSet
	funcs        map[string]*FuncInfo
	heapMu       sync.Mutex
	heapSorts    map[string]string
	epochN       int
	allocN       int
	nowN         int
	qn           int
	extraDropped map[string]bool
	autoInline   map[string]bool
	ownedTypes   map[string]bool
	srcCache     map[string][]string
	loadErrs     []string
	constVars    map[types.Object]ast.Expr // package-level vars with a constant initialiser, never assigned
	constVarInfo map[types.Object]*types.Info
	refAxDone    map[string]bool
}

func newEngine(repo, verif string) *Engine {
	e := &Engine{repo: repo, verif: verif, pkgs: map[string]*packages.Package{}, smt: newSmt(), sh: newShaper(), cs: newContractSet(),
		funcs: map[string]*FuncInfo{}, heapSorts: map[string]string{}, extraDropped: map[string]bool{}, autoInline: map[string]bool{}, ownedTypes: map[string]bool{}, srcCache: map[string][]string{}}
	e.sh.sortDecls = e.smt.sorts
	e.refAxDone = map[string]bool{}
	return e
}

func (eng *Engine) regHeap(key, sort string) {
	if os.Getenv("GOVC_TRAP") != "" && strings.Contains(sort, os.Getenv("GOVC_TRAP")) {
		panic("trap: " + key + " " + sort)
	}
	eng.heapMu.Lock()
	eng.heapSorts[key] = sort
	eng.heapMu.Unlock()
}

func (eng *Engine) heapSortOf(key string) string {
	eng.heapMu.Lock()
	defer eng.heapMu.Unlock()
	return eng.heapSorts[key]
}

func (eng *Engine) heapKeys() []string {
	eng.heapMu.Lock()
	defer eng.heapMu.Unlock()
	ks := make([]string, 0, len(eng.heapSorts))
	for k := range eng.heapSorts {
		ks = append(ks, k)
	}
	sort.Strings(ks)
	return ks
}

func (eng *Engine) newEpoch() string {
	eng.epochN++
	return fmt.Sprintf("e%d", eng.epochN)
}

func (eng *Engine) alloc0() string {
	n := eng.smt.named("ALLOC0", "Int")
	return n
}

// pathID numbers field paths (identity of interior pointers).
func (eng *Engine) pathID(key string) int {
	eng.pathMu.Lock()
	defer eng.pathMu.Unlock()
	if eng.pathIDs == nil {
		eng.pathIDs = map[string]int{}
	}
	if id, ok := eng.pathIDs[key]; ok {
		return id
	}
	id := len(eng.pathIDs) + 1
	eng.pathIDs[key] = id
	return id
}

// interior: the (non-nil) numeric value given to pointers into the middle of an object or to a local.
func (eng *Engine) interior() string {
	n := eng.smt.named("interior", "Int")
	if !eng.refAxDone[n] {
		eng.refAxDone[n] = true
		eng.smt.addAx(n, "(> "+n+" 0)")
	}
	return n
}

func (eng *Engine) zeroTime() string {
	// time.Time{} is year 1: far below any Unix-epoch based instant
	return "(- 62135596800000000000)"
}

func (eng *Engine) orderFn(sort string) string {
	name := "lt_" + smtName(sort)
	eng.smt.declFun(name, "(declare-fun "+name+" ("+sort+" "+sort+") Bool)")
	eng.smt.addFunAx(name, "(forall ((a "+sort+") (b "+sort+")) (! (=> ("+name+" a b) (not ("+name+" b a))) :pattern (("+name+" a b))))")
	eng.smt.addFunAx(name, "(forall ((a "+sort+") (b "+sort+")) (! (or ("+name+" a b) ("+name+" b a) (= a b)) :pattern (("+name+" a b))))")
	eng.smt.addFunAx(name, "(forall ((a "+sort+") (b "+sort+") (c "+sort+")) (! (=> (and ("+name+" a b) ("+name+" b c)) ("+name+" a c)) :pattern (("+name+" a b) ("+name+" b c))))")
	return name
}

func (sh *shaper) cacheByKey(tkey string) *Shape {
	for _, s := range sh.cache {
		if s.T != nil && typeKey(s.T) == tkey && !s.IsLeaf() {
			return s
		}
	}
	return nil
}

// load loads the given refinery packages (short paths) from the working tree.
func (eng *Engine) load(short []string) error {
	var pats []string
	for _, s := range short {
		if _, ok := eng.pkgs[s]; ok {
			continue
		}
		pats = append(pats, modulePath+"/"+s)
	}
	if len(pats) == 0 {
		return nil
	}
	if eng.fset == nil {
		eng.fset = token.NewFileSet()
	}
	cfg := &packages.Config{
		Mode: packages.NeedName | packages.NeedFiles | packages.NeedCompiledGoFiles | packages.NeedSyntax | packages.NeedTypes | packages.NeedTypesInfo | packages.NeedImports | packages.NeedTypesSizes,
		Dir:  eng.repo,
		Fset: eng.fset,
		Env:  append(os.Environ(), "GOFLAGS=-mod=mod", "GOPROXY=off"),
		ParseFile: func(fset *token.FileSet, filename string, src []byte) (*ast.File, error) {
			return parser.ParseFile(fset, filename, src, parser.ParseComments|parser.SkipObjectResolution)
		},
	}
	pkgs, err := packages.Load(cfg, pats...)
	if err != nil {
		return err
	}
	for _, p := range pkgs {
		for _, e := range p.Errors {
			eng.loadErrs = append(eng.loadErrs, e.Error())
		}
		sp := shortPkg(p.PkgPath)
		eng.pkgs[sp] = p
		eng.indexFuncs(sp, p)
		eng.indexConstVars(p)
	}
	if len(eng.loadErrs) > 0 {
		return fmt.Errorf("package load errors: %s", strings.Join(eng.loadErrs, "; "))
	}
	return nil
}

func (eng *Engine) indexFuncs(sp string, p *packages.Package) {
	for _, f := range p.Syntax {
		fname := eng.fset.Position(f.Pos()).Filename
		for _, d := range f.Decls {
			fd, ok := d.(*ast.FuncDecl)
			if !ok {
				continue
			}
			obj, _ := p.TypesInfo.Defs[fd.Name].(*types.Func)
			if obj == nil {
				continue
			}
			ref := funcRef(obj)
			fi := &FuncInfo{Ref: ref, Pkg: p, Decl: fd, Obj: obj, Sig: obj.Type().(*types.Signature), Body: fd.Body, File: fname}
			eng.funcs[ref] = fi
			// function literals, in source order
			n := 0
			if fd.Body != nil {
				ast.Inspect(fd.Body, func(nd ast.Node) bool {
					if lit, ok := nd.(*ast.FuncLit); ok {
						n++
						sig, _ := p.TypesInfo.Types[lit].Type.(*types.Signature)
						eng.funcs[fmt.Sprintf("%s$lit%d", ref, n)] = &FuncInfo{Ref: fmt.Sprintf("%s$lit%d", ref, n), Pkg: p, Lit: lit, Sig: sig, Body: lit.Body, File: fname}
					}
					return true
				})
			}
		}
	}
}

// indexConstVars finds package-level variables that are initialised once with a
// constant expression and never assigned or address-taken in non-test code.
func (eng *Engine) indexConstVars(p *packages.Package) {
	if eng.constVars == nil {
		eng.constVars = map[types.Object]ast.Expr{}
		eng.constVarInfo = map[types.Object]*types.Info{}
	}
	cands := map[types.Object]ast.Expr{}
	for _, f := range p.Syntax {
		for _, d := range f.Decls {
			gd, ok := d.(*ast.GenDecl)
			if !ok || gd.Tok != token.VAR {
				continue
			}
			for _, sp := range gd.Specs {
				vs := sp.(*ast.ValueSpec)
				if len(vs.Values) != len(vs.Names) {
					continue
				}
				for i, n := range vs.Names {
					if tv, ok := p.TypesInfo.Types[vs.Values[i]]; ok && tv.Value != nil {
						if o := p.TypesInfo.Defs[n]; o != nil {
							cands[o] = vs.Values[i]
						}
					} else if cl, ok := vs.Values[i].(*ast.CompositeLit); ok && constLit(p.TypesInfo, cl) {
						if o := p.TypesInfo.Defs[n]; o != nil {
							cands[o] = vs.Values[i]
						}
					} else if call, ok := vs.Values[i].(*ast.CallExpr); ok {
						// sentinel errors: var ErrX = errors.New("...") / fmt.Errorf(...)
						if sel, ok := call.Fun.(*ast.SelectorExpr); ok {
							if id, ok := sel.X.(*ast.Ident); ok && ((id.Name == "errors" && sel.Sel.Name == "New") || (id.Name == "fmt" && sel.Sel.Name == "Errorf")) {
								if o := p.TypesInfo.Defs[n]; o != nil {
									cands[o] = vs.Values[i]
								}
							}
						}
					}
				}
			}
		}
	}
	if len(cands) == 0 {
		return
	}
	for _, f := range p.Syntax {
		ast.Inspect(f, func(nd ast.Node) bool {
			mark := func(e ast.Expr) {
				if id, ok := ast.Unparen(e).(*ast.Ident); ok {
					if o := p.TypesInfo.Uses[id]; o != nil {
						delete(cands, o)
					}
				}
			}
			switch x := nd.(type) {
			case *ast.AssignStmt:
				for _, l := range x.Lhs {
					mark(l)
				}
			case *ast.IncDecStmt:
				mark(x.X)
			case *ast.UnaryExpr:
				if x.Op == token.AND {
					mark(x.X)
				}
			}
			return true
		})
	}
	for o, e := range cands {
		eng.constVars[o] = e
		eng.constVarInfo[o] = p.TypesInfo
	}
}

// constLit: a struct literal all of whose elements are constants or nil.
func constLit(info *types.Info, cl *ast.CompositeLit) bool {
	if tv, ok := info.Types[cl]; !ok || tv.Type == nil {
		return false
	} else if _, isStruct := tv.Type.Underlying().(*types.Struct); !isStruct {
		return false
	}
	for _, el := range cl.Elts {
		if kv, ok := el.(*ast.KeyValueExpr); ok {
			el = kv.Value
		}
		tv, ok := info.Types[el]
		if !ok {
			return false
		}
		if tv.Value == nil && !tv.IsNil() {
			return false
		}
	}
	return true
}

// expandLitWildcards: a contract named `f$lit*` stands for one copy per function literal of f.
func (eng *Engine) expandLitWildcards() {
	for name, c := range eng.cs.Contracts {
		if !strings.HasSuffix(name, "$lit*") {
			continue
		}
		base := strings.TrimSuffix(name, "*")
		delete(eng.cs.Contracts, name)
		var refs []string
		for ref := range eng.funcs {
			if strings.HasPrefix(ref, base) && !strings.Contains(ref[len(base):], "$") {
				refs = append(refs, ref)
			}
		}
		sort.Strings(refs)
		for _, ref := range refs {
			if _, exists := eng.cs.Contracts[ref]; exists {
				continue // an explicit contract for this literal wins
			}
			cp := *c
			cp.Func = ref
			cp.Clauses = nil
			for _, cl := range c.Clauses {
				cc := *cl
				cp.Clauses = append(cp.Clauses, &cc)
			}
			eng.cs.Contracts[ref] = &cp
		}
	}
}

// synthLockContracts: for every `lockdiscipline pkg.Type mu props P` directive, each method of
// the type (with a body) gets the contract variant `<method>#locks`:
//
//	assert locks; only lock-discipline obligations; the receiver's mutex is free at entry and
//	at every return (held at both for the methods listed under `held:`); effects unconstrained.
//
// Reads/writes of the fields declared guarded_by the mutex are then obligations of each method.
func (eng *Engine) synthLockContracts() {
	for _, ld := range eng.cs.Locks {
		var refs []string
		for ref, fi := range eng.funcs {
			if fi.Sig == nil || fi.Sig.Recv() == nil || fi.Body == nil || fi.Decl == nil {
				continue
			}
			n := namedOf(fi.Sig.Recv().Type())
			if n == nil || typeKey(n) != ld.Type {
				continue
			}
			refs = append(refs, ref)
		}
		sort.Strings(refs)
		var b strings.Builder
		for _, ref := range refs {
			fi := eng.funcs[ref]
			name := fi.Decl.Name.Name
			if ld.Skip[name] {
				continue
			}
			recv := ""
			if fi.Decl.Recv != nil && len(fi.Decl.Recv.List) > 0 && len(fi.Decl.Recv.List[0].Names) > 0 {
				recv = fi.Decl.Recv.List[0].Names[0].Name
			}
			if recv == "" || recv == "_" {
				continue
			}
			if _, isPtr := fi.Sig.Recv().Type().Underlying().(*types.Pointer); !isPtr {
				continue
			}
			state := "== 0"
			what := "lock-free"
			if ld.Held[name] {
				state = "!= 0"
				what = "lock-held-by-the-caller"
			}
			if ld.WHeld[name] {
				state = "== 2"
				what = "lock-write-held-by-the-caller"
			}
			fmt.Fprintf(&b, "//@ contract %s#locks props %s havoc noinv\n", ref, strings.Join(ld.Props, ","))
			fmt.Fprintf(&b, "//@   arith math\n//@   assert locks\n//@   assert only none\n")
			fmt.Fprintf(&b, "//@   requires %s != nil\n", recv)
			fmt.Fprintf(&b, "//@   requires[%s-at-entry] %s.%s %s\n", what, recv, ld.Mutex, state)
			fmt.Fprintf(&b, "//@   ensures[%s-at-exit] %s.%s %s\n", what, recv, ld.Mutex, state)
		}
		if err := eng.cs.loadContractText("lockdiscipline "+ld.Type, ld.Pkg, b.String()); err != nil {
			eng.cs.Errors = append(eng.cs.Errors, err.Error())
		}
	}
}

func (eng *Engine) findFunc(ref string) *FuncInfo {
	if k := strings.Index(ref, "#"); k >= 0 {
		ref = ref[:k]
	}
	return eng.funcs[ref]
}

func (eng *Engine) typesPkg(short string) *types.Package {
	if p, ok := eng.pkgs[short]; ok {
		return p.Types
	}
	// dependency by import path
	for _, p := range eng.pkgs {
		if q := findImport(p.Types, short, map[*types.Package]bool{}); q != nil {
			return q
		}
	}
	return nil
}

func findImport(p *types.Package, path string, seen map[*types.Package]bool) *types.Package {
	if seen[p] {
		return nil
	}
	seen[p] = true
	for _, q := range p.Imports() {
		if q.Path() == path || shortPkg(q.Path()) == path {
			return q
		}
	}
	for _, q := range p.Imports() {
		if r := findImport(q, path, seen); r != nil {
			return r
		}
	}
	return nil
}

func (eng *Engine) allTypesPkgs() []*types.Package {
	seen := map[*types.Package]bool{}
	var out []*types.Package
	var walk func(p *types.Package)
	walk = func(p *types.Package) {
		if seen[p] {
			return
		}
		seen[p] = true
		out = append(out, p)
		for _, q := range p.Imports() {
			walk(q)
		}
	}
	for _, k := range sortedKeys(eng.pkgs) {
		walk(eng.pkgs[k].Types)
	}
	return out
}

// resolveTypeName resolves a Go type written in a contract file.
func (eng *Engine) resolveTypeName(s string, pkgShort string) types.Type {
	s = strings.TrimSpace(s)
	switch s {
	case "ref":
		return types.NewPointer(types.NewStruct(nil, nil))
	case "any":
		return types.NewInterfaceType(nil, nil)
	case "time":
		s = "time.Time"
	}
	e, err := parser.ParseExpr(s)
	if err != nil {
		return nil
	}
	ex := &Exec{eng: eng}
	sc := &SpecCtx{pkg: eng.typesPkg(pkgShort), binds: map[string]*Val{}}
	return ex.resolveType(e, sc)
}

func (eng *Engine) ghostResultType(g *GhostDecl) types.Type {
	t := eng.resolveTypeName(g.Result, g.Pkg)
	if t == nil {
		return types.Typ[types.Int]
	}
	return t
}

// loadContracts reads the contract files of the loaded packages plus the
// assumed-contracts file.
func (eng *Engine) loadContracts() {
	for _, sp := range sortedKeys(eng.pkgs) {
		if f, _ := contractFileFor(eng.repo, eng.verif, sp); f != "" {
			if err := eng.cs.loadContractFile(f, sp); err != nil {
				eng.cs.Errors = append(eng.cs.Errors, err.Error())
			}
		}
	}
	matches, _ := filepath.Glob(filepath.Join(eng.verif, "contracts", "*.contracts"))
	sort.Strings(matches)
	for _, f := range matches {
		if err := eng.cs.loadContractFile(f, ""); err != nil {
			eng.cs.Errors = append(eng.cs.Errors, err.Error())
		}
	}
	eng.expandLitWildcards()
	eng.synthLockContracts()
	if eng.mutexKeys == nil {
		eng.mutexKeys = map[string]bool{}
	}
	for fk, mu := range eng.cs.Guarded {
		if k := strings.LastIndex(fk, "."); k > 0 {
			eng.mutexKeys[heapKey(fk[:k], mu)] = true
		}
	}
	for _, ld := range eng.cs.Locks {
		eng.mutexKeys[heapKey(ld.Type, ld.Mutex)] = true
	}
	eng.cs.parseAll()
	for _, t := range eng.cs.Owned {
		eng.ownedTypes[t] = true
	}
	for _, f := range eng.cs.Finals {
		finalKeys[f] = true
	}
}

func (eng *Engine) srcLine(pos token.Pos) string {
	if !pos.IsValid() {
		return ""
	}
	p := eng.fset.Position(pos)
	lines, ok := eng.srcCache[p.Filename]
	if !ok {
		data, err := os.ReadFile(p.Filename)
		if err == nil {
			lines = strings.Split(string(data), "\n")
		}
		eng.srcCache[p.Filename] = lines
	}
	if p.Line-1 < len(lines) && p.Line > 0 {
		s := strings.TrimSpace(lines[p.Line-1])
		if k := strings.Index(s, "//"); k > 0 {
			s = strings.TrimSpace(s[:k])
		}
		if len(s) > 70 {
			s = s[:70]
		}
		return s
	}
	return ""
}

// ---------------------------------------------------------------------------

type Exec struct {
	eng                  *Engine
	fn                   *FuncInfo
	info                 *types.Info
	contract             *Contract
	prop                 string
	obs                  []*Obligation
	init                 map[types.Object]*Val
	inputs               []types.Object
	entry                *State
	lets                 map[string]*Val
	rets                 []retState
	inlineRets           []retState
	inlineDepth          int
	recs                 []*recorder
	discovery            int
	bound                int
	specDepth            int
	arithMode            string
	loopOrd, selectOrd   int
	onlySelect, onlyCase int
	inLoop               int
	deferN               int
	anchorN              int
	hiddenVars           map[string]types.Object
	notes                map[string]bool
	assumptions          map[string]bool
	specErrs             []string
	curClause            string
	unsupported          []string
	dropped              map[string]int
	unknown              map[string]int
	modelUsed            map[string]int
	usedContracts        map[string]int
	assumedUsed          map[string]int
	callN                map[string]int
	callSites            map[string]map[token.Pos]int
	nameCount            map[string]int
	nowVals              []*Val
	insertOnlyN          int
	nilResetN            int
	loopOrdMax           int      // highest loop ordinal met while executing the function under verification
	tickerRefs           []string // tickers created so far by the function under verification
	lockCheck            bool
	stNow                *State // the state of the statement being executed (for obligations raised while boxing a value)
	stmtPos              token.Pos
	boxedN               int
	examined             map[string]bool // insert-only tables: (table value, key) pairs looked up
	ownsCheckOn          bool
	safetyKinds          map[string]bool
	boundMake            bool
	guardN               map[string]int
	ownsN                int
	loopMutexPre         []map[string]string
	splitCases           []string  // `split` clauses of the contract, evaluated at entry
	paramsAtEntry        bool      // evaluating an ensures clause: parameters denote entry values
	regionStart          token.Pos // where the verified region (body or fragment) begins: variables declared before it have an entry value
	finalN               int
	written              map[string]bool
	havocGhosts          bool
	curCall              *ast.CallExpr
	entryFresh           int
	keepGhosts           bool
}

func (eng *Engine) newExec(fi *FuncInfo, c *Contract, prop string) *Exec {
	ex := &Exec{eng: eng, fn: fi, contract: c, prop: prop, init: map[types.Object]*Val{}, lets: map[string]*Val{}, hiddenVars: map[string]types.Object{},
		notes: map[string]bool{}, assumptions: map[string]bool{}, dropped: map[string]int{}, unknown: map[string]int{}, modelUsed: map[string]int{},
		usedContracts: map[string]int{}, assumedUsed: map[string]int{}, callN: map[string]int{}, callSites: map[string]map[token.Pos]int{}, nameCount: map[string]int{}, guardN: map[string]int{},
		safetyKinds: map[string]bool{"index": true, "slice-bounds": true, "div-by-zero": true, "make-size": true, "make-cap": true, "make-chan-size": true, "type-assert": true, "panic": true, "ticker-interval-positive": true, "close-of-closed-channel": true, "interface-compare": true}}
	if fi != nil && fi.Pkg != nil {
		ex.info = fi.Pkg.TypesInfo
	}
	ex.arithMode = "nooverflow"
	if c != nil {
		ex.arithMode = c.Arith
	}
	return ex
}

func (ex *Exec) safety(st *State, kind string, pos token.Pos, goal string) {
	if ex.specDepth > 0 || ex.discovery > 0 || !ex.safetyKinds[kind] {
		return
	}
	if goal == "true" {
		return
	}
	ex.obligNamed(st, "safety", "safety:"+kind+"("+ex.eng.srcLine(pos)+")", pos, goal, kind)
}

func (ex *Exec) oblig(st *State, kind, name string, pos token.Pos, goal string, text string) {
	if kind == "overflow" {
		name = "overflow:" + strings.SplitN(name, "@", 2)[0] + "(" + ex.eng.srcLine(pos) + ")"
	}
	ex.obligNamed(st, kind, name, pos, goal, text)
}

func (ex *Exec) obligCl(st *State, kind, name string, pos token.Pos, goal string, cl *Clause) {
	if !ex.clauseActive(cl) {
		return
	}
	ob := ex.obligNamed(st, kind, name, pos, goal, cl.Kind+" "+cl.Text)
	if ob != nil {
		ob.Finding = cl.Finding
	}
}

func (ex *Exec) clauseActive(cl *Clause) bool {
	if len(cl.Props) == 0 || ex.prop == "" {
		return true
	}
	for _, p := range cl.Props {
		if p == ex.prop {
			return true
		}
	}
	return false
}

func (ex *Exec) obligNamed(st *State, kind, name string, pos token.Pos, goal string, text string) *Obligation {
	if ex.discovery > 0 {
		return nil
	}
	ex.nameCount[name]++
	if n := ex.nameCount[name]; n > 1 {
		name = fmt.Sprintf("%s#%d", name, n)
	}
	ref := "?"
	if ex.contract != nil {
		ref = ex.contract.Func
		if ex.contract.Frag != "" {
			ref += "[" + ex.contract.Frag + "]"
		}
	} else if ex.fn != nil {
		ref = ex.fn.Ref
	}
	ob := &Obligation{Prop: ex.prop, Func: ref, Name: ref + "/" + name, Kind: kind, Pos: ex.pos(pos), Text: text}
	ob.Script = ex.eng.smt.script(st.pc, not(goal), true)
	if kind == "safety" && ex.inlineDepth == 0 {
		ob.ex = ex
		ob.cases = []retState{{st: st.clone()}}
	}
	if len(ex.splitCases) > 0 {
		for k, cs := range ex.splitAssumptions() {
			o2 := *ob
			o2.Name = fmt.Sprintf("%s[case %d]", ob.Name, k+1)
			o2.Script = ex.eng.smt.script(append(append([]string{}, st.pc...), cs), not(goal), true)
			ex.obs = append(ex.obs, &o2)
		}
		return ob
	}
	ex.obs = append(ex.obs, ob)
	return ob
}

// splitAssumptions: one assumption per `split` case of the contract, then "none of the cases".
func (ex *Exec) splitAssumptions() []string {
	var out, negs []string
	for _, c := range ex.splitCases {
		out = append(out, c)
		negs = append(negs, not(c))
	}
	return append(out, and(negs...))
}

// obligCases: goal must hold in every (state, goal) case.
func (ex *Exec) obligCases(kind, name string, pos token.Pos, states []*State, goals []string, cl *Clause, text string) *Obligation {
	var cases []string
	for i, s := range states {
		cases = append(cases, and(append(append([]string{}, s.pc...), not(goals[i]))...))
	}
	ref := ex.contract.Func
	if ex.contract.Frag != "" {
		ref += "[" + ex.contract.Frag + "]"
	}
	ob := &Obligation{Prop: ex.prop, Func: ref, Name: ref + "/" + name, Kind: kind, Pos: ex.pos(pos), Text: text}
	if cl != nil {
		ob.Finding = cl.Finding
	}
	ob.Script = ex.eng.smt.script(nil, or(cases...), true)
	if kind == "post" {
		ob.ex = ex
		ob.cases = ex.rets
	}
	if len(ex.splitCases) > 0 {
		for k, cs := range ex.splitAssumptions() {
			o2 := *ob
			o2.Name = fmt.Sprintf("%s[case %d]", ob.Name, k+1)
			o2.Script = ex.eng.smt.script([]string{cs}, or(cases...), true)
			ex.obs = append(ex.obs, &o2)
		}
		return ob
	}
	ex.obs = append(ex.obs, ob)
	return ob
}

type FuncReport struct {
	Sweep       bool // only the safety obligations were kept (property-wide no-panic sweep)
	Func        string
	File        string
	Obligations []*Obligation
	Notes       []string
	Assumptions []string
	Unknown     map[string]int
	Dropped     map[string]int
	Models      map[string]int
	Contracts   map[string]int
	Assumed     map[string]int
	SpecErrs    []string
	Returns     int
	Unsupported []string
}

// findFragment locates the statement list of a fragment selector.
var fragEnd token.Pos

func findFragment(fi *FuncInfo, frag string) (pre ast.Stmt, body []ast.Stmt, pos token.Pos, ok bool) {
	fragEnd = token.NoPos
	f := strings.Fields(frag)
	if len(f) < 3 {
		return nil, nil, 0, false
	}
	var n, k int
	fmt.Sscan(f[1], &n)
	switch f[0] {
	case "select":
		fmt.Sscan(f[3], &k)
		cnt := 0
		var found *ast.SelectStmt
		ast.Inspect(fi.Body, func(nd ast.Node) bool {
			if _, isLit := nd.(*ast.FuncLit); isLit && nd != ast.Node(fi.Lit) {
				return false
			}
			if s, ok := nd.(*ast.SelectStmt); ok {
				cnt++
				if cnt == n {
					found = s
				}
			}
			return true
		})
		if found == nil || k < 1 || k > len(found.Body.List) {
			return nil, nil, 0, false
		}
		cc := found.Body.List[k-1].(*ast.CommClause)
		if len(cc.Body) > 0 {
			fragEnd = cc.Body[len(cc.Body)-1].End()
		}
		return cc.Comm, cc.Body, cc.Pos(), true
	case "loop":
		cnt := 0
		var b *ast.BlockStmt
		ast.Inspect(fi.Body, func(nd ast.Node) bool {
			if _, isLit := nd.(*ast.FuncLit); isLit && nd != ast.Node(fi.Lit) {
				return false
			}
			switch s := nd.(type) {
			case *ast.ForStmt:
				cnt++
				if cnt == n {
					b = s.Body
				}
			case *ast.RangeStmt:
				cnt++
				if cnt == n {
					b = s.Body
				}
			}
			return true
		})
		if b == nil {
			return nil, nil, 0, false
		}
		fragEnd = b.Rbrace
		return nil, b.List, b.Lbrace, true
	}
	return nil, nil, 0, false
}

// verify generates all obligations for one contract under one property.
func (eng *Engine) verify(c *Contract, prop string) (rep *FuncReport, err error) {
	fi := eng.findFunc(c.Func)
	rep = &FuncReport{Func: c.Func}
	if fi == nil || fi.Body == nil {
		// the function the contract is written on is gone: everything the contract established is no longer
		// established. That is a failed obligation of this contract (the other contracts are still checked).
		ob := &Obligation{Prop: prop, Func: c.Func, Name: obName(c) + "/contract:applies-to-the-code", Kind: "contract", Pos: "", Result: "engine",
			Text: "the function under contract exists in the working tree; failed: function " + c.Func + " not found (renamed or removed without its contract?)"}
		ob.Script = "(check-sat)\n"
		rep.Obligations = []*Obligation{ob}
		return rep, nil
	}
	rep.File = fi.File
	ex := eng.newExec(fi, c, prop)
	defer func() {
		if r := recover(); r != nil {
			err = fmt.Errorf("engine fault while executing %s: %v", c.Func, r)
			if os.Getenv("GOVC_DEBUG") != "" {
				panic(r)
			}
		}
	}()
	for _, cl := range c.Clauses {
		if cl.Kind == "assert" {
			switch strings.TrimSpace(cl.Text) {
			case "locks":
				ex.lockCheck = true
			case "owns":
				ex.ownsCheckOn = true
			case "nil":
				ex.safetyKinds["nil-deref"] = true
			case "nosafety":
				ex.safetyKinds = map[string]bool{}
			case "boundedmake":
				ex.boundMake = true
				ex.safetyKinds["make-bounded"] = true
			default:
				if strings.HasPrefix(strings.TrimSpace(cl.Text), "only ") {
					ex.safetyKinds = map[string]bool{}
					for _, k := range strings.Fields(strings.TrimPrefix(strings.TrimSpace(cl.Text), "only ")) {
						ex.safetyKinds[k] = true
						if k == "make-bounded" {
							ex.boundMake = true
						}
					}
				}
			}
		}
	}
	st := &State{vars: map[types.Object]*Val{}, heap: map[string]string{}, epoch: "0"}
	ex.entry = &State{vars: map[types.Object]*Val{}, heap: map[string]string{}, epoch: "0"}
	bodyPos := fi.Body.Lbrace + 1
	ex.regionStart = bodyPos
	var stmts []ast.Stmt = fi.Body.List
	var pre ast.Stmt
	if c.Frag != "" {
		var ok bool
		pre, stmts, bodyPos, ok = findFragment(fi, c.Frag)
		ex.regionStart = bodyPos
		if !ok {
			return rep, fmt.Errorf("fragment %q of %s not found", c.Frag, c.Func)
		}
		bodyPos++
	}
	// lets and requires at entry
	for _, cl := range c.Clauses {
		if !ex.clauseActive(cl) {
			continue
		}
		switch cl.Kind {
		case "let":
			ex.lets[cl.LetName] = ex.evalClauseVal(st, cl, ex.entry, bodyPos, nil)
		case "requires", "domain":
			st.assume(ex.evalClause(st, cl, ex.entry, bodyPos, nil, nil))
		case "split":
			// case analysis over the inputs: every proof obligation of this contract is discharged once per
			// `split` case and once more for "none of them" (so the cases need not be exhaustive)
			ex.splitCases = append(ex.splitCases, ex.evalClause(st, cl, ex.entry, bodyPos, nil, nil))
		}
	}
	// lock discipline: this goroutine holds no mutex when the function is entered, except what the contract's
	// own preconditions say about the receiver's mutex (the heap cell of a mutex models THIS goroutine's hold on it)
	if ex.lockCheck {
		recvRef, recvKeyPrefix := "", ""
		if fi.Sig != nil && fi.Sig.Recv() != nil {
			if n := namedOf(fi.Sig.Recv().Type()); n != nil {
				recvKeyPrefix = heapTypeKey(n) + "#"
				if _, isPtr := fi.Sig.Recv().Type().Underlying().(*types.Pointer); isPtr {
					recvRef = ex.readVar(st, fi.Sig.Recv()).S
				}
			}
		}
		// every mutex field of the receiver's type counts, declared in a directive or not (a mutex added later is
		// free at entry like the others)
		if fi.Sig != nil && fi.Sig.Recv() != nil {
			if n := namedOf(fi.Sig.Recv().Type()); n != nil {
				if stt, ok := n.Underlying().(*types.Struct); ok {
					for k := 0; k < stt.NumFields(); k++ {
						if ts := types.TypeString(stt.Field(k).Type(), nil); ts == "sync.Mutex" || ts == "sync.RWMutex" {
							eng.mutexKeys[heapKey(heapTypeKey(n), stt.Field(k).Name())] = true
						}
					}
				}
			}
		}
		keys := make([]string, 0, len(eng.mutexKeys))
		for k := range eng.mutexKeys {
			keys = append(keys, k)
		}
		sort.Strings(keys)
		for _, k := range keys {
			eng.regHeap(k, "(Array Int Int)")
			arr := ex.heapArr(st, k, "Int")
			// the receiver's own mutex is what the contract's preconditions speak of (free, or held by the caller);
			// a mutex of the receiver that no precondition mentions is free like everybody else's
			mentioned := false
			if recvRef != "" && strings.HasPrefix(k, recvKeyPrefix) {
				re := regexp.MustCompile(`\.` + regexp.QuoteMeta(strings.TrimPrefix(k, recvKeyPrefix)) + `\b`)
				for _, cl := range c.Clauses {
					if cl.Kind == "requires" && re.MatchString(cl.Text) {
						mentioned = true
					}
				}
			}
			if mentioned {
				st.assume("(forall ((r Int)) (! (=> (not (= r " + recvRef + ")) (= (select " + arr + " r) 0)) :pattern ((select " + arr + " r))))")
			} else {
				st.assume("(forall ((r Int)) (! (= (select " + arr + " r) 0) :pattern ((select " + arr + " r))))")
			}
		}
	}
	// `assert uses <lemma>`: a separately proved lemma is available to this function's obligations
	for _, cl := range c.Clauses {
		if cl.Kind == "assert" && strings.HasPrefix(cl.Text, "uses ") {
			name := strings.TrimSpace(strings.TrimPrefix(cl.Text, "uses "))
			found := false
			for _, lm := range eng.cs.Lemmas {
				if lm.Name == name && lm.Expr != nil && lm.Finding == "" {
					found = true
					if !hasProp(lm.Props, prop) {
						ex.specErrs = append(ex.specErrs, c.Func+": lemma "+name+" is used but not proved under "+prop)
					}
					sc := &SpecCtx{old: st, binds: map[string]*Val{}, subst: map[types.Object]*Val{}, pkg: eng.typesPkg(lm.Pkg)}
					ex.specDepth++
					g := ex.eval(st, lm.Expr, sc)
					ex.specDepth--
					st.assume(g.S)
				}
			}
			if !found {
				ex.specErrs = append(ex.specErrs, c.Func+": unknown lemma "+name)
			}
		}
	}
	// object invariants of the receiver are assumed at entry
	ex.objInvs(st, true, bodyPos)
	// vacuity guard: the preconditions are satisfiable
	cov := &Obligation{Prop: prop, Func: c.Func, Name: obName(c) + "/cover:requires", Kind: "cover", ExpectSat: true, Pos: ex.pos(bodyPos), Text: "preconditions are satisfiable"}
	cov.Script = eng.smt.script(st.pc, "true", false)
	ex.obs = append(ex.obs, cov)
	// function-level recorder for the frame check
	frameRec := &recorder{vars: map[types.Object]bool{}, heap: map[string]bool{}}
	ex.recs = append(ex.recs, frameRec)
	if pre != nil {
		ex.execStmt(st, pre)
	}
	f := ex.execBlock(st, stmts)
	for _, s := range f.normal {
		ex.finishReturn(s, ex.implicitResults(s), fi.Body.Rbrace)
	}
	if c.Frag != "" {
		// leaving the fragment by break/continue also ends it
		for _, ss := range f.breaks {
			for _, s := range ss {
				ex.finishReturn(s, nil, fi.Body.Rbrace)
			}
		}
		for _, ss := range f.continues {
			for _, s := range ss {
				ex.finishReturn(s, nil, fi.Body.Rbrace)
			}
		}
	}
	ex.recs = nil
	rep.Returns = len(ex.rets)
	endPos := fi.Body.Rbrace
	if c.Frag != "" {
		endPos = bodyPos
		if fragEnd.IsValid() {
			endPos = fragEnd
		}
	}
	// ghost updates: executed at every return (the function's ghost effect)
	for _, cl := range c.Clauses {
		if cl.Kind != "ghostupdate" || !ex.clauseActive(cl) {
			continue
		}
		for _, r := range ex.rets {
			pre := r.st.clone()
			sc := ex.ownCtx(ex.entry, endPos)
			for k, v := range ex.lets {
				sc.binds[k] = v
			}
			if ex.fn.Obj != nil {
				bindResults(sc, ex.fn.Obj, r.results)
			}
			ex.specDepth++
			for _, item := range splitTopLevel(cl.LetName, ',') {
				ex.havocSpecLval(r.st, strings.TrimSpace(item), sc)
			}
			_ = pre
			g := ex.eval(r.st, cl.Expr, sc)
			ex.specDepth--
			r.st.assume(g.S)
		}
	}
	// postconditions
	nEns := 0
	for _, cl := range c.Clauses {
		if cl.Kind != "ensures" || !ex.clauseActive(cl) {
			continue
		}
		nEns++
		name := cl.Name
		if name == "" {
			name = fmt.Sprintf("#%d", nEns)
		}
		var states []*State
		var goals []string
		for _, r := range ex.rets {
			g := ex.evalClause(r.st, cl, ex.entry, endPos, nil, r.results)
			states = append(states, r.st)
			goals = append(goals, g)
		}
		if len(states) == 0 {
			continue
		}
		ex.obligCases("post", "post:"+name, fi.Body.Rbrace, states, goals, cl, "ensures "+cl.Text)
	}
	// object invariants at exit
	for _, r := range ex.rets {
		ex.objInvsExit(r.st, bodyPos)
	}
	// cover: each return is reachable is too strong in general; check that some return is reachable
	if len(ex.rets) > 0 {
		var cases []string
		for _, r := range ex.rets {
			cases = append(cases, and(r.st.pc...))
		}
		cv := &Obligation{Prop: prop, Func: c.Func, Name: obName(c) + "/cover:returns", Kind: "cover", ExpectSat: true, Pos: ex.pos(fi.Body.Rbrace), Text: "some return is reachable under the preconditions"}
		cv.Script = eng.smt.script(nil, or(cases...), false)
		ex.obs = append(ex.obs, cv)
	}
	for _, cl := range c.Clauses {
		if cl.Kind == "cover" && ex.clauseActive(cl) {
			var cases []string
			for _, r := range ex.rets {
				g := ex.evalClause(r.st, cl, ex.entry, bodyPos, nil, r.results)
				cases = append(cases, and(append(append([]string{}, r.st.pc...), g)...))
			}
			cv := &Obligation{Prop: prop, Func: c.Func, Name: obName(c) + "/cover:" + cl.Name, Kind: "cover", ExpectSat: true, Pos: ex.pos(fi.Body.Rbrace), Text: "cover " + cl.Text}
			cv.Script = eng.smt.script(nil, or(cases...), false)
			ex.obs = append(ex.obs, cv)
		}
	}
	// frame
	if !c.NoFrame {
		ex.frameCheck(frameRec, bodyPos)
	} else {
		ex.assumption("frame (modifies clause) of " + c.Func + " is not checked")
	}
	// `assert finding <id> <substring>`: obligations whose name contains the substring are
	// the known finding <id> (expected to fail until the finding is fixed)
	for _, cl := range c.Clauses {
		if cl.Kind == "assert" && strings.HasPrefix(cl.Text, "finding ") {
			f := strings.SplitN(strings.TrimPrefix(cl.Text, "finding "), " ", 2)
			if len(f) == 2 {
				for _, ob := range ex.obs {
					if strings.Contains(ob.Name, strings.TrimSpace(f[1])) && !ob.ExpectSat {
						ob.Finding = f[0]
					}
				}
			}
		}
	}
	// a `loop N` clause that names a loop the function (or fragment) does not have speaks of code that is gone
	if ex.discovery == 0 {
		maxLoop := 0
		for _, cl := range c.Clauses {
			if cl.Loop > maxLoop {
				maxLoop = cl.Loop
			}
		}
		if maxLoop > ex.loopOrdMax {
			ex.specErrs = append(ex.specErrs, fmt.Sprintf("%s: the contract has clauses for loop %d but only %d loop(s) were found", c.Func, maxLoop, ex.loopOrdMax))
		}
	}
	if len(ex.specErrs) > 0 {
		// the contract no longer type-checks against the function (a variable it names
		// vanished, a callee lost its contract, ...): that is a failed obligation of its own
		ob := &Obligation{Prop: prop, Func: c.Func, Name: obName(c) + "/contract:applies-to-the-code", Kind: "contract", Pos: ex.pos(bodyPos), Result: "engine",
			Text: "every clause of the contract can be evaluated against the current code; failed: " + strings.Join(dedupe(ex.specErrs), " | ")}
		ob.Script = "(check-sat)\n"
		ex.obs = append(ex.obs, ob)
		ex.specErrs = nil
	}
	rep.Obligations = ex.obs
	rep.Notes = mapKeys(ex.notes)
	rep.Assumptions = mapKeys(ex.assumptions)
	rep.Unknown, rep.Dropped, rep.Models, rep.Contracts, rep.Assumed = ex.unknown, ex.dropped, ex.modelUsed, ex.usedContracts, ex.assumedUsed
	rep.SpecErrs = ex.specErrs
	rep.Unsupported = ex.unsupported
	return rep, nil
}

func dedupe(xs []string) []string {
	seen := map[string]bool{}
	var out []string
	for _, x := range xs {
		if !seen[x] {
			seen[x] = true
			out = append(out, x)
		}
	}
	if len(out) > 6 {
		out = append(out[:6], fmt.Sprintf("... and %d more", len(out)-6))
	}
	return out
}

func obName(c *Contract) string {
	if c.Frag != "" {
		return c.Func + "[" + c.Frag + "]"
	}
	return c.Func
}

func mapKeys(m map[string]bool) []string {
	ks := make([]string, 0, len(m))
	for k := range m {
		ks = append(ks, k)
	}
	sort.Strings(ks)
	return ks
}

func (ex *Exec) implicitResults(st *State) []*Val {
	var out []*Val
	if ex.fn.Sig == nil {
		return nil
	}
	for i := 0; i < ex.fn.Sig.Results().Len(); i++ {
		out = append(out, ex.readVar(st, ex.fn.Sig.Results().At(i)))
	}
	return out
}

// frameCheck: every heap location written outside the modifies clause keeps its value.
func (ex *Exec) frameCheck(rec *recorder, pos token.Pos) {
	c := ex.contract
	hasMod := false
	for _, cl := range c.Clauses {
		if cl.Kind == "modifies" {
			hasMod = true
		}
	}
	if !hasMod {
		// no modifies clause: the contract does not claim a frame; callers
		// then see "modifies nothing", so it must be proved that nothing changed.
	}
	if c.Havoc {
		// callers see the whole heap (ghost state included) havocked: no frame is claimed
		return
	}
	// the dynamic-type ghost is written only for objects the function itself allocates: not part of any frame
	delete(rec.heap, heapKey("G$", "dynType"))
	// likewise the period of a ticker: written only for tickers the function itself creates
	delete(rec.heap, heapKey("G$", "tickerPeriod"))
	if c.HavocHeap && !rec.havocDone {
		// program state may change arbitrarily; ghost effect logs only as declared
		for k := range rec.heap {
			if !strings.HasPrefix(k, "G$") {
				delete(rec.heap, k)
			}
		}
		rec.all = false
		rec.havocDone = true
		ex.frameCheck(rec, pos)
		return
	}
	if rec.all {
		ob := &Obligation{Prop: ex.prop, Func: c.Func, Name: obName(c) + "/frame:unknown-call", Kind: "frame", Pos: ex.pos(pos), Text: "the function calls code without a contract, so its frame cannot be established; declare `havoc` or give the callee a contract"}
		ob.Script = "(check-sat)\n"
		ob.Result = "engine"
		ex.obs = append(ex.obs, ob)
		return
	}
	// collect allowed (key -> refs) from modifies items evaluated at entry
	allowed := map[string][]string{}
	allowedAll := map[string]bool{}
	everything := false
	sc := ex.ownCtx(ex.entry, pos)
	for k, v := range ex.lets {
		sc.binds[k] = v
	}
	for _, cl := range c.Clauses {
		if cl.Kind != "modifies" && cl.Kind != "ghostupdate" {
			continue
		}
		text := cl.Text
		if cl.Kind == "ghostupdate" {
			text = cl.LetName
		}
		for _, item := range splitTopLevel(text, ',') {
			item = strings.TrimSpace(item)
			if item == "" || item == "nothing" {
				continue
			}
			if item == "everything" {
				everything = true
				continue
			}
			if m := allGhostRe.FindStringSubmatch(item); m != nil {
				allowedAll[heapKey("G$", m[1])] = true
				continue
			}
			if keys, _, ok := ex.fieldKeys(item, sc); ok {
				for _, k := range keys {
					allowedAll[k] = true
				}
				continue
			}
			e, err := parseSpecExpr(item)
			if err != nil {
				ex.specErr("bad modifies item %q", item)
				continue
			}
			// a ghost without parameters is a single cell: the whole (one-entry) array is its frame
			if ce, ok := e.(*ast.CallExpr); ok && len(ce.Args) == 0 {
				if id, ok := ce.Fun.(*ast.Ident); ok {
					if g, ok := ex.eng.cs.Ghosts[id.Name]; ok && len(g.Params) == 0 {
						allowedAll[heapKey("G$", g.Name)] = true
						continue
					}
				}
			}
			ex.specDepth++
			locs := ex.specLocs(ex.entry, e, sc)
			ex.specDepth--
			for _, l := range locs {
				if !l.Heap {
					continue
				}
				prefix := strings.Join(l.Path, ".")
				l.Sh.leafPaths(prefix, func(p string, _ *Shape) {
					allowed[heapKey(l.TKey, p)] = append(allowed[heapKey(l.TKey, p)], l.Ref)
				})
			}
		}
	}
	if everything {
		return
	}
	if c.LocalCalls {
		// a function that calls through function values implicitly changes the call logs
		for _, g := range []string{"fnCalls", "fnCallsT", "fnCalledN"} {
			allowedAll[heapKey("G$", g)] = true
		}
	}
	keys := make([]string, 0, len(rec.heap))
	for k := range rec.heap {
		keys = append(keys, k)
	}
	sort.Strings(keys)
	for _, k := range keys {
		if allowedAll[k] {
			continue
		}
		if strings.HasPrefix(k, "G$#") {
			// a ghost with a composite result: all(g) covers every leaf g.x
			if d := strings.Index(k, "."); d > 0 && allowedAll[k[:d]] {
				continue
			}
		}
		srt := ex.eng.heapSortOf(k)
		if strings.Contains(k, "#") {
			// lock state fields are ghost-like: a function may leave its own locks as found
		}
		r := ex.eng.smt.fresh("fr", "Int")
		var states []*State
		var goals []string
		for _, rs := range ex.rets {
			s2 := rs.st.clone()
			s2.assume("(<= 0 " + r + ")")
			s2.assume("(< " + r + " " + ex.eng.alloc0() + ")")
			for _, a := range allowed[k] {
				s2.assume(not(eq(r, a)))
			}
			h1 := s2.heap[k]
			if h1 == "" {
				h1 = ex.eng.smt.named("H"+s2.epochOf(k)+"_"+k, srt)
			}
			h0 := ex.eng.smt.named("H0_"+k, srt)
			states = append(states, s2)
			goals = append(goals, eq("(select "+h1+" "+r+")", "(select "+h0+" "+r+")"))
		}
		if len(states) == 0 {
			continue
		}
		ex.obligCases("frame", "frame:"+k, pos, states, goals, nil, "only locations listed in `modifies` change: "+k)
	}
}

// objInvs assumes (entry) the object invariants of the receiver.
func (ex *Exec) objInvs(st *State, entry bool, pos token.Pos) {
	if ex.fn.Sig == nil || ex.fn.Sig.Recv() == nil || ex.contract.Unshared || ex.contract.NoInv {
		return
	}
	n := namedOf(ex.fn.Sig.Recv().Type())
	if n == nil {
		return
	}
	for _, oi := range ex.eng.cs.ObjInvs[typeKey(n)] {
		if oi.Expr == nil {
			continue
		}
		g := ex.evalObjInv(st, oi, pos)
		st.assume(g)
	}
}

func (ex *Exec) evalObjInv(st *State, oi *ObjInv, pos token.Pos) string {
	sc := ex.ownCtx(ex.entry, pos)
	recv := ex.readVar(st, ex.fn.Sig.Recv())
	sc.binds["this"] = recv
	ex.specDepth++
	saved := ex.curClause
	ex.curClause = "objinv " + oi.Name
	v := ex.eval(st, oi.Expr, sc)
	ex.curClause = saved
	ex.specDepth--
	return v.S
}

func (ex *Exec) objInvsExit(st *State, pos token.Pos) {
	if ex.fn.Sig == nil || ex.fn.Sig.Recv() == nil || (ex.contract != nil && ex.contract.NoInv) {
		return
	}
	n := namedOf(ex.fn.Sig.Recv().Type())
	if n == nil {
		return
	}
	for _, oi := range ex.eng.cs.ObjInvs[typeKey(n)] {
		if oi.Expr == nil {
			continue
		}
		// evaluated on the receiver's entry value (receivers are not reassigned)
		sc := ex.ownCtx(ex.entry, pos)
		sc.binds["this"] = ex.readVar(ex.entry, ex.fn.Sig.Recv())
		ex.specDepth++
		v := ex.eval(st, oi.Expr, sc)
		ex.specDepth--
		ex.obligNamed(st, "objinv", "objinv:"+oi.Name, pos, v.S, "object invariant "+oi.Name+": "+oi.Text)
	}
}

// verifyLemma: a closed formula over spec functions.
func (eng *Engine) verifyLemma(lm *Lemma, prop string) (*Obligation, []string) {
	ex := eng.newExec(&FuncInfo{Ref: "lemma " + lm.Name}, nil, prop)
	if p, ok := eng.pkgs[lm.Pkg]; ok {
		ex.fn.Pkg = p
		ex.info = p.TypesInfo
	}
	st := &State{vars: map[types.Object]*Val{}, heap: map[string]string{}, epoch: "0"}
	sc := &SpecCtx{old: st, binds: map[string]*Val{}, subst: map[types.Object]*Val{}, pkg: eng.typesPkg(lm.Pkg)}
	ex.specDepth++
	ex.curClause = "lemma " + lm.Name
	var g string
	if lm.Expr != nil {
		body := lm.Expr
		// a lemma `forall xs :: P` is proved for fresh constants xs (no binder), so that contracts applied
		// inside P can contribute their facts about those constants
		if call, ok := ast.Unparen(body).(*ast.CallExpr); ok {
			if id, ok := call.Fun.(*ast.Ident); ok && id.Name == "forall" && len(call.Args) == 1 {
				if lit, ok := call.Args[0].(*ast.FuncLit); ok && len(lit.Body.List) == 1 {
					okAll := true
					n := sc
					var ranges []string
					for _, f := range lit.Type.Params.List {
						t := ex.resolveType(f.Type, sc)
						if t == nil {
							okAll = false
							break
						}
						sh := eng.sh.shapeOf(t)
						if !sh.IsLeaf() {
							okAll = false
							break
						}
						for _, nm := range f.Names {
							c := eng.smt.fresh("sk_"+nm.Name, sh.Leaf)
							n = n.with(nm.Name, &Val{Sh: sh, T: t, S: c})
							if lo, hi, ok := intRange(t); ok {
								ranges = append(ranges, "(<= "+lo+" "+c+")", "(<= "+c+" "+hi+")")
							}
						}
					}
					if ret, isRet := lit.Body.List[0].(*ast.ReturnStmt); okAll && isRet && len(ret.Results) == 1 {
						for _, r := range ranges {
							st.assume(r)
						}
						sc = n
						body = ret.Results[0]
					}
				}
			}
		}
		g = ex.eval(st, body, sc).S
	} else {
		g = "true"
	}
	ob := &Obligation{Prop: prop, Func: "lemma", Name: "lemma/" + lm.Name, Kind: "lemma", Text: lm.Text, Finding: lm.Finding}
	ob.Script = eng.smt.script(st.pc, not(g), true)
	return ob, ex.specErrs
}

// confineObligations decides a `confine` directive over the typed AST of the whole working tree: one obligation
// per field of the struct that no other discipline covers. The obligation holds when every assignment to the field
// (plain, op-assign, ++/--, address taken) is in an init function - those run before the goroutines of the type
// exist - or when every access, read or write, is in an init function or in a function of the one goroutine named
// under `thread:`, or is made while some mutex is held (going by the Lock / Unlock calls that precede it in its function:
// a field given a lock of its own later on is not reported for want of a declaration). A function literal counts as part of the function that contains it, except that a literal
// started with `go` is neither init nor thread (it is a goroutine of its own).
func (eng *Engine) confineObligations(cf Confine, prop string) []*Obligation {
	var st *types.Struct
	var named *types.Named
	for _, p := range eng.pkgs {
		if p.Types == nil {
			continue
		}
		for _, n := range p.Types.Scope().Names() {
			tn, ok := p.Types.Scope().Lookup(n).(*types.TypeName)
			if !ok {
				continue
			}
			nm, ok := tn.Type().(*types.Named)
			if !ok || typeKey(nm) != cf.Type {
				continue
			}
			if s, ok := nm.Underlying().(*types.Struct); ok {
				st, named = s, nm
			}
		}
	}
	mk := func(name, text string, ok bool, pos string) *Obligation {
		ob := &Obligation{Prop: prop, Func: cf.Type, Name: cf.Type + "/confined:" + name, Kind: "confine", Pos: pos, Text: text, Solver: "govc (typed AST)"}
		if ok {
			ob.Result = "unsat"
			ob.Script = "(assert false)\n(check-sat)\n"
		} else {
			ob.Result = "access"
			ob.Script = "(check-sat)\n"
		}
		return ob
	}
	if st == nil {
		return []*Obligation{mk("type-exists", "the struct under the confine directive exists; failed: "+cf.Type+" not found", false, "")}
	}
	_ = named
	selfSync := func(t types.Type) bool {
		s := types.TypeString(t, nil)
		if strings.HasPrefix(s, "sync.") || strings.HasPrefix(s, "sync/atomic.") || strings.HasPrefix(s, "*sync.") {
			return true
		}
		_, isChan := t.Underlying().(*types.Chan)
		return isChan
	}
	type acc struct {
		fn     string
		write  bool
		pos    token.Pos
		gofn   bool
		locked bool // some mutex is held, going by the Lock / Unlock calls that precede the access in its function
	}
	accs := map[*types.Var][]acc{}
	fields := map[*types.Var]bool{}
	for i := 0; i < st.NumFields(); i++ {
		fields[st.Field(i)] = true
	}
	for _, p := range eng.pkgs {
		if p.TypesInfo == nil {
			continue
		}
		for _, f := range p.Syntax {
			if strings.HasSuffix(eng.fset.Position(f.Pos()).Filename, "_test.go") {
				continue
			}
			for _, d := range f.Decls {
				fd, ok := d.(*ast.FuncDecl)
				if !ok || fd.Body == nil {
					continue
				}
				writes := map[ast.Expr]bool{}
				goLits := map[*ast.FuncLit]bool{}
				// positions where some mutex is taken / given back (deferred unlocks give it back at the end)
				var lockPos, unlockPos []token.Pos
				deferred := map[*ast.CallExpr]bool{}
				ast.Inspect(fd.Body, func(n ast.Node) bool {
					switch x := n.(type) {
					case *ast.DeferStmt:
						deferred[x.Call] = true
					case *ast.CallExpr:
						if sel, ok := x.Fun.(*ast.SelectorExpr); ok && len(x.Args) == 0 {
							switch sel.Sel.Name {
							case "Lock", "RLock":
								lockPos = append(lockPos, x.Pos())
							case "Unlock", "RUnlock":
								if !deferred[x] {
									unlockPos = append(unlockPos, x.Pos())
								}
							}
						}
					}
					return true
				})
				underLock := func(p token.Pos) bool {
					n := 0
					for _, q := range lockPos {
						if q < p {
							n++
						}
					}
					for _, q := range unlockPos {
						if q < p {
							n--
						}
					}
					return n > 0
				}
				ast.Inspect(fd.Body, func(n ast.Node) bool {
					switch x := n.(type) {
					case *ast.AssignStmt:
						for _, l := range x.Lhs {
							writes[ast.Unparen(l)] = true
						}
					case *ast.IncDecStmt:
						writes[ast.Unparen(x.X)] = true
					case *ast.UnaryExpr:
						if x.Op == token.AND {
							writes[ast.Unparen(x.X)] = true
						}
					case *ast.GoStmt:
						if lit, ok := x.Call.Fun.(*ast.FuncLit); ok {
							goLits[lit] = true
						}
					}
					return true
				})
				var walk func(n ast.Node, inGo bool)
				walk = func(n ast.Node, inGo bool) {
					ast.Inspect(n, func(m ast.Node) bool {
						if lit, ok := m.(*ast.FuncLit); ok && m != n {
							walk(lit.Body, inGo || goLits[lit])
							return false
						}
						sel, ok := m.(*ast.SelectorExpr)
						if !ok {
							return true
						}
						s := p.TypesInfo.Selections[sel]
						if s == nil || s.Kind() != types.FieldVal {
							return true
						}
						v, ok := s.Obj().(*types.Var)
						if !ok || !fields[v] {
							return true
						}
						accs[v] = append(accs[v], acc{fn: fd.Name.Name, write: writes[sel], pos: sel.Pos(), gofn: inGo, locked: underLock(sel.Pos())})
						return true
					})
				}
				walk(fd.Body, false)
			}
		}
	}
	var out []*Obligation
	for i := 0; i < st.NumFields(); i++ {
		v := st.Field(i)
		key := cf.Type + "#" + v.Name()
		if finalKeys[key] || selfSync(v.Type()) {
			continue
		}
		if _, g := eng.cs.Guarded[cf.Type+"."+v.Name()]; g {
			continue
		}
		text := "field " + v.Name() + " of " + cf.Type + " is assigned only by the init functions, or is touched only by them and by the functions of one goroutine"
		var strayW, strayA []string
		pos := ""
		for _, a := range accs[v] {
			init := cf.Init[a.fn] && !a.gofn
			thr := cf.Thread[a.fn] && !a.gofn
			where := a.fn
			if a.gofn {
				where += " (in a go func)"
			}
			at := eng.fset.Position(a.pos)
			loc := fmt.Sprintf("%s at %s:%d", where, filepath.Base(at.Filename), at.Line)
			if a.write && !init {
				strayW = append(strayW, loc)
			}
			if !init && !thr && !a.locked {
				strayA = append(strayA, loc)
				if pos == "" {
					pos = fmt.Sprintf("%s:%d", shortFile(eng, at.Filename), at.Line)
				}
			}
		}
		ok := len(strayW) == 0 || len(strayA) == 0
		if !ok {
			text += "; failed: it is assigned outside the init functions (" + strings.Join(strayW, ", ") + ") and also touched with no mutex held outside both the init functions and the goroutine (" + strings.Join(strayA, ", ") + ")"
		}
		out = append(out, mk(v.Name(), text, ok, pos))
	}
	return out
}

func shortFile(eng *Engine, fn string) string {
	if r, err := filepath.Rel(eng.repo, fn); err == nil {
		return r
	}
	return fn
}

// goTrackedObligations decides a `gotracked` directive over the typed AST: one obligation per `go` statement in the
// methods of the type (function literals included). It holds when a statement `<x>.<wg>.Add(...)` for one of the listed
// wait groups - the ones Stop waits for - comes before the `go` in the same or an enclosing block, so no goroutine of the
// type can outlive Stop unnoticed. A last obligation counts the statements, so a type whose methods start nothing
// still generates one.
func (eng *Engine) goTrackedObligations(gt GoTracked, prop string) []*Obligation {
	mk := func(name, text string, ok bool, pos string) *Obligation {
		ob := &Obligation{Prop: prop, Func: gt.Type, Name: gt.Type + "/go-tracked:" + name, Kind: "gotracked", Pos: pos, Text: text, Solver: "govc (typed AST)"}
		if ok {
			ob.Result = "unsat"
			ob.Script = "(assert false)\n(check-sat)\n"
		} else {
			ob.Result = "untracked"
			ob.Script = "(check-sat)\n"
		}
		return ob
	}
	var out []*Obligation
	found := false
	var refs []string
	for ref := range eng.funcs {
		refs = append(refs, ref)
	}
	sort.Strings(refs)
	for _, ref := range refs {
		fi := eng.funcs[ref]
		if fi.Decl == nil || fi.Body == nil || fi.Sig == nil || fi.Sig.Recv() == nil {
			continue
		}
		n := namedOf(fi.Sig.Recv().Type())
		if n == nil || typeKey(n) != gt.Type {
			continue
		}
		if strings.HasSuffix(eng.fset.Position(fi.Decl.Pos()).Filename, "_test.go") {
			continue
		}
		found = true
		cnt := 0
		isAdd := func(s ast.Stmt) bool {
			es, isE := s.(*ast.ExprStmt)
			if !isE {
				return false
			}
			call, isC := es.X.(*ast.CallExpr)
			if !isC {
				return false
			}
			sel, isS := call.Fun.(*ast.SelectorExpr)
			if !isS || sel.Sel.Name != "Add" {
				return false
			}
			wsel, isW := ast.Unparen(sel.X).(*ast.SelectorExpr)
			if !isW || !gt.Wait[wsel.Sel.Name] {
				return false
			}
			tv, has := fi.Pkg.TypesInfo.Types[wsel]
			return has && strings.HasSuffix(types.TypeString(tv.Type, nil), "sync.WaitGroup")
		}
		var visit func(list []ast.Stmt, seen bool)
		check := func(g *ast.GoStmt, ok bool) {
			cnt++
			at := eng.fset.Position(g.Pos())
			text := "the goroutine started in " + fi.Decl.Name.Name + " is announced to a wait group Stop waits for (an Add on it comes before the go statement, in the same or an enclosing block)"
			if !ok {
				text += "; failed: no such WaitGroup.Add comes before the go statement at " + filepath.Base(at.Filename) + fmt.Sprintf(":%d", at.Line) + " (the goroutine can outlive Stop)"
			}
			out = append(out, mk(fmt.Sprintf("%s#%d", fi.Decl.Name.Name, cnt), text, ok, fmt.Sprintf("%s:%d", shortFile(eng, at.Filename), at.Line)))
		}
		visit = func(list []ast.Stmt, seen bool) {
			for _, s := range list {
				if isAdd(s) {
					seen = true
				}
				if g, isG := s.(*ast.GoStmt); isG {
					check(g, seen)
				}
				here := seen
				ast.Inspect(s, func(m ast.Node) bool {
					switch b := m.(type) {
					case *ast.FuncLit:
						// a goroutine or callback body: what its creator announced does not cover what it starts
						visit(b.Body.List, false)
						return false
					case *ast.BlockStmt:
						visit(b.List, here)
						return false
					case *ast.CaseClause:
						visit(b.Body, here)
						return false
					case *ast.CommClause:
						visit(b.Body, here)
						return false
					}
					return true
				})
			}
		}
		cnt = 0
		visit(fi.Body.List, false)
	}
	out = append(out, mk("type-has-methods", "the type under the gotracked directive exists and has methods", found, ""))
	return out
}
