package main

// Statement execution: forward symbolic execution with state merging.

import (
	"fmt"
	"go/ast"
	"go/token"
	"go/types"
	"sort"
	"strings"
)

type recorder struct {
	vars map[types.Object]bool
	heap map[string]bool
	refs map[string]map[string]bool // heap key -> reference terms written through ("*" = whole array)
	all  bool
	havocDone bool
}

func (r *recorder) addRef(key, ref string) {
	if r.refs == nil {
		r.refs = map[string]map[string]bool{}
	}
	if r.refs[key] == nil {
		r.refs[key] = map[string]bool{}
	}
	r.refs[key][ref] = true
}

type retState struct {
	st      *State
	results []*Val
	pos     token.Pos
}

// flow is the outcome of executing a statement.
type flow struct {
	normal    []*State
	breaks    map[string][]*State // label ("" = innermost)
	continues map[string][]*State
}

func (f *flow) addBreak(l string, s *State) {
	if f.breaks == nil {
		f.breaks = map[string][]*State{}
	}
	f.breaks[l] = append(f.breaks[l], s)
}

func (f *flow) addContinue(l string, s *State) {
	if f.continues == nil {
		f.continues = map[string][]*State{}
	}
	f.continues[l] = append(f.continues[l], s)
}

func (f *flow) absorb(g flow) {
	for l, ss := range g.breaks {
		for _, s := range ss {
			f.addBreak(l, s)
		}
	}
	for l, ss := range g.continues {
		for _, s := range ss {
			f.addContinue(l, s)
		}
	}
}

func (ex *Exec) execBlock(st *State, stmts []ast.Stmt) flow {
	out := flow{}
	cur := []*State{st}
	for _, s := range stmts {
		if len(cur) == 0 {
			break
		}
		var next []*State
		for _, c := range cur {
			f := ex.execStmt(c, s)
			next = append(next, f.normal...)
			out.absorb(f)
		}
		cur = ex.mergeStates(next)
	}
	out.normal = cur
	return out
}

func (ex *Exec) recordAssign(obj types.Object) {
	for _, r := range ex.recs {
		r.vars[obj] = true
	}
}

func (ex *Exec) setVar(st *State, obj types.Object, v *Val) {
	st.vars[obj] = v
	ex.recordAssign(obj)
}

// assignConv converts a value for assignment to a location of type t
// (boxing into interfaces, typing untyped constants).
func (ex *Exec) assignConv(st *State, v *Val, t types.Type, pos token.Pos) *Val {
	if t == nil || v == nil {
		return v
	}
	if v.T != nil && types.Identical(v.T, t) {
		return v
	}
	if v.T == nil && v.Sh != nil {
		return ex.retype(v, t)
	}
	tsh := ex.eng.sh.shapeOf(t)
	if v.C != nil && (isUntyped(v.T)) && tsh.IsLeaf() {
		return ex.constVal(v.C, t)
	}
	if tsh.Kind == "any" {
		return ex.toAnyAs(v, t)
	}
	if _, isIface := t.Underlying().(*types.Interface); isIface {
		if v.T != nil {
			if b, ok := v.T.(*types.Basic); ok && b.Kind() == types.UntypedNil {
				return &Val{Sh: tsh, T: t, S: "0"}
			}
			if _, fromIface := v.T.Underlying().(*types.Interface); fromIface && v.Sh.IsLeaf() {
				return ex.retype(v, t)
			}
			if v.Sh != nil && v.Sh.Kind == "any" {
				return &Val{Sh: tsh, T: t, S: v.kid("ref").S}
			}
			if _, isPtr := v.T.Underlying().(*types.Pointer); isPtr && v.Loc == nil {
				// the interface holds the pointer: non-nil interface even if pointer is nil
				// (typed nil); we identify the interface with the reference and note it.
				return &Val{Sh: tsh, T: t, S: v.S, Fn: v.Fn}
			}
		}
		if bv := ex.boxScalar(v); bv != "" {
			return &Val{Sh: tsh, T: t, S: bv}
		}
		ex.boxedNonZeroCheck(st, v, pos)
		r := ex.freshVal(t, "boxed")
		st.assume("(< 0 " + r.S + ")")
		return r
	}
	if v.T != nil {
		if b, ok := v.T.(*types.Basic); ok && b.Kind() == types.UntypedNil {
			return ex.zeroVal(t)
		}
	}
	if v.Sh != nil && (v.Sh == tsh || shapesCompatible(v.Sh, tsh)) {
		return ex.retype(v, t)
	}
	return v
}

// boxScalar: the interface value holding a scalar (string/int/bool/float) of a
// given dynamic type is an injective function of the scalar: box_T(x), with
// unbox_T(box_T(x)) = x, box_T(x) > 0 and is_T(box_T(x)).
func (ex *Exec) boxScalar(v *Val) string {
	if v == nil || v.T == nil || v.Sh == nil || !v.Sh.IsLeaf() || v.Sh.Kind == "lift" || isRefType(v.T) {
		return ""
	}
	srt := v.Sh.Leaf
	if srt != "String" && srt != "Int" && srt != "Bool" && srt != "Real" {
		return ""
	}
	id := typeID(v.T)
	box, unbox, is := ex.eng.boxFns(id, srt)
	_ = unbox
	_ = is
	return "(" + box + " " + v.S + ")"
}

func (eng *Engine) boxFns(id int, srt string) (box, unbox, is string) {
	box, unbox, is = fmt.Sprintf("box_%d", id), fmt.Sprintf("unbox_%d", id), fmt.Sprintf("is_%d", id)
	eng.smt.declFun(box, "(declare-fun "+box+" ("+srt+") Int)")
	eng.smt.declFun(unbox, "(declare-fun "+unbox+" (Int) "+srt+")")
	eng.smt.declFun(is, "(declare-fun "+is+" (Int) Bool)")
	ax := "(forall ((x " + srt + ")) (! (and (= (" + unbox + " (" + box + " x)) x) (> (" + box + " x) 0) (" + is + " (" + box + " x))) :pattern ((" + box + " x))))"
	eng.smt.addFunAx(box, ax)
	// the functions are mutually dependent: make sure declarations travel together
	eng.smt.addFunAx(unbox, "(forall ((r Int)) (! (=> ("+is+" r) (= ("+box+" ("+unbox+" r)) r)) :pattern (("+unbox+" r))))")
	eng.smt.addFunAx(is, "true")
	return
}

func (ex *Exec) assign(st *State, lhs ast.Expr, v *Val) {
	switch l := lhs.(type) {
	case *ast.ParenExpr:
		ex.assign(st, l.X, v)
		return
	case *ast.Ident:
		if l.Name == "_" {
			return
		}
		obj := ex.info.ObjectOf(l)
		if obj == nil {
			return
		}
		v = ex.assignConv(st, v, obj.Type(), l.Pos())
		ex.setVar(st, obj, v)
		return
	case *ast.SelectorExpr, *ast.StarExpr:
		loc := ex.place(st, lhs, nil)
		if loc == nil {
			ex.note("assignment to unmodelled location at %s", ex.pos(lhs.Pos()))
			return
		}
		v = ex.assignConv(st, v, loc.T, lhs.Pos())
		if loc.Heap {
			ex.guardCheck(st, loc, lhs, true)
			ex.ownsCheck(st, loc, lhs)
			ex.finalCheck(st, loc, lhs)
			ex.nilResetCheck(st, loc, lhs, v)
		} else {
			ex.recordAssign(loc.Obj)
		}
		ex.writeLoc(st, loc, v)
		return
	case *ast.IndexExpr:
		x := ex.eval(st, l.X, nil)
		i := ex.eval(st, l.Index, nil)
		if x.Sh == nil {
			return
		}
		switch x.Sh.Kind {
		case "slice":
			ex.safety(st, "index", l.Pos(), and("(<= 0 "+i.S+")", "(< "+i.S+" "+x.kid("len").S+")"))
			v = ex.assignConv(st, v, elemType(x.T), l.Pos())
			nx := x.withKid("elems", ex.storeVal(x.kid("elems"), i.S, v))
			nx.T = x.T
			ex.assignBack(st, l.X, nx)
		case "array":
			v = ex.assignConv(st, v, elemType(x.T), l.Pos())
			nx := x.withKid("elems", ex.storeVal(x.kid("elems"), i.S, v))
			nx.T = x.T
			ex.assignBack(st, l.X, nx)
		case "map":
			mt := x.T.Underlying().(*types.Map)
			i = ex.assignConv(st, i, mt.Key(), l.Pos())
			v = ex.assignConv(st, v, mt.Elem(), l.Pos())
			ex.insertOnlyCheck(st, l, x, i)
			nx := ex.mapStore(x, i, v)
			ex.assignBack(st, l.X, nx)
		default:
			ex.note("assignment through unmodelled index at %s", ex.pos(l.Pos()))
			ex.havocExpr(st, l.X)
		}
		return
	}
	ex.note("unmodelled assignment target %T at %s", lhs, ex.pos(lhs.Pos()))
}

// assignBack writes a container value back to where it came from.
func (ex *Exec) assignBack(st *State, x ast.Expr, v *Val) {
	switch xx := x.(type) {
	case *ast.Ident, *ast.SelectorExpr, *ast.StarExpr, *ast.IndexExpr, *ast.ParenExpr:
		ex.assign(st, x, v)
	case *ast.CallExpr:
		// w.Header() of a ResponseWriter: the map it returns is the writer's own (reference semantics)
		if loc := ex.respHeaderLoc(st, xx); loc != nil {
			ex.writeLoc(st, loc, v)
			return
		}
		ex.note("container update lost at %s", ex.pos(x.Pos()))
	default:
		ex.note("container update lost at %s", ex.pos(x.Pos()))
	}
}

func (ex *Exec) havocExpr(st *State, x ast.Expr) {
	if loc := ex.place(st, x, nil); loc != nil {
		ex.writeLoc(st, loc, ex.freshValSh(loc.Sh, "havoc"))
		if !loc.Heap {
			ex.recordAssign(loc.Obj)
		}
	}
}

func (ex *Exec) execStmt(st *State, s ast.Stmt) flow {
	ex.stNow, ex.stmtPos = st, s.Pos()
	switch s := s.(type) {
	case *ast.EmptyStmt:
		return flow{normal: []*State{st}}
	case *ast.BlockStmt:
		return ex.execBlock(st, s.List)
	case *ast.ExprStmt:
		ex.eval(st, s.X, nil)
		if ex.diverged(st) {
			return flow{}
		}
		return flow{normal: []*State{st}}
	case *ast.AssignStmt:
		ex.execAssign(st, s)
		return flow{normal: []*State{st}}
	case *ast.IncDecStmt:
		x := ex.eval(st, s.X, nil)
		one := ex.constVal(constantOne, x.T)
		op := token.ADD
		if s.Tok == token.DEC {
			op = token.SUB
		}
		ex.assign(st, s.X, ex.binop(st, op, x, one, x.T, s.Pos()))
		return flow{normal: []*State{st}}
	case *ast.DeclStmt:
		gd, ok := s.Decl.(*ast.GenDecl)
		if ok && gd.Tok == token.VAR {
			for _, sp := range gd.Specs {
				vs := sp.(*ast.ValueSpec)
				if len(vs.Values) == len(vs.Names) {
					for i, n := range vs.Names {
						v := ex.eval(st, vs.Values[i], nil)
						if obj := ex.info.ObjectOf(n); obj != nil && n.Name != "_" {
							ex.setVar(st, obj, ex.assignConv(st, v, obj.Type(), n.Pos()))
						}
					}
				} else if len(vs.Values) == 1 && len(vs.Names) > 1 {
					vals := ex.evalMulti(st, vs.Values[0], len(vs.Names))
					for i, n := range vs.Names {
						if obj := ex.info.ObjectOf(n); obj != nil && n.Name != "_" {
							ex.setVar(st, obj, ex.assignConv(st, vals[i], obj.Type(), n.Pos()))
						}
					}
				} else {
					for _, n := range vs.Names {
						if obj := ex.info.ObjectOf(n); obj != nil && n.Name != "_" {
							ex.setVar(st, obj, ex.zeroVal(obj.Type()))
						}
					}
				}
			}
		}
		return flow{normal: []*State{st}}
	case *ast.ReturnStmt:
		ex.execReturn(st, s)
		return flow{}
	case *ast.IfStmt:
		return ex.execIf(st, s)
	case *ast.ForStmt:
		return ex.execFor(st, s, "")
	case *ast.RangeStmt:
		return ex.execRange(st, s, "")
	case *ast.SwitchStmt:
		return ex.execSwitch(st, s, "")
	case *ast.TypeSwitchStmt:
		return ex.execTypeSwitch(st, s, "")
	case *ast.SelectStmt:
		return ex.execSelect(st, s, "")
	case *ast.LabeledStmt:
		lab := s.Label.Name
		var f flow
		switch inner := s.Stmt.(type) {
		case *ast.ForStmt:
			f = ex.execFor(st, inner, lab)
		case *ast.RangeStmt:
			f = ex.execRange(st, inner, lab)
		case *ast.SwitchStmt:
			f = ex.execSwitch(st, inner, lab)
		case *ast.SelectStmt:
			f = ex.execSelect(st, inner, lab)
		default:
			f = ex.execStmt(st, s.Stmt)
		}
		return f
	case *ast.BranchStmt:
		lab := ""
		if s.Label != nil {
			lab = s.Label.Name
		}
		f := flow{}
		switch s.Tok {
		case token.BREAK:
			f.addBreak(lab, st)
		case token.CONTINUE:
			f.addContinue(lab, st)
		case token.GOTO:
			ex.note("goto not modelled at %s", ex.pos(s.Pos()))
			ex.unsupported = append(ex.unsupported, "goto")
		case token.FALLTHROUGH:
			f.addBreak("$fallthrough", st)
		}
		return f
	case *ast.DeferStmt:
		ex.execDefer(st, s)
		return flow{normal: []*State{st}}
	case *ast.GoStmt:
		// arguments are evaluated now; the goroutine's effects are not part of
		// this function's sequential behaviour. Ownership of pointer arguments
		// is transferred (havoc of what they reach is NOT applied: documented).
		for _, a := range s.Call.Args {
			ex.eval(st, a, nil)
		}
		ex.note("go statement at %s: goroutine body not part of this function's contract", ex.pos(s.Pos()))
		return flow{normal: []*State{st}}
	case *ast.SendStmt:
		ch := ex.eval(st, s.Chan, nil)
		v := ex.eval(st, s.Value, nil)
		ex.chanSend(st, ch, v, s.Pos())
		return flow{normal: []*State{st}}
	}
	ex.note("unmodelled statement %T at %s", s, ex.pos(s.Pos()))
	ex.unsupported = append(ex.unsupported, fmt.Sprintf("%T", s))
	return flow{normal: []*State{st}}
}

// diverged: the state's path condition contains literal false (after panic / os.Exit).
func (ex *Exec) diverged(st *State) bool {
	for _, p := range st.pc {
		if p == "false" {
			return true
		}
	}
	return false
}

func (ex *Exec) evalMulti(st *State, e ast.Expr, n int) []*Val {
	var vals []*Val
	switch x := e.(type) {
	case *ast.ParenExpr:
		return ex.evalMulti(st, x.X, n)
	case *ast.CallExpr:
		vals = ex.evalCall(st, x, nil)
	case *ast.IndexExpr:
		vals = ex.evalIndex(st, x, nil, true)
	case *ast.TypeAssertExpr:
		vals = ex.evalTypeAssert(st, x, nil, true)
	case *ast.UnaryExpr:
		if x.Op == token.ARROW {
			ex.eval(st, x.X, nil)
			t := ex.typeOf(x)
			var et types.Type
			if tup, ok := t.(*types.Tuple); ok && tup.Len() > 0 {
				et = tup.At(0).Type()
			} else {
				et = t
			}
			vals = []*Val{ex.freshVal(et, "recv"), ex.boolVal(ex.eng.smt.fresh("recvok", "Bool"))}
		}
	}
	for len(vals) < n {
		var t types.Type
		if tup, ok := ex.typeOf(e).(*types.Tuple); ok && len(vals) < tup.Len() {
			t = tup.At(len(vals)).Type()
		}
		vals = append(vals, ex.freshVal(t, "multi"))
	}
	return vals
}

func (ex *Exec) execAssign(st *State, s *ast.AssignStmt) {
	if s.Tok != token.ASSIGN && s.Tok != token.DEFINE {
		// op=
		op := map[token.Token]token.Token{token.ADD_ASSIGN: token.ADD, token.SUB_ASSIGN: token.SUB, token.MUL_ASSIGN: token.MUL, token.QUO_ASSIGN: token.QUO, token.REM_ASSIGN: token.REM, token.AND_ASSIGN: token.AND, token.OR_ASSIGN: token.OR, token.XOR_ASSIGN: token.XOR, token.SHL_ASSIGN: token.SHL, token.SHR_ASSIGN: token.SHR, token.AND_NOT_ASSIGN: token.AND_NOT}[s.Tok]
		x := ex.eval(st, s.Lhs[0], nil)
		y := ex.eval(st, s.Rhs[0], nil)
		ex.assign(st, s.Lhs[0], ex.binop(st, op, x, y, x.T, s.Pos()))
		return
	}
	var vals []*Val
	if len(s.Rhs) == 1 && len(s.Lhs) > 1 {
		vals = ex.evalMulti(st, s.Rhs[0], len(s.Lhs))
	} else {
		for _, r := range s.Rhs {
			vals = append(vals, ex.eval(st, r, nil))
		}
	}
	for i, l := range s.Lhs {
		if i < len(vals) {
			ex.assign(st, l, vals[i])
		}
	}
}

func (ex *Exec) execReturn(st *State, s *ast.ReturnStmt) {
	sig := ex.fn.Sig
	var results []*Val
	nres := sig.Results().Len()
	if len(s.Results) == 0 && nres > 0 {
		// named results
		for i := 0; i < nres; i++ {
			results = append(results, ex.readVar(st, sig.Results().At(i)))
		}
	} else if len(s.Results) == 1 && nres > 1 {
		results = ex.evalMulti(st, s.Results[0], nres)
	} else {
		for i, r := range s.Results {
			v := ex.eval(st, r, nil)
			if i < nres {
				v = ex.assignConv(st, v, sig.Results().At(i).Type(), r.Pos())
			}
			results = append(results, v)
		}
	}
	// named results are assigned by the return statement
	for i := 0; i < nres && i < len(results); i++ {
		rv := sig.Results().At(i)
		if rv.Name() != "" && rv.Name() != "_" {
			st.vars[rv] = results[i]
		}
	}
	ex.finishReturn(st, results, s.Pos())
}

func (ex *Exec) finishReturn(st *State, results []*Val, pos token.Pos) {
	if ex.diverged(st) {
		return
	}
	// run defers LIFO
	defs := st.defers
	st.defers = nil
	for i := len(defs) - 1; i >= 0; i-- {
		ex.runDeferred(st, defs[i])
	}
	// deferred closures may have changed named results
	sig := ex.fn.Sig
	for i := 0; i < sig.Results().Len() && i < len(results); i++ {
		rv := sig.Results().At(i)
		if rv.Name() != "" && rv.Name() != "_" {
			if v, ok := st.vars[rv]; ok {
				results[i] = v
			}
		}
	}
	if ex.inlineDepth > 0 {
		ex.inlineRets = append(ex.inlineRets, retState{st: st, results: results, pos: pos})
		return
	}
	ex.rets = append(ex.rets, retState{st: st, results: results, pos: pos})
}

func (ex *Exec) execIf(st *State, s *ast.IfStmt) flow {
	if s.Init != nil {
		f := ex.execStmt(st, s.Init)
		if len(f.normal) == 0 {
			return f
		}
		st = f.normal[0]
	}
	c := ex.eval(st, s.Cond, nil)
	cond := ex.def("c", "Bool", c.S)
	out := flow{}
	thenSt := st.clone()
	thenSt.assume(cond)
	elseSt := st
	elseSt.assume(not(cond))
	ft := ex.execBlock(thenSt, s.Body.List)
	out.absorb(ft)
	var fe flow
	if s.Else != nil {
		fe = ex.execStmt(elseSt, s.Else)
		out.absorb(fe)
	} else {
		fe = flow{normal: []*State{elseSt}}
	}
	out.normal = ex.mergeStates(append(append([]*State{}, ft.normal...), fe.normal...))
	return out
}

func (ex *Exec) execSwitch(st *State, s *ast.SwitchStmt, label string) flow {
	if s.Init != nil {
		f := ex.execStmt(st, s.Init)
		if len(f.normal) == 0 {
			return f
		}
		st = f.normal[0]
	}
	var tag *Val
	if s.Tag != nil {
		tag = ex.eval(st, s.Tag, nil)
	}
	out := flow{}
	var ends []*State
	rest := st // state in which no earlier case matched
	var defaultClause *ast.CaseClause
	var fallIn []*State
	clauses := s.Body.List
	runBody := func(entry []*State, cc *ast.CaseClause) {
		var next []*State
		for _, e := range entry {
			f := ex.execBlock(e, cc.Body)
			for l, ss := range f.breaks {
				switch l {
				case "", label:
					ends = append(ends, ss...)
				case "$fallthrough":
					next = append(next, ss...)
				default:
					for _, x := range ss {
						out.addBreak(l, x)
					}
				}
			}
			for l, ss := range f.continues {
				for _, x := range ss {
					out.addContinue(l, x)
				}
			}
			ends = append(ends, f.normal...)
		}
		fallIn = next
	}
	for _, c := range clauses {
		cc := c.(*ast.CaseClause)
		if cc.List == nil {
			defaultClause = cc
			if len(fallIn) > 0 {
				runBody(fallIn, cc)
			}
			continue
		}
		var conds []string
		for _, e := range cc.List {
			v := ex.eval(rest, e, nil)
			if tag != nil {
				a, b := ex.coerceNum(tag, v)
				conds = append(conds, ex.eqVal(a, b))
			} else {
				conds = append(conds, v.S)
			}
		}
		cond := ex.def("case", "Bool", or(conds...))
		hit := rest.clone()
		hit.assume(cond)
		rest.assume(not(cond))
		entry := append([]*State{hit}, fallIn...)
		fallIn = nil
		runBody(entry, cc)
	}
	if defaultClause != nil {
		runBody(append([]*State{rest}, fallIn...), defaultClause)
	} else {
		ends = append(ends, rest)
	}
	out.normal = ex.mergeStates(ends)
	return out
}

func (ex *Exec) execTypeSwitch(st *State, s *ast.TypeSwitchStmt, label string) flow {
	if s.Init != nil {
		f := ex.execStmt(st, s.Init)
		if len(f.normal) == 0 {
			return f
		}
		st = f.normal[0]
	}
	var xe ast.Expr
	switch a := s.Assign.(type) {
	case *ast.AssignStmt:
		xe = a.Rhs[0].(*ast.TypeAssertExpr).X
	case *ast.ExprStmt:
		xe = a.X.(*ast.TypeAssertExpr).X
	}
	x := ex.eval(st, xe, nil)
	out := flow{}
	var ends []*State
	rest := st
	var defaultClause *ast.CaseClause
	bindVar := func(cc *ast.CaseClause, s2 *State, v *Val) {
		if obj := ex.info.Implicits[cc]; obj != nil {
			ex.setVar(s2, obj, ex.assignConv(s2, v, obj.Type(), cc.Pos()))
		}
	}
	finish := func(f flow) {
		for l, ss := range f.breaks {
			if l == "" || l == label {
				ends = append(ends, ss...)
			} else {
				for _, x := range ss {
					out.addBreak(l, x)
				}
			}
		}
		for l, ss := range f.continues {
			for _, x := range ss {
				out.addContinue(l, x)
			}
		}
		ends = append(ends, f.normal...)
	}
	for _, c := range s.Body.List {
		cc := c.(*ast.CaseClause)
		if cc.List == nil {
			defaultClause = cc
			continue
		}
		var conds []string
		var single *Val
		for _, te := range cc.List {
			if id, ok := te.(*ast.Ident); ok && id.Name == "nil" {
				if x.Sh.Kind == "any" {
					conds = append(conds, eq(x.kid("tag").S, "0"))
				} else {
					conds = append(conds, eq(x.S, "0"))
				}
				single = x
				continue
			}
			t := ex.resolveType(te, nil)
			v, ok := ex.typeAssert(rest, x, t)
			conds = append(conds, ok)
			single = v
		}
		cond := ex.def("tcase", "Bool", or(conds...))
		hit := rest.clone()
		hit.assume(cond)
		rest.assume(not(cond))
		if len(cc.List) == 1 {
			bindVar(cc, hit, single)
		} else {
			bindVar(cc, hit, x)
		}
		finish(ex.execBlock(hit, cc.Body))
	}
	if defaultClause != nil {
		bindVar(defaultClause, rest, x)
		finish(ex.execBlock(rest, defaultClause.Body))
	} else {
		ends = append(ends, rest)
	}
	out.normal = ex.mergeStates(ends)
	return out
}

func (ex *Exec) execSelect(st *State, s *ast.SelectStmt, label string) flow {
	// nondeterministic choice among the cases
	out := flow{}
	var ends []*State
	ex.selectOrd++
	ord := ex.selectOrd
	for ci, c := range s.Body.List {
		cc := c.(*ast.CommClause)
		if ex.onlySelect != 0 && (ord != ex.onlySelect || ci+1 != ex.onlyCase) && ord == ex.onlySelect {
			continue
		}
		cs := st.clone()
		choice := ex.eng.smt.fresh("select", "Bool")
		cs.assume(choice)
		if cc.Comm != nil {
			switch cm := cc.Comm.(type) {
			case *ast.SendStmt:
				ch := ex.eval(cs, cm.Chan, nil)
				v := ex.eval(cs, cm.Value, nil)
				ex.chanSend(cs, ch, v, cm.Pos())
			case *ast.ExprStmt:
				ex.eval(cs, cm.X, nil)
			case *ast.AssignStmt:
				vals := ex.evalMulti(cs, cm.Rhs[0], len(cm.Lhs))
				for i, l := range cm.Lhs {
					ex.assign(cs, l, vals[i])
				}
			}
		}
		f := ex.execBlock(cs, cc.Body)
		for l, ss := range f.breaks {
			if l == "" || l == label {
				ends = append(ends, ss...)
			} else {
				for _, x := range ss {
					out.addBreak(l, x)
				}
			}
		}
		for l, ss := range f.continues {
			for _, x := range ss {
				out.addContinue(l, x)
			}
		}
		ends = append(ends, f.normal...)
	}
	out.normal = ex.mergeStates(ends)
	return out
}

// ---------------------------------------------------------------------------
// Loops

func (ex *Exec) loopInvariants(ord int) (invs []*Clause, decr *Clause) {
	if ex.contract == nil {
		return nil, nil
	}
	for _, cl := range ex.contract.Clauses {
		if cl.Loop == ord {
			switch cl.Kind {
			case "invariant":
				invs = append(invs, cl)
			case "decreases":
				decr = cl
			}
		}
	}
	return
}

// discover runs body once to find what it assigns; obligations are discarded.
func (ex *Exec) discover(st *State, body func(*State)) *recorder {
	r := &recorder{vars: map[types.Object]bool{}, heap: map[string]bool{}}
	ex.recs = append(ex.recs, r)
	ex.discovery++
	savedObs, savedRets, savedLoop, savedSel := ex.obs, ex.rets, ex.loopOrd, ex.selectOrd
	savedInl := ex.inlineRets
	body(st.clone())
	ex.obs, ex.rets, ex.loopOrd, ex.selectOrd = savedObs, savedRets, savedLoop, savedSel
	ex.inlineRets = savedInl
	ex.discovery--
	ex.recs = ex.recs[:len(ex.recs)-1]
	// propagate to outer recorders
	for _, o := range ex.recs {
		for k := range r.vars {
			o.vars[k] = true
		}
		for k := range r.heap {
			o.heap[k] = true
		}
		for k, rs := range r.refs {
			for ref := range rs {
				o.addRef(k, ref)
			}
		}
		if r.all {
			o.all = true
		}
	}
	return r
}

// loopEffects runs the body twice in discovery mode: once to learn which
// variables and heap arrays it assigns, then again from a state where those are
// already arbitrary, to learn through which references it writes. References that
// do not depend on anything the loop changes are loop-invariant, and everything
// outside them is framed when the loop head is havocked.
func (ex *Exec) loopEffects(st *State, body func(*State)) *recorder {
	r1 := ex.discover(st, body)
	if r1.all {
		return r1
	}
	probe := st.clone()
	varying := map[string]bool{}
	for o := range r1.vars {
		v := ex.freshVal(o.Type(), o.Name()+"_p")
		probe.vars[o] = v
		v.leaves("", func(_ string, l *Val) { varying[l.S] = true })
	}
	for k := range r1.heap {
		srt := ex.eng.heapSortOf(k)
		ex.eng.regHeap(k, srt)
		probe.heap[k] = ex.eng.smt.fresh("Hp_"+k, srt)
		varying[probe.heap[k]] = true
	}
	r2 := ex.discover(probe, body)
	for k := range r2.vars {
		r1.vars[k] = true
	}
	for k := range r2.heap {
		r1.heap[k] = true
	}
	if r2.all {
		r1.all = true
		return r1
	}
	r1.refs = map[string]map[string]bool{}
	for k, rs := range r2.refs {
		for ref := range rs {
			if ref != "*" && ex.eng.smt.dependsOn(ref, varying) {
				ref = "*"
			}
			r1.addRef(k, ref)
		}
	}
	return r1
}

func (ex *Exec) havocRecorded(st *State, r *recorder) {
	objs := make([]types.Object, 0, len(r.vars))
	for o := range r.vars {
		objs = append(objs, o)
	}
	sort.Slice(objs, func(i, j int) bool { return objs[i].Pos() < objs[j].Pos() })
	for _, o := range objs {
		st.vars[o] = ex.freshVal(o.Type(), o.Name()+"_h")
	}
	if r.all {
		ex.havocAllHeap(st, "loop")
		ex.reassumeObjInvs(st)
		return
	}
	keys := make([]string, 0, len(r.heap))
	for k := range r.heap {
		keys = append(keys, k)
	}
	sort.Strings(keys)
	for _, k := range keys {
		srt := ex.eng.heapSortOf(k)
		old := st.heap[k]
		if old == "" {
			old = ex.eng.smt.named("H"+st.epochOf(k)+"_"+k, srt)
		}
		ex.havocHeapKey(st, k, srt)
		refs := r.refs[k]
		ok := len(refs) > 0
		var conds []string
		rl := make([]string, 0, len(refs))
		for ref := range refs {
			rl = append(rl, ref)
		}
		sort.Strings(rl)
		for _, ref := range rl {
			if ref == "*" {
				ok = false
				break
			}
			conds = append(conds, not(eq("r", ref)))
		}
		if ok {
			nw := st.heap[k]
			st.assume("(forall ((r Int)) (! (=> " + and(conds...) + " (= (select " + nw + " r) (select " + old + " r))) :pattern ((select " + nw + " r))))")
		}
	}
}

type loopSpec struct {
	ord    int
	invs   []*Clause
	decr   *Clause
	pos    token.Pos
	scopeP token.Pos
	extra  map[string]*Val // extra names visible in invariants
}

// mutexLoopPre: under `assert locks`, the mutex arrays a loop body operates on, as they are when the loop is
// entered. Each iteration must leave them as it found them (a critical section does not span iterations);
// that is assumed at the loop head and is an obligation at every back edge.
func (ex *Exec) mutexLoopPre(st *State, rec *recorder) map[string]string {
	pre := map[string]string{}
	if !ex.lockCheck || rec == nil {
		return pre
	}
	for k := range ex.eng.mutexKeys {
		if rec.heap[k] && ex.eng.heapSortOf(k) != "" {
			pre[k] = ex.heapArr(st, k, "Int")
		}
	}
	return pre
}

func (ex *Exec) assumeMutexPre(st *State, pre map[string]string) {
	for k, t := range pre {
		st.assume(eq(ex.heapArr(st, k, "Int"), t))
	}
}

func (ex *Exec) checkMutexBalanced(c *State, ord int, pos token.Pos) {
	if ex.discovery > 0 || len(ex.loopMutexPre) == 0 {
		return
	}
	for k, t := range ex.loopMutexPre[len(ex.loopMutexPre)-1] {
		ex.obligNamed(c, "lock", fmt.Sprintf("loop%d/lock-balanced:%s", ord, k), pos, eq(ex.heapArr(c, k, "Int"), t), "each iteration leaves the mutex as it found it")
	}
}

// checkExits: `loop N exits e` -- e holds whenever the loop is left (exhausted or by break).
func (ex *Exec) checkExits(st *State, ls *loopSpec, extra map[string]*Val) {
	if ex.contract == nil || ex.discovery > 0 {
		return
	}
	n := 0
	for _, cl := range ex.contract.Clauses {
		if cl.Loop != ls.ord || cl.Kind != "exits" {
			continue
		}
		n++
		name := cl.Name
		if name == "" {
			name = fmt.Sprintf("#%d", n)
		}
		g := ex.evalClause(st, cl, ex.entry, ls.scopeP, extra, nil)
		ex.obligCl(st, "loop-exit", fmt.Sprintf("loop%d/exit:%s", ls.ord, name), ls.pos, g, cl)
	}
}

func (ex *Exec) checkInvs(st *State, ls *loopSpec, kind string, extra map[string]*Val) {
	for i, cl := range ls.invs {
		name := cl.Name
		if name == "" {
			name = fmt.Sprintf("#%d", i+1)
		}
		g := ex.evalClause(st, cl, ex.entry, ls.scopeP, extra, nil)
		ex.obligCl(st, kind, fmt.Sprintf("loop%d/%s:%s", ls.ord, kind, name), ls.pos, g, cl)
	}
}

func (ex *Exec) assumeInvs(st *State, ls *loopSpec, extra map[string]*Val) {
	for _, cl := range ls.invs {
		g := ex.evalClause(st, cl, ex.entry, ls.scopeP, extra, nil)
		st.assume(g)
	}
}

func (ex *Exec) execFor(st *State, s *ast.ForStmt, label string) flow {
	if s.Init != nil {
		f := ex.execStmt(st, s.Init)
		if len(f.normal) == 0 {
			return f
		}
		st = f.normal[0]
	}
	ex.loopOrd++
	ord := ex.loopOrd
	if ex.discovery == 0 && ord > ex.loopOrdMax {
		ex.loopOrdMax = ord
	}
	invs, decr := ex.loopInvariants(ord)
	ls := &loopSpec{ord: ord, invs: invs, decr: decr, pos: s.Pos(), scopeP: s.Body.Lbrace + 1}
	if len(invs) == 0 && ex.discovery == 0 {
		ex.note("loop %d at %s has no invariant (using true)", ord, ex.pos(s.Pos()))
	}
	iter := func(s0 *State) (exits []*State, out flow) {
		// evaluates condition, runs body and post; returns exit states
		body := s0
		if s.Cond != nil {
			c := ex.eval(s0, s.Cond, nil)
			cond := ex.def("lc", "Bool", c.S)
			ex1 := s0.clone()
			ex1.assume(not(cond))
			exits = append(exits, ex1)
			body.assume(cond)
		}
		var dec0 string
		if ls.decr != nil {
			dec0 = ex.evalClauseVal(body, ls.decr, ex.entry, ls.scopeP, nil).S
		}
		f := ex.execBlock(body, s.Body.List)
		conts := append([]*State{}, f.normal...)
		for l, ss := range f.breaks {
			if l == "" || l == label {
				exits = append(exits, ss...)
			} else {
				for _, x := range ss {
					out.addBreak(l, x)
				}
			}
		}
		for l, ss := range f.continues {
			if l == "" || l == label {
				conts = append(conts, ss...)
			} else {
				for _, x := range ss {
					out.addContinue(l, x)
				}
			}
		}
		for _, c := range ex.mergeStates(conts) {
			if s.Post != nil {
				ex.execStmt(c, s.Post)
			}
			if ex.discovery == 0 {
				ex.checkInvs(c, ls, "inv-keep", nil)
				ex.checkMutexBalanced(c, ord, s.Pos())
				if ls.decr != nil {
					d1 := ex.evalClauseVal(c, ls.decr, ex.entry, ls.scopeP, nil).S
					ex.obligCl(c, "decreases", fmt.Sprintf("loop%d/decreases", ord), s.Pos(), and("(<= 0 "+dec0+")", "(< "+d1+" "+dec0+")"), ls.decr)
				}
			}
		}
		return
	}
	// discovery
	savedOrd, savedSel := ex.loopOrd, ex.selectOrd
	rec := ex.loopEffects(st, func(s0 *State) { ex.inLoop++; iter(s0); ex.inLoop-- })
	ex.loopOrd, ex.selectOrd = savedOrd, savedSel
	if ex.discovery == 0 {
		ex.checkInvs(st, ls, "inv-init", nil)
	}
	head := st
	mpre := ex.mutexLoopPre(head, rec)
	ex.havocRecorded(head, rec)
	ex.assumeMutexPre(head, mpre)
	ex.loopMutexPre = append(ex.loopMutexPre, mpre)
	defer func() { ex.loopMutexPre = ex.loopMutexPre[:len(ex.loopMutexPre)-1] }()
	ex.assumeInvs(head, ls, nil)
	ex.inLoop++
	exits, out := iter(head)
	ex.inLoop--
	if ex.discovery == 0 {
		for _, e := range exits {
			ex.checkExits(e, ls, nil)
		}
	}
	out.normal = ex.mergeStates(exits)
	return out
}

func (ex *Exec) execRange(st *State, s *ast.RangeStmt, label string) flow {
	ex.loopOrd++
	ord := ex.loopOrd
	if ex.discovery == 0 && ord > ex.loopOrdMax {
		ex.loopOrdMax = ord
	}
	invs, decr := ex.loopInvariants(ord)
	ls := &loopSpec{ord: ord, invs: invs, decr: decr, pos: s.Pos(), scopeP: s.Body.Lbrace + 1}
	if len(invs) == 0 && ex.discovery == 0 {
		ex.note("loop %d at %s has no invariant (using true)", ord, ex.pos(s.Pos()))
	}
	x := ex.eval(st, s.X, nil)
	var keyObj, valObj types.Object
	if id, ok := s.Key.(*ast.Ident); ok && id.Name != "_" {
		keyObj = ex.info.ObjectOf(id)
	}
	if s.Value != nil {
		if id, ok := s.Value.(*ast.Ident); ok && id.Name != "_" {
			valObj = ex.info.ObjectOf(id)
		}
	}
	kind := ""
	if x.Sh != nil {
		kind = x.Sh.Kind
	}
	if kind == "leaf" && x.Sh.Leaf == "Int" && isIntT(x.T) {
		kind = "int"
	}
	if kind == "leaf" && x.Sh.Leaf == "String" {
		kind = "string"
	}
	keyName := "iter"
	if keyObj != nil {
		keyName = keyObj.Name()
	}
	// the hidden iteration state: idx (slices, ints) or seen-set (maps)
	var idxSym string
	var seen *Val
	var domSort, keySort string
	extraAt := func(s0 *State) map[string]*Val {
		m := map[string]*Val{}
		if idxSym != "" {
			m[keyName] = ex.intVal(s0.vars[ex.hidden(ord)].S, types.Typ[types.Int])
			m["iter"] = m[keyName]
		}
		if seen != nil {
			m["$seen"] = s0.vars[ex.hidden(ord)]
			if c, ok := s0.vars[ex.hiddenCount(ord)]; ok {
				m["iter"] = ex.intVal(c.S, types.Typ[types.Int])
			}
		}
		if kind == "slice" || kind == "array" {
			// the (once-evaluated) range operand, for invariants over an unnamed slice
			m["ranged"] = x
		}
		return m
	}
	hid := ex.hidden(ord)
	switch kind {
	case "slice", "array", "int", "string":
		idxSym = "idx"
		st.vars[hid] = ex.intVal("0", types.Typ[types.Int])
	case "map":
		domSort = x.kid("dom").Sh.Leaf
		keySort = x.kid("dom").Sh.Idx
		seen = &Val{Sh: x.kid("dom").Sh, S: "((as const " + domSort + ") false)"}
		st.vars[hid] = seen
		st.vars[ex.hiddenCount(ord)] = ex.intVal("0", types.Typ[types.Int])
	default:
		// channel or function iterator: arbitrary number of iterations with fresh values
	}
	length := func() string {
		switch kind {
		case "slice":
			return x.kid("len").S
		case "array":
			return fmt.Sprint(x.T.Underlying().(*types.Array).Len())
		case "int":
			return x.S
		case "string":
			return "(str.len " + x.S + ")"
		}
		return ""
	}
	iter := func(s0 *State) (exits []*State, out flow) {
		body := s0
		switch kind {
		case "slice", "array", "int", "string":
			i := s0.vars[hid].S
			ex1 := s0.clone()
			ex1.assume("(>= " + i + " " + length() + ")")
			exits = append(exits, ex1)
			body.assume("(< " + i + " " + length() + ")")
			body.assume("(<= 0 " + i + ")")
			if keyObj != nil {
				ex.setVar(body, keyObj, ex.intVal(i, keyObj.Type()))
			}
			if valObj != nil {
				switch kind {
				case "slice", "array":
					ev := ex.selectVal(x.kid("elems"), i)
					ex.setVar(body, valObj, ex.retype(ex.loadedTree(ev), valObj.Type()))
				case "string":
					ex.setVar(body, valObj, ex.freshVal(valObj.Type(), "rune"))
					ex.note("range over string: runes not modelled at %s", ex.pos(s.Pos()))
				}
			}
		case "map":
			sv := s0.vars[hid]
			// current map value (the body may update existing entries)
			cur := ex.eval(s0, s.X, nil)
			ex1 := s0.clone()
			q := ex.eng.smt.fresh("k", keySort)
			_ = q
			ex1.assume("(forall ((k " + keySort + ")) (! (=> (select " + cur.kid("dom").S + " k) (select " + sv.S + " k)) :pattern ((select " + sv.S + " k))))")
			// each key is visited once: when the map's key set is what it was when the loop started, the
			// number of completed iterations is the number of entries
			if cv, ok := s0.vars[ex.hiddenCount(ord)]; ok && x.kid("dom") != nil {
				ex1.assume(implies(eq(cur.kid("dom").S, x.kid("dom").S), eq(cv.S, x.kid("card").S)))
			}
			exits = append(exits, ex1)
			k := ex.eng.smt.fresh("rk", keySort)
			body.assume("(select " + cur.kid("dom").S + " " + k + ")")
			body.assume(not("(select " + sv.S + " " + k + ")"))
			mt := x.T.Underlying().(*types.Map)
			kv := &Val{Sh: ex.eng.sh.shapeOf(mt.Key()), T: mt.Key(), S: k}
			kv = ex.loaded(kv) // a key of the map: within its type's range, whether or not the loop names it
			if keyObj != nil {
				ex.setVar(body, keyObj, ex.retype(ex.loaded(kv), keyObj.Type()))
			}
			if valObj != nil {
				ev := ex.selectVal(cur.kid("val"), k)
				ex.setVar(body, valObj, ex.retype(ex.loadedTree(ev), valObj.Type()))
			}
			body.vars[ex.hiddenKey(ord)] = kv
		default:
			ex1 := s0.clone()
			ex1.assume(ex.eng.smt.fresh("rangeend", "Bool"))
			exits = append(exits, ex1)
			if keyObj != nil {
				ex.setVar(body, keyObj, ex.freshVal(keyObj.Type(), keyObj.Name()))
			}
			if valObj != nil {
				ex.setVar(body, valObj, ex.freshVal(valObj.Type(), valObj.Name()))
			}
		}
		f := ex.execBlock(body, s.Body.List)
		conts := append([]*State{}, f.normal...)
		for l, ss := range f.breaks {
			if l == "" || l == label {
				exits = append(exits, ss...)
			} else {
				for _, x := range ss {
					out.addBreak(l, x)
				}
			}
		}
		for l, ss := range f.continues {
			if l == "" || l == label {
				conts = append(conts, ss...)
			} else {
				for _, x := range ss {
					out.addContinue(l, x)
				}
			}
		}
		for _, c := range ex.mergeStates(conts) {
			switch kind {
			case "slice", "array", "int", "string":
				c.vars[hid] = ex.intVal("(+ "+c.vars[hid].S+" 1)", types.Typ[types.Int])
			case "map":
				sv := c.vars[hid]
				kv := c.vars[ex.hiddenKey(ord)]
				c.vars[hid] = &Val{Sh: sv.Sh, S: ex.def("seen", domSort, "(store "+sv.S+" "+kv.S+" true)")}
				if cv, ok := c.vars[ex.hiddenCount(ord)]; ok {
					c.vars[ex.hiddenCount(ord)] = ex.intVal("(+ "+cv.S+" 1)", types.Typ[types.Int])
				}
			}
			if ex.discovery == 0 {
				ex.checkInvs(c, ls, "inv-keep", extraAt(c))
				ex.checkMutexBalanced(c, ord, s.Pos())
			}
		}
		return
	}
	savedOrd, savedSel := ex.loopOrd, ex.selectOrd
	rec := ex.loopEffects(st, func(s0 *State) { ex.inLoop++; iter(s0); ex.inLoop-- })
	ex.loopOrd, ex.selectOrd = savedOrd, savedSel
	delete(rec.vars, hid)
	delete(rec.vars, ex.hiddenKey(ord))
	delete(rec.vars, ex.hiddenCount(ord))
	if keyObj != nil {
		delete(rec.vars, keyObj)
	}
	if valObj != nil {
		delete(rec.vars, valObj)
	}
	if ex.discovery == 0 {
		ex.checkInvs(st, ls, "inv-init", extraAt(st))
	}
	head := st
	mpre := ex.mutexLoopPre(head, rec)
	ex.havocRecorded(head, rec)
	ex.assumeMutexPre(head, mpre)
	ex.loopMutexPre = append(ex.loopMutexPre, mpre)
	defer func() { ex.loopMutexPre = ex.loopMutexPre[:len(ex.loopMutexPre)-1] }()
	switch kind {
	case "slice", "array", "int", "string":
		i := ex.eng.smt.fresh("idx", "Int")
		head.vars[hid] = ex.intVal(i, types.Typ[types.Int])
		head.assume("(<= 0 " + i + ")")
		head.assume("(<= " + i + " " + length() + ")")
	case "map":
		sv := ex.eng.smt.fresh("seen", domSort)
		head.vars[hid] = &Val{Sh: seen.Sh, S: sv}
		cnt := ex.eng.smt.fresh("cnt", "Int")
		head.vars[ex.hiddenCount(ord)] = ex.intVal(cnt, types.Typ[types.Int])
		head.assume("(<= 0 " + cnt + ")")
		// seen is a subset of the original domain
	}
	ex.assumeInvs(head, ls, extraAt(head))
	ex.inLoop++
	exits, out := iter(head)
	ex.inLoop--
	for _, e := range exits {
		ex.checkExits(e, ls, extraAt(e))
		delete(e.vars, hid)
		delete(e.vars, ex.hiddenCount(ord))
	}
	out.normal = ex.mergeStates(exits)
	return out
}

// hidden returns the synthetic variable that carries a range loop's iteration state.
func (ex *Exec) hidden(ord int) types.Object {
	key := fmt.Sprintf("$iter%d", ord)
	if o, ok := ex.hiddenVars[key]; ok {
		return o
	}
	o := types.NewVar(token.NoPos, nil, key, types.Typ[types.Int])
	ex.hiddenVars[key] = o
	return o
}

// hiddenCount: the number of completed iterations of a map range loop.
func (ex *Exec) hiddenCount(ord int) types.Object {
	key := fmt.Sprintf("$cnt%d", ord)
	if o, ok := ex.hiddenVars[key]; ok {
		return o
	}
	o := types.NewVar(token.NoPos, nil, key, types.Typ[types.Int])
	ex.hiddenVars[key] = o
	return o
}

func (ex *Exec) hiddenKey(ord int) types.Object {
	key := fmt.Sprintf("$key%d", ord)
	if o, ok := ex.hiddenVars[key]; ok {
		return o
	}
	o := types.NewVar(token.NoPos, nil, key, types.Typ[types.Int])
	ex.hiddenVars[key] = o
	return o
}

// ---------------------------------------------------------------------------
// defer

func (ex *Exec) execDefer(st *State, s *ast.DeferStmt) {
	ex.deferN++
	d := deferred{call: s.Call, id: int(s.Pos())}
	// arguments are evaluated now
	if _, isLit := s.Call.Fun.(*ast.FuncLit); !isLit {
		for _, a := range s.Call.Args {
			d.args = append(d.args, ex.eval(st, a, nil))
		}
		// receiver evaluated now as well
		if sel, ok := s.Call.Fun.(*ast.SelectorExpr); ok {
			_ = sel
		}
	}
	st.defers = append(st.defers, d)
}

func (ex *Exec) runDeferred(st *State, d deferred) {
	if lit, ok := d.call.Fun.(*ast.FuncLit); ok {
		ex.inlineLit(st, lit, nil, ex)
		return
	}
	ex.evalCallWithArgs(st, d.call, d.args)
}

var constantOne = mustConst("1")

func mustConst(s string) constantValue { return constantFromString(s) }

// anchor gives a stable, line-free name for a position: the ordinal of the
// enclosing statement kind is too fragile, so we use file-relative statement text hash.
func (ex *Exec) anchor(p token.Pos) string {
	if !p.IsValid() {
		return "?"
	}
	// ordinal of this position among obligations of the same kind in this function
	ex.anchorN++
	return fmt.Sprintf("%d", ex.anchorN)
}

func joinNames(m map[string]bool) string {
	ks := make([]string, 0, len(m))
	for k := range m {
		ks = append(ks, k)
	}
	sort.Strings(ks)
	return strings.Join(ks, "; ")
}


// insertOnlyCheck: `insertonly pkg.Type.field` declares a shared table in which an entry, once present, is never
// replaced: every store m[k] = v must be made knowing that k is absent. Checked where lock discipline is checked
// (the interference model makes a presence test made in an earlier critical section worthless).
func (ex *Exec) insertOnlyCheck(st *State, l *ast.IndexExpr, m, k *Val) {
	if !ex.lockCheck || len(ex.eng.cs.InsertOnly) == 0 || m.Sh == nil || m.Sh.Kind != "map" {
		return
	}
	loc := ex.place(st, l.X, nil)
	if loc == nil || !loc.Heap || len(loc.Path) == 0 {
		return
	}
	if !ex.eng.cs.InsertOnly[loc.TKey+"."+loc.Path[0]] {
		return
	}
	mt, _ := m.T.Underlying().(*types.Map)
	if mt != nil {
		k = ex.coerceTo(k, mtKey(mt))
	}
	present := "(select " + m.kid("dom").S + " " + k.S + ")"
	fresh := "(> " + loc.Ref + " " + ex.eng.alloc0() + ")"
	ex.insertOnlyN++
	cond := or(not(present), fresh)
	if ex.examined[m.kid("dom").S+"|"+k.S] {
		// the function has looked this very entry up in this very value of the table - since its lock was last
		// taken, for a re-acquisition gives the table a new value - so replacing it is a decision made knowing it
		cond = "true"
	}
	ex.obligNamed(st, "held", fmt.Sprintf("insert-only(%s)#%d", loc.Path[0], ex.insertOnlyN), l.Pos(), cond, "a store into "+loc.TKey+"."+loc.Path[0]+" must not replace an entry that may be present without having looked it up since the lock was taken (entries of this table are only ever added)")
}


// nilResetCheck: `nilreset pkg.Type.field` declares a slice field whose contents are handed to another goroutine
// when it is emptied: the emptied field must then be nil, not a zero-length reslice of the array that was handed
// over (a later append would write into the array the other goroutine is still reading).
func (ex *Exec) nilResetCheck(st *State, loc *Loc, at ast.Expr, v *Val) {
	if len(ex.eng.cs.NilReset) == 0 || !loc.Heap || len(loc.Path) != 1 || ex.specDepth > 0 || v == nil || v.Sh == nil || v.Sh.Kind != "slice" {
		return
	}
	if !ex.eng.cs.NilReset[loc.TKey+"."+loc.Path[0]] {
		return
	}
	nilv := &Val{Sh: leafShape(types.Typ[types.UntypedNil], "Int"), T: types.Typ[types.UntypedNil], S: "0"}
	isnil := ex.eqVal(v, nilv)
	ex.nilResetN++
	ex.obligNamed(st, "owns", fmt.Sprintf("nil-reset(%s)#%d", loc.Path[0], ex.nilResetN), at.Pos(), implies(eq(v.kid("len").S, "0"), isnil), "when "+loc.TKey+"."+loc.Path[0]+" is emptied it must become nil: its old array has been handed to another goroutine")
}

// boxedNonZeroCheck: `boxednonzero pkg.Type.Field props P` - a struct value of the type is being converted to an
// interface with methods (handed on as an error) by code under contract for P: the field must be non-zero.
func (ex *Exec) boxedNonZeroCheck(st *State, v *Val, pos token.Pos) {
	if st == nil || ex.specDepth > 0 || len(ex.eng.cs.BoxedNonZero) == 0 || v == nil || v.T == nil || len(v.Kids) == 0 {
		return
	}
	tk := typeKey(v.T)
	for key, props := range ex.eng.cs.BoxedNonZero {
		if !strings.HasPrefix(key, tk+".") || !hasProp(props, ex.prop) {
			continue
		}
		f := strings.TrimPrefix(key, tk+".")
		if k := v.kid(f); k != nil && k.Sh != nil && k.Sh.IsLeaf() && k.Sh.Leaf == "Int" {
			ex.boxedN++
			ex.obligNamed(st, "boxed", fmt.Sprintf("boxed-nonzero(%s)#%d", key, ex.boxedN), pos, "(not (= "+k.S+" 0))", "a "+tk+" handed on as an error carries a non-zero "+f+" (whoever reads the zero value takes the error for a success)")
		}
	}
}
