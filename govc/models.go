package main

// Built-in models of standard-library and dependency functions. Each is an
// *assumed* contract; every use is counted and listed in the evidence.

import (
	"fmt"
	"go/ast"
	"go/constant"
	"go/token"
	"go/types"
	"strings"
)

const nsPerSec = "1000000000"

// droppedPrefixes: calls with no effect on the modelled state (logging,
// tracing, metrics emission). Their arguments are still evaluated.
var droppedPrefixes = []string{
	"logger.", "metrics.Metrics.", "metrics.MetricsBackend.", "metrics.(*NullMetrics).", "internal/otelutil.",
	"go.opentelemetry.io/otel/trace.", "go.opentelemetry.io/otel/attribute.", "go.opentelemetry.io/otel/codes.",
	"fmt.Print", "fmt.Fprint", "log.", "os.Stderr", "runtime.Gosched", "runtime.GC", "runtime/metrics.Read", "runtime/debug.",
	"context.", "github.com/sirupsen/logrus.",
	"sync.(*WaitGroup).", "sync.(*Once).",
	"go.opentelemetry.io/collector/pdata/", ".error.Error", "error.Error",
	"route.(*iopLogger).", "types.RouterType.String", "types.TransmitType.String",
}

func (eng *Engine) isDropped(ref string, fn *types.Func) bool {
	for _, p := range droppedPrefixes {
		if strings.HasPrefix(ref, p) {
			return true
		}
	}
	return eng.extraDropped[ref]
}

// clockNow reads the ghost "current reading" of an injected clock.
func (ex *Exec) clockNow(st *State, clock *Val, t types.Type, sc *SpecCtx) *Val {
	s := st
	if sc != nil && sc.inOld {
		s = sc.old
	}
	ref := "0"
	if clock != nil && clock.Sh != nil && clock.Sh.IsLeaf() {
		ref = clock.S
	}
	arr := ex.heapArr(s, heapKey("G$", "clockNow"), "Int")
	if t == nil {
		t = ex.eng.resolveTypeName("time.Time", "")
	}
	return &Val{Sh: ex.eng.sh.shapeOf(t), T: t, S: "(select " + arr + " " + ref + ")"}
}

func (ex *Exec) timeVal(s string, t types.Type) *Val {
	return &Val{Sh: ex.eng.sh.shapeOf(t), T: t, S: s}
}

func (ex *Exec) modelled(st *State, ref string, fn *types.Func, recv *Val, args []*Val, pos token.Pos, sc *SpecCtx, resT types.Type) ([]*Val, bool) {
	one := func(v *Val) ([]*Val, bool) { ex.modelUsed[ref]++; return []*Val{v}, true }
	none := func() ([]*Val, bool) { ex.modelUsed[ref]++; return nil, true }
	res := resultTypes(fn)
	if resT != nil {
		if tup, ok := resT.(*types.Tuple); ok {
			if tup.Len() == len(res) {
				for i := range res {
					res[i] = tup.At(i).Type()
				}
			}
		} else if len(res) == 1 {
			res[0] = resT
		}
	}
	r0 := func() types.Type {
		if len(res) > 0 {
			return res[0]
		}
		return nil
	}
	b := func(s string) *Val { return ex.boolVal(s) }
	switch ref {
	// ---- time
	case "time.Time.After":
		return one(b("(> " + recv.S + " " + args[0].S + ")"))
	case "time.Time.Before":
		return one(b("(< " + recv.S + " " + args[0].S + ")"))
	case "time.Time.Equal":
		return one(b(eq(recv.S, args[0].S)))
	case "time.Time.Compare":
		return one(ex.intVal("(ite (< "+recv.S+" "+args[0].S+") (- 1) (ite (> "+recv.S+" "+args[0].S+") 1 0))", r0()))
	case "time.Time.IsZero":
		return one(b(eq(recv.S, ex.eng.zeroTime())))
	case "time.Time.Add":
		return one(ex.timeVal("(+ "+recv.S+" "+args[0].S+")", r0()))
	case "time.Time.Sub":
		return one(ex.timeVal("(- "+recv.S+" "+args[0].S+")", r0()))
	case "time.Time.Unix":
		return one(ex.intVal("(div "+recv.S+" "+nsPerSec+")", r0()))
	case "time.Time.UnixNano":
		return one(ex.intVal(recv.S, r0()))
	case "time.Time.UnixMicro":
		return one(ex.intVal("(div "+recv.S+" 1000)", r0()))
	case "time.Time.UnixMilli":
		return one(ex.intVal("(div "+recv.S+" 1000000)", r0()))
	case "time.Time.Nanosecond":
		return one(ex.intVal("(mod "+recv.S+" "+nsPerSec+")", r0()))
	case "time.Time.UTC", "time.Time.Local", "time.Time.Round", "time.Time.Truncate":
		if ref == "time.Time.UTC" || ref == "time.Time.Local" {
			return one(ex.timeVal(recv.S, r0()))
		}
	case "time.Unix":
		return one(ex.timeVal(ex.def("unix", "Int", "(+ (* "+args[0].S+" "+nsPerSec+") "+args[1].S+")"), r0()))
	case "time.UnixMilli":
		return one(ex.timeVal("(* "+args[0].S+" 1000000)", r0()))
	case "time.UnixMicro":
		return one(ex.timeVal("(* "+args[0].S+" 1000)", r0()))
	case "time.Now":
		ex.eng.nowN++
		v := ex.freshVal(r0(), fmt.Sprintf("now%d", ex.eng.nowN))
		ex.nowVals = append(ex.nowVals, v)
		return one(v)
	case "github.com/jonboulle/clockwork.Clock.Now":
		// the injected clock: one reading per operation (the clock does not
		// advance inside a function under contract unless it calls unknown code)
		ex.assumption("the injected clock does not advance within one operation (Clock.Now() reads the ghost cell clockNow(clock))")
		return one(ex.clockNow(st, recv, r0(), sc))
	case "github.com/jonboulle/clockwork.Clock.NewTicker", "time.NewTicker", "time.Tick":
		if len(args) >= 1 && sc == nil {
			d := args[len(args)-1]
			ex.safety(st, "ticker-interval-positive", pos, "(> "+d.S+" 0)")
			r := ex.freshVal(r0(), "ticker")
			st.assume("(< 0 " + r.S + ")")
			// each call returns a ticker of its own
			for _, prev := range ex.tickerRefs {
				st.assume(not(eq(r.S, prev)))
			}
			ex.tickerRefs = append(ex.tickerRefs, r.S)
			// the period a ticker was created with (ghost tickerPeriod(ticker), when declared)
			if g, ok := ex.eng.cs.Ghosts["tickerPeriod"]; ok && r.Sh != nil && r.Sh.IsLeaf() {
				ex.writeLoc(st, ex.ghostLoc(g, []*Val{r}), ex.intVal(d.S, types.Typ[types.Int]))
			}
			return one(r)
		}
	case "github.com/jonboulle/clockwork.Ticker.Reset", "time.(*Ticker).Reset":
		// the ticker's period from now on (ghost tickerPeriod(ticker), when declared)
		if g, ok := ex.eng.cs.Ghosts["tickerPeriod"]; ok && recv != nil && len(args) == 1 && sc == nil {
			ex.safety(st, "ticker-interval-positive", pos, "(> "+args[0].S+" 0)")
			ex.writeLoc(st, ex.ghostLoc(g, []*Val{recv}), ex.intVal(args[0].S, types.Typ[types.Int]))
			return none()
		}
	case "time.Since":
		ex.eng.nowN++
		now := ex.freshVal(args[0].T, fmt.Sprintf("now%d", ex.eng.nowN))
		ex.nowVals = append(ex.nowVals, now)
		return one(ex.timeVal("(- "+now.S+" "+args[0].S+")", r0()))
	case "github.com/jonboulle/clockwork.Clock.Since":
		now := ex.clockNow(st, recv, args[0].T, sc)
		return one(ex.timeVal("(- "+now.S+" "+args[0].S+")", r0()))
	case "golang.org/x/exp/maps.DeleteFunc", "maps.DeleteFunc":
		m, f := args[0], args[1]
		if m.Sh != nil && m.Sh.Kind == "map" && f.Fn != nil && f.Fn.Lit != nil && sc == nil {
			mt := m.T.Underlying().(*types.Map)
			nm := ex.freshVal(m.T, "filtered")
			ks := m.kid("dom").Sh.Idx
			ex.eng.qn++
			q := fmt.Sprintf("q_df_%d", ex.eng.qn)
			kv := &Val{Sh: ex.eng.sh.shapeOf(mt.Key()), T: mt.Key(), S: q}
			ex.bound++
			vv := ex.retype(ex.selectVal(m.kid("val"), q), mt.Elem())
			tmp := st.clone()
			res := ex.inlineLit(tmp, f.Fn.Lit, []*Val{kv, vv}, f.Fn.Ex)
			ex.bound--
			if len(res) == 1 {
				pred := and(append(append([]string{}, tmp.pc[len(st.pc):]...), res[0].S)...)
				_ = pred
				st.assume("(forall ((" + q + " " + ks + ")) (! (= (select " + nm.kid("dom").S + " " + q + ") (and (select " + m.kid("dom").S + " " + q + ") (not " + res[0].S + "))) :pattern ((select " + nm.kid("dom").S + " " + q + "))))")
				st.assume(ex.eqVal(nm.kid("val"), m.kid("val")))
				st.assume("(<= " + nm.kid("card").S + " " + m.kid("card").S + ")")
				if call := ex.curCall; call != nil && len(call.Args) > 0 {
					ex.assignBack(st, call.Args[0], nm)
				}
				ex.assumption("maps.DeleteFunc(m, f): removes exactly the entries for which f holds, keeps all other entries and values")
				return none()
			}
		}
	case "runtime/metrics.Value.Uint64":
		// a reading of the Go runtime: any value
		return one(ex.freshVal(r0(), "rtmetric"))
	case "io.ReadAll":
		// content tokens: the bytes read are the reader's content when the read succeeds (ghosts content, readOK)
		if gc, ok := ex.eng.cs.Ghosts["content"]; ok && len(args) == 1 && args[0].Sh != nil && args[0].Sh.IsLeaf() && sc == nil {
			rs := ex.freshResults(fn, resT, "readall")
			if len(rs) == 2 && rs[0].Sh != nil && rs[0].Sh.Kind == "slice" {
				ex.eng.smt.declFun("uf_bytesTok", "(declare-fun uf_bytesTok ((Array Int Int) Int) Int)")
				tok := "(uf_bytesTok " + rs[0].kid("elems").S + " " + rs[0].kid("len").S + ")"
				cur := ex.readLoc(st, ex.ghostLoc(gc, []*Val{args[0]}))
				st.assume(implies(eq(rs[1].S, "0"), eq(tok, cur.S)))
				if gr, ok := ex.eng.cs.Ghosts["readOK"]; ok {
					ex.writeLoc(st, ex.ghostLoc(gr, []*Val{args[0]}), ex.boolVal(eq(rs[1].S, "0")))
				}
				ex.modelUsed[ref]++
				return rs, true
			}
		}
	case "bytes.NewBuffer":
		if gc, ok := ex.eng.cs.Ghosts["content"]; ok && len(args) == 1 && args[0].Sh != nil && args[0].Sh.Kind == "slice" && sc == nil {
			ex.eng.smt.declFun("uf_bytesTok", "(declare-fun uf_bytesTok ((Array Int Int) Int) Int)")
			r := ex.freshVal(r0(), "buffer")
			if r.Sh.IsLeaf() && r.Sh.Leaf == "Int" {
				st.assume("(> " + r.S + " " + ex.eng.alloc0() + ")")
				ex.writeLoc(st, ex.ghostLoc(gc, []*Val{r}), ex.intVal("(uf_bytesTok "+args[0].kid("elems").S+" "+args[0].kid("len").S+")", types.Typ[types.Int]))
				return one(r)
			}
		}
	case "net/http.ResponseWriter.Header":
		// with http.Header as a real map (unopaque): the writer's header map lives in a ghost cell of the writer
		if recv != nil && ex.curCall != nil && sc == nil {
			if loc := ex.respHeaderLoc(st, ex.curCall); loc != nil {
				return one(ex.readLoc(st, loc))
			}
		}
	case "net/http.Header.Get", "net/http.Header.Set", "net/http.Header.Add", "net/http.Header.Del", "net/http.Header.Values":
		// only when http.Header has its real shape (map[string][]string); otherwise the assumed contracts apply
		if recv == nil || recv.Sh == nil || recv.Sh.Kind != "map" || len(args) == 0 || args[0].Sh == nil || !args[0].Sh.IsLeaf() {
			break
		}
		ex.eng.smt.declFun("sf_canonHeader", "(declare-fun sf_canonHeader (String) String)")
		ex.eng.smt.addFunAx("sf_canonHeader", "(forall ((k String)) (! (= (sf_canonHeader (sf_canonHeader k)) (sf_canonHeader k)) :pattern ((sf_canonHeader k))))")
		ck := &Val{Sh: args[0].Sh, T: args[0].T, S: "(sf_canonHeader " + args[0].S + ")"}
		mt := recv.T.Underlying().(*types.Map)
		cur := ex.retype(ex.selectVal(recv.kid("val"), ck.S), mt.Elem())
		has := "(select " + recv.kid("dom").S + " " + ck.S + ")"
		back := func(m *Val) {
			if ex.curCall != nil {
				if sel, ok := ex.curCall.Fun.(*ast.SelectorExpr); ok {
					ex.assignBack(st, sel.X, m)
				}
			}
		}
		switch ref {
		case "net/http.Header.Get":
			first := ex.selectVal(cur.kid("elems"), "0")
			return one(&Val{Sh: first.Sh, T: r0(), S: "(ite (and " + has + " (> " + cur.kid("len").S + " 0)) " + first.S + " \"\")"})
		case "net/http.Header.Values":
			return one(ex.iteVal(has, cur, ex.zeroVal(mt.Elem())))
		case "net/http.Header.Set":
			if len(args) == 2 && sc == nil {
				one1 := ex.zeroVal(mt.Elem())
				nv := &Val{Sh: one1.Sh, T: mt.Elem(), Kids: []*Val{ex.intVal("1", types.Typ[types.Int]), ex.storeVal(one1.kid("elems"), "0", args[1])}}
				back(ex.mapStore(recv, ck, nv))
				return none()
			}
		case "net/http.Header.Add":
			if len(args) == 2 && sc == nil {
				old := ex.iteVal(has, cur, ex.zeroVal(mt.Elem()))
				n := old.kid("len").S
				nv := &Val{Sh: old.Sh, T: mt.Elem(), Kids: []*Val{ex.intVal("(+ "+n+" 1)", types.Typ[types.Int]), ex.storeVal(old.kid("elems"), n, args[1])}}
				back(ex.mapStore(recv, ck, nv))
				return none()
			}
		case "net/http.Header.Del":
			if sc == nil {
				back(ex.mapDelete(recv, ck))
				return none()
			}
		}
	case "strconv.AppendInt", "strconv.AppendUint", "strconv.AppendFloat", "strconv.AppendBool", "strconv.AppendQuote":
		// the buffer followed by the text strconv produces for the value; no other effect
		if len(args) >= 1 && args[0].Sh != nil && args[0].Sh.Kind == "slice" {
			r := ex.freshVal(r0(), "appended")
			st.assume("(>= " + r.kid("len").S + " " + args[0].kid("len").S + ")")
			text := ""
			switch ref {
			case "strconv.AppendInt", "strconv.AppendUint":
				if len(args) == 3 && isConstInt(args[2], 10) {
					text = ex.itoaTerm(args[1].S)
				}
			case "strconv.AppendFloat":
				if len(args) == 5 {
					text = ex.ftoaTerm(args[1], args[2], args[3], args[4])
				}
			case "strconv.AppendBool":
				if len(args) == 2 {
					text = "(ite " + args[1].S + " \"true\" \"false\")"
				}
			}
			if text != "" && ex.bound == 0 {
				ex.eng.smt.declFun("uf_bytesOf", "(declare-fun uf_bytesOf (String) (Array Int Int))")
				st.assume("(= " + r.kid("len").S + " (+ " + args[0].kid("len").S + " (str.len " + text + ")))")
				st.assume("(=> (= " + args[0].kid("len").S + " 0) (= " + r.kid("elems").S + " (uf_bytesOf " + text + ")))")
			}
			return one(r)
		}
	case "github.com/gorilla/mux.(*Router).Use":
		// the middleware installed on a (sub)router is logged by name in the ghost usedMW(router, name), when declared
		if g, ok := ex.eng.cs.Ghosts["usedMW"]; ok && recv != nil && sc == nil {
			for _, a := range args {
				if a != nil && a.Fn != nil && a.Fn.Obj != nil {
					name := &Val{Sh: leafShape(types.Typ[types.String], "String"), T: types.Typ[types.String], S: smtString(funcRef(a.Fn.Obj))}
					loc := ex.ghostLoc(g, []*Val{recv, name})
					cur := ex.readLoc(st, loc)
					ex.writeLoc(st, loc, ex.storeVal(cur, name.S, ex.boolVal("true")))
				}
			}
			return none()
		}
	case "strings.Compare":
		if len(args) == 2 && args[0].Sh != nil && args[0].Sh.IsLeaf() && args[0].Sh.Leaf == "String" {
			return one(ex.intVal("(ite (str.< "+args[0].S+" "+args[1].S+") (- 1) (ite (= "+args[0].S+" "+args[1].S+") 0 1))", r0()))
		}
	case "cmp.Less":
		if len(args) == 2 && args[0].Sh != nil && args[0].Sh.IsLeaf() {
			switch args[0].Sh.Leaf {
			case "Int", "Real":
				return one(b("(< " + args[0].S + " " + args[1].S + ")"))
			case "String":
				return one(b("(str.< " + args[0].S + " " + args[1].S + ")"))
			default:
				return one(b("(" + ex.eng.orderFn(args[0].Sh.Leaf) + " " + args[0].S + " " + args[1].S + ")"))
			}
		}
	case "generics.NewSet", "generics.NewSetWithCapacity":
		// generics.Set[T] is map[T]struct{}: a fresh set holding the given members
		if rt := r0(); rt != nil && sc == nil {
			m := ex.emptyMap(rt)
			if m.Sh != nil && m.Sh.Kind == "map" {
				if ref == "generics.NewSet" {
					for _, a := range args {
						if a.Sh != nil && a.Sh.IsLeaf() {
							m = ex.mapStore(m, a, ex.zeroSh(m.Sh.Kids[2].Elem, nil))
						} else {
							return nil, false
						}
					}
				}
				return one(m)
			}
		}
	case "generics.Set.Add":
		// value receiver, but a Go map is a reference: the update is written back to the receiver expression
		if recv != nil && recv.Sh != nil && recv.Sh.Kind == "map" && sc == nil && ex.curCall != nil {
			if sel, ok := ex.curCall.Fun.(*ast.SelectorExpr); ok {
				m := recv
				for _, a := range args {
					if a.Sh == nil || !a.Sh.IsLeaf() {
						return nil, false
					}
					m = ex.mapStore(m, a, ex.zeroSh(m.Sh.Kids[2].Elem, nil))
				}
				ex.assignBack(st, sel.X, m)
				return none()
			}
		}
	case "generics.Set.Contains":
		if recv != nil && recv.Sh != nil && recv.Sh.Kind == "map" && len(args) == 1 && args[0].Sh != nil && args[0].Sh.IsLeaf() {
			return one(b("(select " + recv.kid("dom").S + " " + args[0].S + ")"))
		}
	case "golang.org/x/exp/maps.Keys", "generics.Set.Members":
		var m *Val
		if ref == "generics.Set.Members" {
			m = recv
		} else {
			m = args[0]
		}
		if m == nil {
			break
		}
		if m.Sh != nil && m.Sh.Kind == "map" {
			r := ex.freshVal(r0(), "keys")
			ks := m.kid("dom").Sh.Idx
			st.assume(eq(r.kid("len").S, m.kid("card").S))
			el := r.kid("elems").S
			st.assume("(forall ((i Int)) (! (=> (and (<= 0 i) (< i " + r.kid("len").S + ")) (select " + m.kid("dom").S + " (select " + el + " i))) :pattern ((select " + el + " i))))")
			st.assume("(forall ((k " + ks + ")) (! (=> (select " + m.kid("dom").S + " k) (exists ((i Int)) (and (<= 0 i) (< i " + r.kid("len").S + ") (= (select " + el + " i) k)))) :pattern ((select " + m.kid("dom").S + " k))))")
			ex.assumption("maps.Keys(m): a slice of length len(m) holding exactly the keys of m")
			return one(r)
		}
	case "sort.Slice", "sort.Strings", "slices.Sort", "sort.Sort", "sort.Stable", "sort.SliceStable":
		s := args[0]
		if s.Sh != nil && s.Sh.Kind == "slice" && !s.kid("elems").Sh.IsLeaf() && sc == nil && (ref == "sort.Slice" || ref == "sort.SliceStable" || ref == "sort.Sort" || ref == "sort.Stable") {
			// slice of structs: every element of the result is an element of the input and vice versa
			r := ex.freshVal(s.T, "sorted")
			st.assume(eq(r.kid("len").S, s.kid("len").S))
			n := s.kid("len").S
			var eqs func(a, b *Val, i, j string) []string
			eqs = func(a, b *Val, i, j string) []string {
				if a.Sh.IsLeaf() {
					return []string{eq("(select "+a.S+" "+i+")", "(select "+b.S+" "+j+")")}
				}
				var out []string
				for k := range a.Kids {
					out = append(out, eqs(a.Kids[k], b.Kids[k], i, j)...)
				}
				return out
			}
			ra, sa := r.kid("elems"), s.kid("elems")
			st.assume("(forall ((i Int)) (=> (and (<= 0 i) (< i " + n + ")) (exists ((j Int)) (and (<= 0 j) (< j " + n + ") " + and(eqs(ra, sa, "i", "j")...) + "))))")
			st.assume("(forall ((j Int)) (=> (and (<= 0 j) (< j " + n + ")) (exists ((i Int)) (and (<= 0 i) (< i " + n + ") " + and(eqs(ra, sa, "i", "j")...) + "))))")
			if call := ex.curCall; call != nil && len(call.Args) > 0 {
				arg := call.Args[0]
				if ce, ok := arg.(*ast.CallExpr); ok && len(ce.Args) == 1 {
					arg = ce.Args[0] // sort.Sort(SortableShardList(x)) sorts x
				}
				ex.assignBack(st, arg, ex.retype(r, ex.typeOf(arg)))
			}
			ex.assumption("sort: the result is a permutation of the input (same members, same length)")
			return none()
		}
		lessOrder := func(r *Val) {
			// sort.Slice(x, less) with a literal less: afterwards no later element is `less` than an earlier one
			if (ref != "sort.Slice" && ref != "sort.SliceStable") || len(args) < 2 || args[1].Fn == nil || args[1].Fn.Lit == nil {
				return
			}
			ex.eng.qn++
			qi, qj := fmt.Sprintf("q_si_%d", ex.eng.qn), fmt.Sprintf("q_sj_%d", ex.eng.qn)
			it := types.Typ[types.Int]
			tmp := st.clone()
			tmp.assume("(and (<= 0 " + qi + ") (< " + qi + " " + qj + ") (< " + qj + " " + r.kid("len").S + "))")
			ex.bound++
			ex.discovery++
			savedRecs, savedNotes := ex.recs, ex.unknown
			ex.recs = nil
			ex.unknown = map[string]int{}
			for k, v := range savedNotes {
				ex.unknown[k] = v
			}
			res := ex.inlineLit(tmp, args[1].Fn.Lit, []*Val{ex.intVal(qj, it), ex.intVal(qi, it)}, args[1].Fn.Ex)
			ex.recs, ex.unknown = savedRecs, savedNotes
			ex.discovery--
			ex.bound--
			if len(res) == 1 && res[0].S != "" && tmp.epoch == st.epoch {
				st.assume("(forall ((" + qi + " Int) (" + qj + " Int)) (=> (and (<= 0 " + qi + ") (< " + qi + " " + qj + ") (< " + qj + " " + r.kid("len").S + ")) (not " + res[0].S + ")))")
				ex.assumption("sort.Slice(x, less): afterwards less(j, i) is false for all i < j (less is evaluated as a pure expression)")
			}
		}
		if s.Sh != nil && s.Sh.Kind == "slice" && s.kid("elems").Sh.IsLeaf() && sc == nil {
			r := ex.freshVal(s.T, "sorted")
			es := s.kid("elems").Sh.Elem.Leaf
			st.assume(eq(r.kid("len").S, s.kid("len").S))
			a, b, n := s.kid("elems").S, r.kid("elems").S, s.kid("len").S
			mem := func(arr string) string {
				return "(exists ((i Int)) (and (<= 0 i) (< i " + n + ") (= (select " + arr + " i) x)))"
			}
			st.assume("(forall ((x " + es + ")) (= " + mem(a) + " " + mem(b) + "))")
			// the same fact with Skolem functions (index maps), which instantiate on (select b i) / (select a j)
			pf, pinv := ex.eng.smt.fresh("perm", "(Array Int Int)"), ex.eng.smt.fresh("perminv", "(Array Int Int)")
			st.assume("(forall ((i Int)) (! (=> (and (<= 0 i) (< i " + n + ")) (and (<= 0 (select " + pf + " i)) (< (select " + pf + " i) " + n + ") (= (select " + b + " i) (select " + a + " (select " + pf + " i))))) :pattern ((select " + b + " i))))")
			st.assume("(forall ((j Int)) (! (=> (and (<= 0 j) (< j " + n + ")) (and (<= 0 (select " + pinv + " j)) (< (select " + pinv + " j) " + n + ") (= (select " + a + " j) (select " + b + " (select " + pinv + " j))))) :pattern ((select " + a + " j))))")
			st.assume("(forall ((i Int)) (! (=> (and (<= 0 i) (< i " + n + ")) (= (select " + pinv + " (select " + pf + " i)) i)) :pattern ((select " + pf + " i))))")
			if ref == "sort.Strings" || ref == "slices.Sort" {
				var le string
				switch es {
				case "String":
					le = "(str.<= (select " + b + " i) (select " + b + " j))"
				case "Int", "Real":
					le = "(<= (select " + b + " i) (select " + b + " j))"
				default:
					lt := ex.eng.orderFn(es)
					le = "(not (" + lt + " (select " + b + " j) (select " + b + " i)))"
				}
				st.assume("(forall ((i Int) (j Int)) (! (=> (and (<= 0 i) (< i j) (< j " + n + ")) " + le + ") :pattern ((select " + b + " i) (select " + b + " j))))")
			}
			if ref == "sort.Sort" || ref == "sort.Stable" {
				// sort.Sort(x): x is assumed to order its elements by their natural order (Less = <)
				var le string
				switch es {
				case "String":
					le = "(str.<= (select " + b + " i) (select " + b + " j))"
				case "Int", "Real":
					le = "(<= (select " + b + " i) (select " + b + " j))"
				}
				if le != "" {
					st.assume("(forall ((i Int) (j Int)) (! (=> (and (<= 0 i) (< i j) (< j " + n + ")) " + le + ") :pattern ((select " + b + " i) (select " + b + " j))))")
					ex.assumption("sort.Sort on a slice of ordered scalars: Less is the natural order")
				}
			}
			if call := ex.curCall; call != nil && len(call.Args) > 0 {
				arg := call.Args[0]
				if ce, ok := arg.(*ast.CallExpr); ok && len(ce.Args) == 1 && (ref == "sort.Sort" || ref == "sort.Stable") {
					arg = ce.Args[0]
				}
				ex.assignBack(st, arg, ex.retype(r, ex.typeOf(arg)))
			}
			lessOrder(r)
			ex.assumption("sort: the result is a permutation of the input (same members, same length)")
			return none()
		}
	case "time.Duration.Milliseconds":
		return one(ex.intVal(ex.tdiv(recv.S, "1000000", nil), r0()))
	case "time.Duration.Microseconds":
		return one(ex.intVal(ex.tdiv(recv.S, "1000", nil), r0()))
	case "time.Duration.Nanoseconds":
		return one(ex.intVal(recv.S, r0()))
	case "time.Duration.Seconds":
		return one(&Val{Sh: ex.eng.sh.shapeOf(r0()), T: r0(), S: "(/ (to_real " + recv.S + ") 1000000000.0)"})
	// ---- strings
	case "strings.HasPrefix":
		return one(b("(str.prefixof " + args[1].S + " " + args[0].S + ")"))
	case "strings.HasSuffix":
		return one(b("(str.suffixof " + args[1].S + " " + args[0].S + ")"))
	case "strings.Contains":
		return one(b("(str.contains " + args[0].S + " " + args[1].S + ")"))
	case "strings.Index":
		term := "(str.indexof " + args[0].S + " " + args[1].S + " 0)"
		if ex.bound > 0 {
			return one(ex.intVal(term, r0()))
		}
		name := ex.eng.smt.fresh("idx", "Int")
		ex.eng.smt.syms[name].Def = term
		ex.eng.smt.addAx(name, "(and (<= (- 1) "+name+") (<= "+name+" (str.len "+args[0].S+")))")
		return one(ex.intVal(name, r0()))
	case "strings.IndexRune", "strings.IndexByte":
		if ex.bound == 0 {
			term := "(str.indexof " + args[0].S + " (str.from_code " + args[1].S + ") 0)"
			name := ex.eng.smt.fresh("idx", "Int")
			ex.eng.smt.syms[name].Def = term
			ex.eng.smt.addAx(name, "(and (<= (- 1) "+name+") (< "+name+" (str.len "+args[0].S+")) (or (< "+name+" 0) (< "+name+" (str.len "+args[0].S+"))))")
			return one(ex.intVal(name, r0()))
		}
	case "strings.TrimPrefix":
		s, p := args[0].S, args[1].S
		return one(&Val{Sh: args[0].Sh, T: r0(), S: "(ite (str.prefixof " + p + " " + s + ") (str.substr " + s + " (str.len " + p + ") (- (str.len " + s + ") (str.len " + p + "))) " + s + ")"})
	case "strings.TrimSuffix":
		s, p := args[0].S, args[1].S
		return one(&Val{Sh: args[0].Sh, T: r0(), S: "(ite (str.suffixof " + p + " " + s + ") (str.substr " + s + " 0 (- (str.len " + s + ") (str.len " + p + "))) " + s + ")"})
	case "strings.ToLower", "strings.ToUpper", "strings.TrimSpace", "strings.Join", "strings.Replace", "strings.ReplaceAll", "strings.Repeat", "strings.Trim", "strings.ToValidUTF8":
		return one(ex.freshVal(r0(), "str"))
	case "strings.EqualFold":
		return one(b(ex.eng.smt.fresh("fold", "Bool")))
	// ---- errors / fmt
	case "errors.New", "fmt.Errorf":
		e := ex.freshVal(r0(), "err")
		st.assume("(< 0 " + e.S + ")")
		return one(e)
	case "strconv.Atoi":
		rs := ex.freshResults(fn, resT, "atoi")
		if len(rs) == 2 {
			ex.modelUsed[ref]++
			return rs, true
		}
	case "fmt.Sprintf":
		// a constant format made of literal text and %s verbs applied to strings: plain concatenation
		if len(args) >= 1 && args[0].C != nil && args[0].C.Kind() == constant.String {
			f := constant.StringVal(args[0].C)
			var parts []string
			ai, ok, lit := 1, true, ""
			for i := 0; i < len(f) && ok; i++ {
				if f[i] != '%' {
					lit += string(f[i])
					continue
				}
				if i+1 < len(f) && f[i+1] == '%' {
					lit += "%"
					i++
					continue
				}
				if i+1 < len(f) && f[i+1] == 's' && ai < len(args) && args[ai].Sh != nil && args[ai].Sh.IsLeaf() && args[ai].Sh.Leaf == "String" {
					if lit != "" {
						parts = append(parts, smtString(lit))
						lit = ""
					}
					parts = append(parts, args[ai].S)
					ai++
					i++
					continue
				}
				ok = false
			}
			if ok && ai == len(args) {
				if lit != "" {
					parts = append(parts, smtString(lit))
				}
				switch len(parts) {
				case 0:
					return one(&Val{Sh: ex.eng.sh.shapeOf(r0()), T: r0(), S: smtString("")})
				case 1:
					return one(&Val{Sh: ex.eng.sh.shapeOf(r0()), T: r0(), S: parts[0]})
				}
				return one(&Val{Sh: ex.eng.sh.shapeOf(r0()), T: r0(), S: "(str.++ " + strings.Join(parts, " ") + ")"})
			}
			if len(args) == 2 && f == "%v" {
				if t := ex.fmtVTerm(args[1]); t != "" {
					return one(&Val{Sh: ex.eng.sh.shapeOf(r0()), T: r0(), S: t})
				}
			}
			// a struct value rendered whole (%v / %+v): an uninterpreted function of every component of the value
			if len(args) == 2 && (f == "%v" || f == "%+v") && args[1] != nil && args[1].Sh != nil && args[1].Sh.Kind == "struct" && args[1].T != nil {
				var sorts, terms []string
				var leaves func(v *Val)
				leaves = func(v *Val) {
					if v == nil || v.Sh == nil {
						return
					}
					if v.Sh.IsLeaf() {
						sorts = append(sorts, v.Sh.Leaf)
						terms = append(terms, v.S)
						return
					}
					for _, k := range v.Kids {
						leaves(k)
					}
				}
				leaves(args[1])
				if len(terms) > 0 {
					fname := fmt.Sprintf("uf_fmtstruct_%d_%d", typeID(args[1].T), len(f))
					ex.eng.smt.declFun(fname, "(declare-fun "+fname+" ("+strings.Join(sorts, " ")+") String)")
					ex.assumption("fmt: the rendering of a whole struct value is an uninterpreted function of all its components")
					return one(&Val{Sh: ex.eng.sh.shapeOf(r0()), T: r0(), S: "(" + fname + " " + strings.Join(terms, " ") + ")"})
				}
			}
		}
		return one(ex.freshVal(r0(), "fmt"))
	case "strconv.Itoa", "strconv.FormatInt", "strconv.FormatUint":
		if len(args) == 1 || (len(args) == 2 && isConstInt(args[1], 10)) {
			return one(&Val{Sh: ex.eng.sh.shapeOf(r0()), T: r0(), S: ex.itoaTerm(args[0].S)})
		}
		return one(ex.freshVal(r0(), "fmt"))
	case "strconv.FormatFloat":
		if len(args) == 4 {
			return one(&Val{Sh: ex.eng.sh.shapeOf(r0()), T: r0(), S: ex.ftoaTerm(args[0], args[1], args[2], args[3])})
		}
		return one(ex.freshVal(r0(), "fmt"))
	case "strconv.FormatBool":
		if len(args) == 1 {
			return one(&Val{Sh: ex.eng.sh.shapeOf(r0()), T: r0(), S: "(ite " + args[0].S + " \"true\" \"false\")"})
		}
		return one(ex.freshVal(r0(), "fmt"))
	case "fmt.Sprint":
		if len(args) == 1 {
			if t := ex.fmtVTerm(args[0]); t != "" {
				return one(&Val{Sh: ex.eng.sh.shapeOf(r0()), T: r0(), S: t})
			}
		}
		return one(ex.freshVal(r0(), "fmt"))
	case "fmt.Sprintln", "strconv.Quote":
		return one(ex.freshVal(r0(), "fmt"))
	case "errors.Is":
		// deterministic in (err, target); true when they are the same value, false for a nil error
		ex.eng.smt.declFun("uf_errorsIs", "(declare-fun uf_errorsIs (Int Int) Bool)")
		ex.eng.smt.addFunAx("uf_errorsIs", "(forall ((e Int) (t Int)) (! (and (=> (= e t) (uf_errorsIs e t)) (=> (and (= e 0) (not (= t 0))) (not (uf_errorsIs e t)))) :pattern ((uf_errorsIs e t))))")
		if len(args) != 2 || args[0].S == "" || args[1].S == "" {
			// a struct-valued target (e.g. husky's OTLPError values): unconstrained answer
			return one(b(ex.eng.smt.fresh("errIs", "Bool")))
		}
		return one(b("(uf_errorsIs " + args[0].S + " " + args[1].S + ")"))
	case "errors.As":
		return one(b(ex.eng.smt.fresh("errAs", "Bool")))
	// ---- math
	case "math.Sqrt":
		r := ex.freshVal(r0(), "sqrt")
		x := args[0].S
		st.assume("(=> (>= " + x + " 0.0) (and (>= " + r.S + " 0.0) (= (* " + r.S + " " + r.S + ") " + x + ")))")
		ex.assumption("math.Sqrt: for x >= 0 the result r satisfies r >= 0 and r*r = x (exact reals)")
		return one(r)
	case "math.Atan":
		ex.eng.smt.declFun("uf_atan", "(declare-fun uf_atan (Real) Real)")
		ex.eng.smt.addFunAx("uf_atan", "(forall ((x Real) (y Real)) (! (=> (<= x y) (<= (uf_atan x) (uf_atan y))) :pattern ((uf_atan x) (uf_atan y))))")
		ex.eng.smt.addFunAx("uf_atan", "(forall ((x Real)) (! (= (uf_atan (- x)) (- (uf_atan x))) :pattern ((uf_atan x))))")
		ex.eng.smt.addFunAx("uf_atan", "(and (< 1.2490457 (uf_atan 3.0)) (< (uf_atan 3.0) 1.2490458) (= (uf_atan 0.0) 0.0))")
		ex.assumption("math.Atan: uninterpreted, monotone, odd, atan(0)=0, atan(3) in (1.2490457, 1.2490458)")
		return one(&Val{Sh: args[0].Sh, T: r0(), S: "(uf_atan " + args[0].S + ")"})
	case "math.Trunc":
		// towards zero
		x := args[0].S
		return one(&Val{Sh: args[0].Sh, T: r0(), S: "(ite (>= " + x + " 0.0) (to_real (to_int " + x + ")) (- (to_real (to_int (- " + x + ")))))"})
	case "math.Floor":
		return one(&Val{Sh: args[0].Sh, T: r0(), S: "(to_real (to_int " + args[0].S + "))"})
	case "math.Abs":
		return one(&Val{Sh: args[0].Sh, T: r0(), S: "(ite (>= " + args[0].S + " 0.0) " + args[0].S + " (- " + args[0].S + "))"})
	case "math.Max":
		return one(&Val{Sh: args[0].Sh, T: r0(), S: "(ite (>= " + args[0].S + " " + args[1].S + ") " + args[0].S + " " + args[1].S + ")"})
	case "math.Min":
		return one(&Val{Sh: args[0].Sh, T: r0(), S: "(ite (<= " + args[0].S + " " + args[1].S + ") " + args[0].S + " " + args[1].S + ")"})
	// ---- sync
	case "sync.(*Mutex).Lock", "sync.(*RWMutex).Lock":
		ex.lockOp(st, recv, "lock", pos)
		return none()
	case "sync.(*Mutex).Unlock", "sync.(*RWMutex).Unlock":
		ex.lockOp(st, recv, "unlock", pos)
		return none()
	case "sync.(*RWMutex).RLock":
		ex.lockOp(st, recv, "rlock", pos)
		return none()
	case "sync.(*RWMutex).RUnlock":
		ex.lockOp(st, recv, "runlock", pos)
		return none()
	case "sync.(*Mutex).TryLock", "sync.(*RWMutex).TryLock":
		return one(b(ex.eng.smt.fresh("trylock", "Bool")))
	// ---- atomics (sequential cell)
	case "sync/atomic.(*Int64).Load", "sync/atomic.(*Int32).Load", "sync/atomic.(*Uint64).Load", "sync/atomic.(*Uint32).Load", "sync/atomic.(*Bool).Load":
		if l := ex.derefLoc(st, recv); l != nil {
			return one(ex.retype(ex.readLoc(st, l), r0()))
		}
	case "sync/atomic.(*Int64).Store", "sync/atomic.(*Int32).Store", "sync/atomic.(*Uint64).Store", "sync/atomic.(*Uint32).Store", "sync/atomic.(*Bool).Store":
		if l := ex.derefLoc(st, recv); l != nil {
			ex.writeLoc(st, l, &Val{Sh: l.Sh, T: l.T, S: args[0].S})
			return none()
		}
	case "sync/atomic.(*Int64).Add", "sync/atomic.(*Int32).Add", "sync/atomic.(*Uint64).Add", "sync/atomic.(*Uint32).Add":
		if l := ex.derefLoc(st, recv); l != nil {
			cur := ex.readLoc(st, l)
			nv := ex.arith(st, r0(), "(+ "+cur.S+" "+args[0].S+")", pos, "atomic-add")
			ex.writeLoc(st, l, &Val{Sh: l.Sh, T: l.T, S: nv.S})
			return one(nv)
		}
	// ---- slices / maps helpers
	case "slices.Contains", "golang.org/x/exp/slices.Contains":
		s, v := args[0], args[1]
		if s.Sh != nil && s.Sh.Kind == "slice" && s.kid("elems").Sh.IsLeaf() {
			q := "q_sc"
			return one(b("(exists ((" + q + " Int)) (and (<= 0 " + q + ") (< " + q + " " + s.kid("len").S + ") (= (select " + s.kid("elems").S + " " + q + ") " + v.S + ")))"))
		}
	case "sync.(*Map).Load", "sync.(*Map).Store", "sync.(*Map).LoadOrStore", "sync.(*Map).Delete":
		l := ex.derefLoc(st, recv)
		if l != nil && l.Sh.Kind == "map" && len(args) > 0 && args[0].Sh != nil {
			anyT0 := types.NewInterfaceType(nil, nil)
			args = append([]*Val(nil), args...)
			for i := range args {
				args[i] = ex.assignConv(st, args[i], anyT0, pos)
			}
			s := st
			if sc != nil && sc.inOld {
				s = sc.old
			}
			m := ex.readLoc(s, l)
			m.T = types.NewMap(types.Typ[types.String], types.NewInterfaceType(nil, nil))
			key := args[0]
			if ex.specDepth == 0 && ex.discovery == 0 {
				ex.obligNamed(st, "safety", "safety:syncmap-string-key("+ex.eng.srcLine(pos)+")", pos, eq(key.kid("tag").S, fmt.Sprint(tagString)), "sync.Map is modelled with string keys only")
			}
			k := &Val{Sh: leafShape(types.Typ[types.String], "String"), T: types.Typ[types.String], S: key.kid("s").S}
			present := "(select " + m.kid("dom").S + " " + k.S + ")"
			anyT := types.NewInterfaceType(nil, nil)
			cur := ex.retype(ex.selectVal(m.kid("val"), k.S), anyT)
			ex.assumption("sync.Map behaves as a sequential map (atomicity of each call; string keys)")
			switch ref {
			case "sync.(*Map).Load":
				ex.modelUsed[ref]++
				return []*Val{ex.iteVal(present, cur, ex.zeroVal(anyT)), b(present)}, true
			case "sync.(*Map).Store":
				ex.writeLoc(st, l, ex.mapStore(m, k, args[1]))
				return none()
			case "sync.(*Map).LoadOrStore":
				nm := ex.mapStore(m, k, args[1])
				ex.writeLoc(st, l, ex.iteVal(present, m, nm))
				ex.modelUsed[ref]++
				return []*Val{ex.iteVal(present, cur, args[1]), b(present)}, true
			case "sync.(*Map).Delete":
				ex.writeLoc(st, l, ex.mapDelete(m, k))
				return none()
			}
		}
	case "math.Float64bits":
		ex.eng.smt.declFun("uf_f64bits", "(declare-fun uf_f64bits (Real) Int)")
		ex.eng.smt.declFun("uf_f64from", "(declare-fun uf_f64from (Int) Real)")
		ex.eng.smt.addFunAx("uf_f64bits", "(forall ((x Real)) (! (and (= (uf_f64from (uf_f64bits x)) x) (<= 0 (uf_f64bits x)) (<= (uf_f64bits x) 18446744073709551615)) :pattern ((uf_f64bits x))))")
		ex.eng.smt.addFunAx("uf_f64bits", "(= (uf_f64bits 0.0) 0)")
		ex.assumption("math.Float64bits / Float64frombits: an uninterpreted bijection (frombits(bits(x)) = x, bits(+0.0) = 0); float64 values as reals")
		return one(ex.intVal("(uf_f64bits "+args[0].S+")", r0()))
	case "math.Float64frombits":
		ex.eng.smt.declFun("uf_f64bits", "(declare-fun uf_f64bits (Real) Int)")
		ex.eng.smt.declFun("uf_f64from", "(declare-fun uf_f64from (Int) Real)")
		ex.eng.smt.addFunAx("uf_f64bits", "(forall ((x Real)) (! (and (= (uf_f64from (uf_f64bits x)) x) (<= 0 (uf_f64bits x)) (<= (uf_f64bits x) 18446744073709551615)) :pattern ((uf_f64bits x))))")
		return one(&Val{Sh: ex.eng.sh.shapeOf(r0()), T: r0(), S: "(uf_f64from " + args[0].S + ")"})
	case "crypto/sha1.Sum":
		d := args[0]
		if d.Sh != nil && d.Sh.Kind == "slice" {
			ex.eng.smt.declFun("uf_sha1", "(declare-fun uf_sha1 ((Array Int Int) Int) (Array Int Int))")
			ex.assumption("crypto/sha1.Sum: a deterministic function of the input bytes (uninterpreted)")
			rt := r0()
			sh := ex.eng.sh.shapeOf(rt)
			arr := &Val{Sh: sh.Kids[0], S: "(uf_sha1 " + d.kid("elems").S + " " + d.kid("len").S + ")"}
			return one(&Val{Sh: sh, T: rt, Kids: []*Val{arr}})
		}
	case "encoding/binary.bigEndian.Uint32":
		b := args[0]
		if b.Sh != nil && b.Sh.Kind == "slice" {
			ex.safety(st, "index", pos, "(<= 4 "+b.kid("len").S+")")
			e := func(i int) string {
				return ex.loaded(&Val{Sh: leafShape(types.Typ[types.Uint8], "Int"), T: types.Typ[types.Uint8], S: fmt.Sprintf("(select %s %d)", b.kid("elems").S, i)}).S
			}
			return one(ex.intVal(ex.def("be32", "Int", "(+ (* "+e(0)+" 16777216) (* "+e(1)+" 65536) (* "+e(2)+" 256) "+e(3)+")"), r0()))
		}
	case "github.com/dgryski/go-wyhash.Hash":
		d := args[0]
		if d.Sh != nil && d.Sh.Kind == "slice" {
			ex.eng.smt.declFun("uf_wyhash", "(declare-fun uf_wyhash ((Array Int Int) Int Int) Int)")
			ex.eng.smt.addFunAx("uf_wyhash", "(forall ((a (Array Int Int)) (n Int) (s Int)) (! (and (<= 0 (uf_wyhash a n s)) (<= (uf_wyhash a n s) 18446744073709551615)) :pattern ((uf_wyhash a n s))))")
			ex.assumption("wyhash.Hash: a deterministic function of the input bytes and seed (uninterpreted)")
			return one(ex.intVal("(uf_wyhash "+d.kid("elems").S+" "+d.kid("len").S+" "+args[1].S+")", r0()))
		}
	case "internal/otelutil.StartSpan":
		// the derived context carries the same request metadata: identified with its parent
		ex.assumption("otelutil.StartSpan: the derived context is identified with its parent (it carries the same request metadata)")
		ex.modelUsed[ref]++
		rs := ex.freshResults(fn, resT, "span")
		if len(rs) == 2 && len(args) > 0 {
			rs[0] = ex.retype(args[0], rs[0].T)
		}
		return rs, true
	case "strconv.ParseInt", "strconv.ParseUint":
		// decimal digit strings only; anything else yields an unconstrained (value, err)
		if len(args) == 3 && args[1].C != nil {
			str := args[0].S
			n := ex.def("atoi", "Int", "(str.to_int "+str+")")
			base := args[1].S
			hi := "9223372036854775807"
			if ref == "strconv.ParseUint" {
				hi = "18446744073709551615"
			}
			plain := and("(>= "+n+" 0)", "(<= "+n+" "+hi+")")
			if base == "0" {
				// base 0: a leading 0 selects octal/hex/binary; underscores are permitted only with a prefix
				plain = and(plain, or(eq("(str.len "+str+")", "1"), not(eq("(str.at "+str+" 0)", "\"0\""))))
			} else if base != "10" {
				// other bases: value and error unconstrained, no side effects
				ex.modelUsed[ref]++
				return ex.freshResults(fn, resT, "parse"), true
			}
			rs := ex.freshResults(fn, resT, "parse")
			if len(rs) == 2 {
				st.assume(implies(plain, and(eq(rs[0].S, n), eq(rs[1].S, "0"))))
				// a string that is not a plain decimal number of the right size: for base 10 it is an error
				if base == "10" {
					st.assume(implies(not(plain), not(eq(rs[1].S, "0"))))
				}
				ex.assumption("strconv.ParseInt/ParseUint: on a string of decimal digits within range the result is its numeric value and no error (SMT str.to_int); base 10 rejects everything else")
				ex.modelUsed[ref]++
				return rs, true
			}
		}
	case "math/rand.Intn", "math/rand.Int63n", "math/rand.Int31n", "math/rand.(*Rand).Intn", "math/rand/v2.IntN":
		if len(args) >= 1 && sc == nil {
			n := args[len(args)-1]
			ex.obligNamed(st, "safety", "safety:rand-arg-positive("+ex.eng.srcLine(pos)+")", pos, "(> "+n.S+" 0)", "rand.Intn panics unless its argument is positive")
			r := ex.freshVal(r0(), "rand")
			st.assume("(and (<= 0 " + r.S + ") (< " + r.S + " " + n.S + "))")
			return one(r)
		}
	case "os.Exit":
		st.assume("false")
		return none()
	}
	return nil, false
}

// lockOp updates the ghost lock state stored in the mutex's own location.
func (ex *Exec) lockOp(st *State, recv *Val, op string, pos token.Pos) {
	if !ex.lockCheck {
		return
	}
	l := ex.derefLoc(st, recv)
	if l == nil {
		return
	}
	cur := ex.readLoc(st, l)
	if !cur.Sh.IsLeaf() {
		return
	}
	set := func(s string) { ex.writeLoc(st, l, &Val{Sh: l.Sh, T: l.T, S: s}) }
	name := strings.Join(l.Path, ".")
	mkey := l.TKey + "#" + l.Ref + "#" + name
	if ex.eng.mutexKeys == nil {
		ex.eng.mutexKeys = map[string]bool{}
	}
	ex.eng.mutexKeys[heapKey(l.TKey, name)] = true
	switch op {
	case "unlock", "runlock":
		if st.released == nil {
			st.released = map[string]bool{}
		}
		st.released[mkey] = true
	case "lock", "rlock":
		if st.released[mkey] && len(l.Path) == 1 {
			// the lock was given up earlier on this path: what it guards may have been changed by others
			n := 0
			tsh := ex.eng.sh.cacheByKey(l.TKey)
			for fk, mu := range ex.eng.cs.Guarded {
				if mu != l.Path[0] || !strings.HasPrefix(fk, l.TKey+".") || tsh == nil {
					continue
				}
				f := strings.TrimPrefix(fk, l.TKey+".")
				fsh := tsh.kid(f)
				if fsh == nil {
					continue
				}
				fl := &Loc{Heap: true, TKey: l.TKey, Ref: l.Ref, Path: []string{f}, Sh: fsh, T: fsh.T}
				ex.writeLoc(st, fl, ex.freshValSh(fsh, "interf"))
				n++
			}
			if n > 0 {
				ex.note("lock %s re-acquired at %s: %d guarded field(s) havocked (interference by other goroutines)", name, ex.pos(pos), n)
				ex.reassumeObjInvs(st)
			}
		}
	}
	switch op {
	case "lock":
		if ex.lockCheck {
			ex.obligNamed(st, "lock", "lock:"+name+":not-held-before-Lock", pos, eq(cur.S, "0"), "mutex is not already held when Lock is called (self-deadlock)")
		}
		set("2")
	case "rlock":
		if ex.lockCheck {
			ex.obligNamed(st, "lock", "lock:"+name+":not-write-held-before-RLock", pos, not(eq(cur.S, "2")), "mutex is not write-held when RLock is called")
		}
		set("1")
	case "unlock":
		if ex.lockCheck {
			ex.obligNamed(st, "lock", "lock:"+name+":held-at-Unlock", pos, eq(cur.S, "2"), "Unlock of a mutex that is write-locked")
		}
		set("0")
	case "runlock":
		if ex.lockCheck {
			ex.obligNamed(st, "lock", "lock:"+name+":held-at-RUnlock", pos, eq(cur.S, "1"), "RUnlock of a mutex that is read-locked")
		}
		set("0")
	}
}

// guardCheck: a guarded field may be read only with the lock held, written only
// with the write lock.
func (ex *Exec) guardCheck(st *State, loc *Loc, at interface{ Pos() token.Pos }, write bool) {
	if !ex.lockCheck || !loc.Heap || len(loc.Path) == 0 || ex.specDepth > 0 {
		return
	}
	mu, ok := ex.eng.cs.Guarded[loc.TKey+"."+loc.Path[0]]
	if !ok {
		return
	}
	tsh := ex.eng.sh.cacheByKey(loc.TKey)
	if tsh == nil {
		return
	}
	msh := tsh.kid(mu)
	if msh == nil || !msh.IsLeaf() {
		return
	}
	ml := &Loc{Heap: true, TKey: loc.TKey, Ref: loc.Ref, Path: []string{mu}, Sh: msh, T: msh.T}
	cur := ex.readLoc(st, ml)
	what := "read"
	goal := not(eq(cur.S, "0"))
	// an object this function allocated itself is not shared yet
	fresh := "(> " + loc.Ref + " " + ex.eng.alloc0() + ")"
	defer func() { _ = fresh }()
	if write {
		what = "write"
		goal = eq(cur.S, "2")
	}
	goal = or(goal, fresh)
	ex.guardN[loc.Path[0]+what]++
	ex.obligNamed(st, "held", fmt.Sprintf("held(%s):%s:%s#%d", mu, what, loc.Path[0], ex.guardN[loc.Path[0]+what]), at.Pos(), goal, fmt.Sprintf("%s of %s.%s requires %s held", what, loc.TKey, loc.Path[0], mu))
}

// respHeaderLoc: the ghost cell holding the header map of a ResponseWriter, when `call` is w.Header()
// and http.Header has its real shape.
func (ex *Exec) respHeaderLoc(st *State, call *ast.CallExpr) *Loc {
	sel, ok := call.Fun.(*ast.SelectorExpr)
	if !ok || sel.Sel.Name != "Header" || len(call.Args) != 0 {
		return nil
	}
	t := ex.typeOf(call)
	if t == nil || types.TypeString(t, nil) != "net/http.Header" {
		return nil
	}
	sh := ex.eng.sh.shapeOf(t)
	if sh.Kind != "map" {
		return nil
	}
	w := ex.eval(st, sel.X, nil)
	if w == nil || w.Sh == nil || !w.Sh.IsLeaf() {
		return nil
	}
	return &Loc{Heap: true, TKey: "G$", Ref: w.S, Path: []string{"respHeader"}, Sh: sh, T: t}
}

// finalCheck: a field declared `final` is written only in an object allocated by this
// very function (construction); any other write is a failed obligation.
func (ex *Exec) finalCheck(st *State, loc *Loc, at interface{ Pos() token.Pos }) {
	if !loc.Heap || ex.specDepth > 0 {
		return
	}
	key := heapKey(loc.TKey, strings.Join(loc.Path, "."))
	if !isFinalKey(key) {
		return
	}
	if init := ex.eng.cs.FinalInit[key]; init != "" && ex.contract != nil && ex.contract.Func == init {
		return
	}
	ex.finalN++
	ex.obligNamed(st, "final", fmt.Sprintf("final:write(%s)#%d", key, ex.finalN), at.Pos(), "(>= "+loc.Ref+" "+ex.eng.alloc0()+")", "field "+key+" is declared final: it may be assigned only in an object this function has just allocated")
}

func (ex *Exec) ownsCheck(st *State, loc *Loc, at interface{ Pos() token.Pos }) {
	if !ex.ownsCheckOn || !loc.Heap || ex.specDepth > 0 {
		return
	}
	if !ex.eng.ownedTypes[loc.TKey] {
		return
	}
	g, ok := ex.eng.cs.Ghosts["owns"]
	if !ok {
		return
	}
	ol := ex.ghostLoc(g, []*Val{{S: loc.Ref}})
	cur := ex.readLoc(st, ol)
	ex.ownsN++
	ex.obligNamed(st, "owns", fmt.Sprintf("owns:write(%s.%s)#%d", loc.TKey, strings.Join(loc.Path, "."), ex.ownsN), at.Pos(), cur.S, "write to "+loc.TKey+"."+strings.Join(loc.Path, ".")+" requires ownership (the object has not been handed to a transmission)")
}


// ---- number formatting (strconv / fmt): the text is an uninterpreted function of the number and the format;
// the only facts assumed are that a whole number within float64's exact range prints, in 'f' format with the
// shortest precision, as its decimal integer, and that %v / 'g' does the same below 10^6 (above it %v switches
// to exponent notation).

func isConstInt(v *Val, n int64) bool {
	if v == nil || v.C == nil || v.C.Kind() != constant.Int {
		return false
	}
	x, ok := constant.Int64Val(v.C)
	return ok && x == n
}

func (ex *Exec) itoaTerm(n string) string {
	ex.eng.smt.declFun("uf_itoa", "(declare-fun uf_itoa (Int) String)")
	ex.assumption("strconv / fmt: the decimal text of an integer is an uninterpreted function of its value")
	return "(uf_itoa " + n + ")"
}

func (ex *Exec) ftoaRaw(x, fmtc, prec, bits string) string {
	ex.eng.smt.declFun("uf_itoa", "(declare-fun uf_itoa (Int) String)")
	ex.eng.smt.declFun("uf_ftoa", "(declare-fun uf_ftoa (Real Int Int Int) String)")
	ex.assumption("strconv / fmt: the text of a float is an uninterpreted function of (value, format, precision, bit size); a whole number of magnitude <= 2^53 prints in ('f', -1) as its decimal integer, a whole number of any magnitude prints in ('f', 0) as its decimal integer, and in ('g', -1) / %v likewise below 10^6; ('g', -1) equals ('f', -1) for 1e-4 <= |x| < 1e6 and for 0")
	term := "(uf_ftoa " + x + " " + fmtc + " " + prec + " " + bits + ")"
	if ex.bound > 0 {
		return term
	}
	name := ex.eng.smt.fresh("ftoa", "String")
	ex.eng.smt.addAx(name, "(= "+name+" "+term+")")
	whole := "(and (is_int " + x + ") (<= (- 9007199254740992.0) " + x + ") (<= " + x + " 9007199254740992.0))"
	small := "(and (< (- 1000000.0) " + x + ") (< " + x + " 1000000.0))"
	ex.eng.smt.addAx(name, "(=> (and (= "+fmtc+" 102) (= "+prec+" (- 1)) "+whole+") (= "+name+" (uf_itoa (to_int "+x+"))))")
	// with precision 0, 'f' prints the exact decimal expansion of the float: for a whole number of any magnitude that
	// is the decimal integer
	ex.eng.smt.addAx(name, "(=> (and (= "+fmtc+" 102) (= "+prec+" 0) (is_int "+x+")) (= "+name+" (uf_itoa (to_int "+x+"))))")
	ex.eng.smt.addAx(name, "(=> (and (= "+fmtc+" 103) (= "+prec+" (- 1)) "+whole+" "+small+") (= "+name+" (uf_itoa (to_int "+x+"))))")
	// with the shortest precision, 'g' (and so %v) only differs from 'f' by switching to exponent notation
	// when the decimal exponent is < -4 or >= 6
	mid := "(or (= " + x + " 0.0) (and (<= 0.0001 " + x + ") (< " + x + " 1000000.0)) (and (<= " + x + " (- 0.0001)) (< (- 1000000.0) " + x + ")))"
	ex.eng.smt.addAx(name, "(=> (and (= "+fmtc+" 103) (= "+prec+" (- 1)) "+mid+") (= "+name+" (uf_ftoa "+x+" 102 (- 1) "+bits+")))")
	return name
}

func (ex *Exec) ftoaTerm(x, fmtc, prec, bits *Val) string {
	return ex.ftoaRaw(x.S, fmtc.S, prec.S, bits.S)
}

// fmtVTerm: the text fmt produces for one operand under %v ("" when the operand's kind is not modelled).
func (ex *Exec) fmtVTerm(v *Val) string {
	if v == nil || v.Sh == nil {
		return ""
	}
	if v.Sh.Kind == "any" {
		tag := v.kid("tag").S
		is := func(t int) string { return eq(tag, fmt.Sprint(t)) }
		ex.eng.smt.declFun("uf_fmtother", "(declare-fun uf_fmtother (Int Int Int String) String)")
		other := "(uf_fmtother " + v.kid("ty").S + " " + v.kid("i").S + " " + v.kid("ref").S + " " + v.kid("s").S + ")"
		f64 := ex.ftoaRaw(v.kid("r").S, "103", "(- 1)", "64")
		f32 := ex.ftoaRaw(v.kid("r").S, "103", "(- 1)", "32")
		return ite(is(0), smtString("<nil>"),
			ite(or(is(tagInt64), is(tagInt), is(tagUint64)), ex.itoaTerm(v.kid("i").S),
				ite(is(tagString), v.kid("s").S,
					ite(is(tagBool), "(ite "+v.kid("b").S+" \"true\" \"false\")",
						ite(is(tagFloat), f64, ite(is(tagF32), f32, other))))))
	}
	if !v.Sh.IsLeaf() || v.T == nil {
		return ""
	}
	b, ok := v.T.Underlying().(*types.Basic)
	if !ok {
		return ""
	}
	if _, named := types.Unalias(v.T).(*types.Named); named {
		return "" // may have a String method
	}
	switch {
	case b.Info()&types.IsString != 0:
		return v.S
	case b.Info()&types.IsInteger != 0:
		return ex.itoaTerm(v.S)
	case b.Info()&types.IsBoolean != 0:
		return "(ite " + v.S + " \"true\" \"false\")"
	case b.Kind() == types.Float64 || b.Kind() == types.UntypedFloat:
		return ex.ftoaRaw(v.S, "103", "(- 1)", "64")
	case b.Kind() == types.Float32:
		return ex.ftoaRaw(v.S, "103", "(- 1)", "32")
	}
	return ""
}
