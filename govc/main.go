package main

import (
	"encoding/json"
	"flag"
	"fmt"
	"os"
	"os/exec"
	"path/filepath"
	"regexp"
	"sort"
	"strconv"
	"strings"
	"time"
)

type KnownFinding struct {
	ID         string `json:"id"`
	Property   string `json:"property"`
	Obligation string `json:"obligation"`
	What       string `json:"what"`
	Status     string `json:"status"` // open | fixed
	Commit     string `json:"commit,omitempty"`
	Witness    string `json:"witness,omitempty"`
	CarveOut   string `json:"carve_out,omitempty"`
}

type propConfig struct {
	Packages []string `json:"packages"`
	Level    string   `json:"level"`
	Standins []string `json:"standins"`
}

func main() {
	if len(os.Args) < 2 {
		fmt.Fprintln(os.Stderr, "usage: govc check|list|warm ...")
		os.Exit(2)
	}
	switch os.Args[1] {
	case "check":
		os.Exit(cmdCheck(os.Args[2:]))
	case "warm":
		os.Exit(cmdWarm(os.Args[2:]))
	case "list":
		os.Exit(cmdList(os.Args[2:]))
	case "transform":
		fmt.Println(transformSpec(strings.Join(os.Args[2:], " ")))
	default:
		fmt.Fprintln(os.Stderr, "unknown command")
		os.Exit(2)
	}
}

// contractPackages: every refinery package that has a contract file (in /repo or the mirror).
func contractPackages(repo, verif string) []string {
	set := map[string]bool{}
	for _, root := range []string{repo, filepath.Join(verif, "contracts")} {
		filepath.Walk(root, func(p string, info os.FileInfo, err error) error {
			if err != nil {
				return nil
			}
			if info.IsDir() && (info.Name() == ".git" || info.Name() == "node_modules" || info.Name() == "LICENSES") {
				return filepath.SkipDir
			}
			if !info.IsDir() && info.Name() == "verif_contracts.go" {
				rel, _ := filepath.Rel(root, filepath.Dir(p))
				set[rel] = true
			}
			return nil
		})
	}
	var out []string
	for k := range set {
		out = append(out, k)
	}
	sort.Strings(out)
	return out
}

func cmdWarm(args []string) int {
	fs := flag.NewFlagSet("warm", flag.ExitOnError)
	repo := fs.String("repo", "/repo", "")
	verif := fs.String("verif", "/verif", "")
	fs.Parse(args)
	eng := newEngine(*repo, *verif)
	t0 := time.Now()
	if err := eng.load(contractPackages(*repo, *verif)); err != nil {
		fmt.Fprintln(os.Stderr, "load:", err)
		return 2
	}
	fmt.Printf("loaded %d packages in %.1fs\n", len(eng.pkgs), time.Since(t0).Seconds())
	return 0
}

func cmdList(args []string) int {
	fs := flag.NewFlagSet("list", flag.ExitOnError)
	repo := fs.String("repo", "/repo", "")
	verif := fs.String("verif", "/verif", "")
	fs.Parse(args)
	eng := newEngine(*repo, *verif)
	if err := eng.load(contractPackages(*repo, *verif)); err != nil {
		fmt.Fprintln(os.Stderr, "load:", err)
		return 2
	}
	eng.loadContracts()
	for _, c := range eng.cs.allContracts() {
		fmt.Printf("%-9s %-70s props=%s clauses=%d\n", c.Kind, obName(c), strings.Join(c.Props, ","), len(c.Clauses))
	}
	for _, e := range eng.cs.Errors {
		fmt.Println("ERROR", e)
	}
	return 0
}

func hasProp(ps []string, p string) bool {
	for _, x := range ps {
		if x == p {
			return true
		}
	}
	return false
}

func cmdCheck(args []string) int {
	fs := flag.NewFlagSet("check", flag.ExitOnError)
	repo := fs.String("repo", "/repo", "")
	verif := fs.String("verif", "/verif", "")
	prop := fs.String("prop", "", "property id")
	tier := fs.String("tier", "quick", "quick|thorough")
	only := fs.String("only", "", "only contracts whose name contains this")
	verbose := fs.Bool("v", false, "")
	noEvidence := fs.Bool("no-evidence", false, "do not write the evidence file")
	outRoot := fs.String("out", "", "directory for .smt2 files (default <verif>/out)")
	fs.Parse(args)
	if *prop == "" {
		fmt.Fprintln(os.Stderr, "-prop required")
		return 2
	}
	if t := os.Getenv("VERIF_TIER"); t == "quick" || t == "thorough" {
		*tier = t
	}
	seed := 0
	if s := os.Getenv("VERIF_SEED"); s != "" {
		seed, _ = strconv.Atoi(s)
	}
	t0 := time.Now()
	eng := newEngine(*repo, *verif)
	if err := eng.load(contractPackages(*repo, *verif)); err != nil {
		fmt.Fprintln(os.Stderr, "ENGINE-FAULT load:", err)
		return 2
	}
	eng.loadContracts()
	if len(eng.cs.Errors) > 0 {
		for _, e := range eng.cs.Errors {
			fmt.Fprintln(os.Stderr, "CONTRACT-ERROR", e)
		}
		return 2
	}
	for _, kt := range eng.cs.KeyTypes {
		specialLeaf[kt] = "K_" + sanitize(kt)
	}
	for _, u := range eng.cs.Unopaque {
		if hasProp(u.Props, *prop) {
			delete(specialLeaf, u.Type)
		}
	}
	tLoad := time.Since(t0).Seconds()

	var reports []*FuncReport
	var all []*Obligation
	var faults []string
	for _, c := range eng.cs.allContracts() {
		if c.Kind == "assume" || !hasProp(c.Props, *prop) {
			continue
		}
		if *only != "" && !strings.Contains(obName(c), *only) {
			continue
		}
		rep, err := eng.verify(c, *prop)
		if err != nil {
			faults = append(faults, err.Error())
			continue
		}
		for _, e := range rep.SpecErrs {
			faults = append(faults, "contract expression error: "+e)
		}
		reports = append(reports, rep)
		all = append(all, rep.Obligations...)
	}
	// sweep: the no-panic obligations (nil dereference, index and slice bounds, division, conversions, closed
	// channels, rand arguments, ...) of every other contract, each generated under the contract's own first property
	if eng.cs.Sweeps[*prop] == "safety" && *only == "" {
		for _, c := range eng.cs.allContracts() {
			if c.Kind == "assume" || hasProp(c.Props, *prop) || len(c.Props) == 0 || strings.Contains(obName(c), "#locks") {
				continue
			}
			rep, err := eng.verify(c, c.Props[0])
			if err != nil {
				continue
			}
			var keep []*Obligation
			for _, ob := range rep.Obligations {
				if ob.Kind == "safety" {
					ob.Prop = *prop
					keep = append(keep, ob)
				}
			}
			if len(keep) == 0 {
				continue
			}
			rep.Obligations = keep
			rep.Sweep = true
			reports = append(reports, rep)
			all = append(all, keep...)
		}
	}
	for _, lm := range eng.cs.Lemmas {
		if !hasProp(lm.Props, *prop) {
			continue
		}
		if *only != "" && !strings.Contains(lm.Name, *only) {
			continue
		}
		ob, errs := eng.verifyLemma(lm, *prop)
		for _, e := range errs {
			faults = append(faults, "lemma expression error: "+e)
		}
		all = append(all, ob)
	}
	for _, cf := range eng.cs.Confines {
		if !hasProp(cf.Props, *prop) || (*only != "" && !strings.Contains(cf.Type, *only)) {
			continue
		}
		all = append(all, eng.confineObligations(cf, *prop)...)
	}
	for _, gt := range eng.cs.GoTracked {
		if !hasProp(gt.Props, *prop) || (*only != "" && !strings.Contains(gt.Type, *only)) {
			continue
		}
		all = append(all, eng.goTrackedObligations(gt, *prop)...)
	}
	tGen := time.Since(t0).Seconds() - tLoad
	if len(faults) > 0 {
		for _, f := range faults {
			fmt.Fprintln(os.Stderr, "ENGINE-FAULT", f)
		}
		return 2
	}
	if len(all) == 0 {
		fmt.Fprintln(os.Stderr, "ENGINE-FAULT no obligations generated for", *prop)
		return 2
	}
	timeout := 20 * time.Second
	if *tier == "thorough" {
		timeout = 120 * time.Second
	}
	if s := os.Getenv("GOVC_TIMEOUT"); s != "" {
		if n, err := strconv.Atoi(s); err == nil {
			timeout = time.Duration(n) * time.Second
		}
	}
	outDir := *outRoot
	if outDir == "" {
		outDir = filepath.Join(*verif, "out")
	}
	outDir = filepath.Join(outDir, *prop)
	os.RemoveAll(outDir)
	os.MkdirAll(outDir, 0o755)
	var todo []*Obligation
	for _, ob := range all {
		if ob.Result == "" {
			todo = append(todo, ob)
		}
	}
	dischargeAll(todo, timeout, seed, outDir, 8)
	// a proof obligation that only ran out of time gets a second, unhurried attempt (two at a time, three times the
	// budget): on a loaded machine the first round competes with up to 24 solver processes, and a timeout there must
	// not be reported as a violation of code that has not changed
	var again []*Obligation
	for _, ob := range todo {
		if ob.Result == "timeout" && !ob.ExpectSat {
			ob.Result = ""
			again = append(again, ob)
		}
	}
	if len(again) > 0 && len(again) <= 12 {
		dischargeAll(again, 3*timeout, seed, outDir, 2)
	} else {
		for _, ob := range again {
			ob.Result = "timeout"
		}
	}
	tSolve := time.Since(t0).Seconds() - tLoad - tGen

	// known findings
	known := map[string]*KnownFinding{}
	if data, err := os.ReadFile(filepath.Join(*verif, "known_findings.json")); err == nil {
		var kfs []*KnownFinding
		if err := json.Unmarshal(data, &kfs); err != nil {
			fmt.Fprintln(os.Stderr, "ENGINE-FAULT known_findings.json:", err)
			return 2
		}
		for _, k := range kfs {
			known[k.ID] = k
		}
	}

	claimed, discharged, covers, coverOK := 0, 0, 0, 0
	violations := 0
	exit := 0
	var perOb []map[string]any
	var findingLines []string
	solverTime := map[string]float64{}
	solverCount := map[string]int{}
	replayDir := filepath.Join(*verif, "replay", *prop)
	os.RemoveAll(replayDir)
	for _, ob := range all {
		entry := map[string]any{"name": ob.Name, "kind": ob.Kind, "result": ob.Result, "solver": ob.Solver, "seconds": round3(ob.Seconds), "pos": ob.Pos}
		if ob.Finding != "" {
			entry["finding"] = ob.Finding
		}
		perOb = append(perOb, entry)
		solverTime[ob.Solver] += ob.Seconds
		solverCount[ob.Solver]++
		switch {
		case ob.ExpectSat:
			covers++
			switch ob.Result {
			case "sat":
				coverOK++
			case "unsat":
				fmt.Fprintf(os.Stderr, "ENGINE-FAULT vacuity guard failed: %s (%s)\n", ob.Name, ob.Text)
				exit = 2
			default:
				fmt.Fprintf(os.Stderr, "warning: vacuity guard undecided (%s): %s\n", ob.Result, ob.Name)
			}
		case ob.Finding != "":
			kf := known[ob.Finding]
			if ob.Result == "unsat" {
				fmt.Printf("note: obligation %s tagged with finding %s is now discharged (the defect no longer reproduces)\n", ob.Name, ob.Finding)
				continue
			}
			if kf != nil && kf.Status == "open" && kf.Property == *prop {
				findingLines = append(findingLines, fmt.Sprintf("KNOWN-FINDING: property=%s %s [%s: %s]", *prop, kf.What, ob.Finding, ob.Name))
			} else {
				violations++
				p := writeReplay(replayDir, ob, "obligation tagged as finding "+ob.Finding+" but not listed as open in known_findings.json")
				fmt.Printf("VIOLATION property=%s replay=%s no-failing-input-found\n", *prop, p)
			}
		default:
			claimed++
			if ob.Result == "unsat" {
				discharged++
				continue
			}
			violations++
			why := "obligation not discharged: solver answered " + ob.Result
			p := writeReplay(replayDir, ob, why)
			tail := " no-failing-input-found"
			if ob.Result == "sat" && os.Getenv("GOVC_NOREPLAY") == "" {
				rr := eng.replay(ob)
				ob.Replay = rr
				p = writeReplay(replayDir, ob, why)
				if rr.Confirmed {
					tail = ""
				}
				fmt.Printf("  replay: confirmed=%v %s\n", rr.Confirmed, rr.Detail)
			}
			fmt.Printf("VIOLATION property=%s replay=%s%s\n", *prop, p, tail)
			fmt.Printf("  failed obligation: %s [%s] at %s\n  %s\n", ob.Name, ob.Result, ob.Pos, ob.Text)
		}
	}
	// bounded stand-ins for assumed contracts this check relied on (thorough tier)
	var standinRes []map[string]any
	usedAssumed := map[string]bool{}
	for _, r := range reports {
		for k := range r.Assumed {
			usedAssumed[k] = true
		}
	}
	for _, sd := range eng.cs.Standins {
		if !usedAssumed[sd.Func] {
			continue
		}
		entry := map[string]any{"assumed_contract": sd.Func, "test": sd.File + " " + sd.Test, "label": "bounded (never counted as proved)"}
		if *tier != "thorough" && os.Getenv("GOVC_STANDINS") == "" {
			entry["result"] = "not run in the quick tier"
			standinRes = append(standinRes, entry)
			continue
		}
		ok, cases, out := runStandin(*repo, *verif, sd)
		entry["cases"] = cases
		if ok {
			entry["result"] = "pass"
		} else {
			entry["result"] = "FAIL"
			entry["output"] = out
			violations++
			rp := filepath.Join(replayDir, "standin_"+sd.Test+".json")
			os.MkdirAll(replayDir, 0o755)
			data, _ := json.MarshalIndent(map[string]any{"obligation": "standin:" + sd.Func, "why": "the assumed contract of " + sd.Func + " is contradicted by the real function (bounded stand-in test failed)", "replay_cmd": "tools/witness.sh " + sd.Pkg + " " + sd.File + " " + sd.Test, "output": out}, "", " ")
			os.WriteFile(rp, data, 0o644)
			fmt.Printf("VIOLATION property=%s replay=%s\n  failed obligation: standin:%s (assumed contract contradicted by the real code)\n", *prop, rp, sd.Func)
		}
		standinRes = append(standinRes, entry)
	}
	for _, l := range findingLines {
		fmt.Println(l)
	}
	if violations > 0 {
		// a failed obligation is the finding; an unreachable return next to it (an invariant that does not hold was
		// assumed inside its loop) is its consequence, not a fault of the engine
		exit = 1
	}
	wall := time.Since(t0).Seconds()

	// evidence
	var funcs []string
	assumptions := map[string]bool{}
	trusted := map[string]bool{"go/types + go/packages (typed AST of the working tree)": true, "govc VC generator (/verif/govc)": true, "SMT solvers z3 4.8.12, z3 5.1.0, cvc5 1.0": true}
	abstracted := map[string]int{}
	unknownCalls := map[string]int{}
	var notes []string
	for _, r := range reports {
		funcs = append(funcs, r.Func)
		for _, a := range r.Assumptions {
			assumptions[a] = true
		}
		for k, n := range r.Models {
			trusted["model of "+k] = true
			abstracted["model:"+k] += n
		}
		for k, n := range r.Assumed {
			trusted["assumed contract of "+k] = true
			abstracted["assumed:"+k] += n
		}
		for k, n := range r.Dropped {
			abstracted["dropped:"+k] += n
		}
		for k, n := range r.Unknown {
			unknownCalls[k] += n
		}
		for _, n := range r.Notes {
			notes = append(notes, r.Func+": "+n)
		}
	}
	for k := range unknownCalls {
		assumptions["unmodelled call (result fresh, heap havocked): "+k] = true
	}
	var samples []any
	for _, ob := range all {
		if len(samples) >= 3 {
			break
		}
		if ob.Kind == "post" || ob.Kind == "lemma" || ob.Kind == "inv-keep" {
			s := ob.Script
			if len(s) > 3000 {
				s = s[:3000] + "\n; … truncated"
			}
			samples = append(samples, map[string]any{"obligation": ob.Name, "clause": ob.Text, "result": ob.Result, "smtlib": s})
		}
	}
	if len(samples) == 0 && len(all) > 0 {
		samples = append(samples, map[string]any{"obligation": all[0].Name, "clause": all[0].Text, "result": all[0].Result})
	}
	ev := map[string]any{
		"property_id": *prop,
		"tier":        *tier,
		"seed":        seed,
		"level":       "proof",
		"wall_s":      round3(wall),
		"violations":  violations,
		"assumptions": sortedSet(assumptions),
		"coverage": map[string]any{
			"obligations":              claimed,
			"discharged":               discharged,
			"checker_cmd":              fmt.Sprintf("/verif/bin/govc check -prop %s -tier %s  (solvers raced per obligation: z3-new, z3, cvc5; timeout %ds)", *prop, *tier, int(timeout.Seconds())),
			"trusted_base":             sortedSet(trusted),
			"functions_under_contract": funcs,
			"vacuity_guards":           map[string]int{"total": covers, "satisfiable": coverOK},
			"known_finding_obligations": findingLines,
			"bounded_standins":         standinRes,
			"per_obligation":           perOb,
			"abstracted_calls":         abstracted,
			"solver_seconds":           solverTime,
			"solver_wins":              solverCount,
			"phase_seconds":            map[string]float64{"load": round3(tLoad), "generate": round3(tGen), "solve": round3(tSolve)},
			"notes":                    notes,
			"samples":                  samples,
			"integer_model":            "Go integers as SMT Int with machine ranges; each + - * carries a no-overflow obligation unless the contract says `arith math` (listed under assumptions); conversions use exact modular semantics",
		},
	}
	// a run restricted with -only covers part of the property: it must never stand as the property's evidence
	if !*noEvidence && *only == "" {
		os.MkdirAll(filepath.Join(*verif, "evidence"), 0o755)
		data, _ := json.MarshalIndent(ev, "", " ")
		if err := os.WriteFile(filepath.Join(*verif, "evidence", *prop+".json"), data, 0o644); err != nil {
			fmt.Fprintln(os.Stderr, "cannot write evidence:", err)
			return 2
		}
	}
	fmt.Printf("%s %s: %d/%d obligations discharged, %d vacuity guards (%d sat), %d known-finding obligations, %d violations; load %.1fs gen %.1fs solve %.1fs\n",
		*prop, *tier, discharged, claimed, covers, coverOK, len(findingLines), violations, tLoad, tGen, tSolve)
	if *verbose {
		for _, ob := range all {
			fmt.Printf("  %-8s %-7s %-6s %6.2fs %s\n", ob.Kind, ob.Result, ob.Solver, ob.Seconds, ob.Name)
		}
		for _, n := range notes {
			fmt.Println("  note:", n)
		}
	}
	return exit
}

// runStandin runs one stand-in test in its package through `go test -overlay`.
func runStandin(repo, verif string, sd Standin) (bool, int, string) {
	tmp, err := os.MkdirTemp("", "standin")
	if err != nil {
		return false, 0, err.Error()
	}
	defer os.RemoveAll(tmp)
	ov := map[string]any{"Replace": map[string]string{filepath.Join(repo, sd.Pkg, "zz_verif_standin_test.go"): filepath.Join(verif, sd.File)}}
	data, _ := json.Marshal(ov)
	os.WriteFile(filepath.Join(tmp, "ov.json"), data, 0o644)
	cmd := exec.Command("go", "test", "-overlay", filepath.Join(tmp, "ov.json"), "-vet=off", "-count=1", "-timeout", "120s", "-v", "-run", "^"+sd.Test+"$", ".")
	cmd.Dir = filepath.Join(repo, sd.Pkg)
	cmd.Env = append(os.Environ(), "GOFLAGS=-mod=mod", "GOPROXY=off")
	out, err := cmd.CombinedOutput()
	cases := 0
	if m := regexp.MustCompile(`STANDIN-CASES (\d+)`).FindSubmatch(out); m != nil {
		cases, _ = strconv.Atoi(string(m[1]))
	}
	text := string(out)
	if len(text) > 3000 {
		text = text[:3000] + "…"
	}
	ok := err == nil && strings.Contains(string(out), "--- PASS: "+sd.Test)
	return ok, cases, text
}

func round3(f float64) float64 { return float64(int(f*1000+0.5)) / 1000 }

func sortedSet(m map[string]bool) []string {
	out := make([]string, 0, len(m))
	for k := range m {
		out = append(out, k)
	}
	sort.Strings(out)
	return out
}

func writeReplay(dir string, ob *Obligation, why string) string {
	os.MkdirAll(dir, 0o755)
	p := filepath.Join(dir, fileSafe(ob.Name)+".json")
	model := ob.Model
	if len(model) > 20000 {
		model = model[:20000]
	}
	var rep any
	if ob.Replay != nil {
		rep = map[string]any{"confirmed_on_real_code": ob.Replay.Confirmed, "detail": ob.Replay.Detail, "inputs": ob.Replay.Inputs, "predicted_outputs": ob.Replay.Predicted, "observed_outputs": ob.Replay.Observed, "generated_test": ob.Replay.TestFile}
	}
	data, _ := json.MarshalIndent(map[string]any{
		"replay":     rep,
		"property":   ob.Prop,
		"obligation": ob.Name,
		"kind":       ob.Kind,
		"function":   ob.Func,
		"position":   ob.Pos,
		"clause":     ob.Text,
		"result":     ob.Result,
		"solver":     ob.Solver,
		"why":        why,
		"solver_output": model,
		"smt2":       "see /verif/out/" + ob.Prop + "/" + fileSafe(ob.Name) + ".smt2",
	}, "", " ")
	os.WriteFile(p, data, 0o644)
	return p
}

