package main

// Shapes and values: how Go types are laid out as trees of SMT leaf terms.

import (
	"fmt"
	"go/constant"
	"math/big"
	"go/types"
	"sort"
	"strings"
)

// Shape is the layout of a Go type as a tree whose leaves have SMT sorts.
type Shape struct {
	T     types.Type
	Leaf  string   // SMT sort if this is a leaf
	Names []string // child names (composite)
	Kids  []*Shape // children (composite)
	// Lifted shapes (arrays of Elem indexed by Idx) keep the element shape.
	Elem *Shape
	Idx  string
	Kind string // "struct","slice","map","array","leaf","lift","any","tuple"
}

func (s *Shape) IsLeaf() bool { return s.Leaf != "" }

func (s *Shape) kid(name string) *Shape {
	for i, n := range s.Names {
		if n == name {
			return s.Kids[i]
		}
	}
	return nil
}

// Val is a symbolic value: a tree of SMT terms following a Shape.
type Val struct {
	Sh   *Shape
	T    types.Type
	S    string // leaf term
	Kids []*Val
	C    constant.Value // compile-time constant, when known
	Loc  *Loc           // for pointer values that point into an interior location
	Fn   *FnVal         // for function values with a known body / method
}

func (v *Val) kid(name string) *Val {
	for i, n := range v.Sh.Names {
		if n == name {
			return v.Kids[i]
		}
	}
	return nil
}

func (v *Val) withKid(name string, nv *Val) *Val {
	out := &Val{Sh: v.Sh, T: v.T, Kids: append([]*Val(nil), v.Kids...)}
	for i, n := range v.Sh.Names {
		if n == name {
			out.Kids[i] = nv
			return out
		}
	}
	panic("withKid: no such kid " + name)
}

func (v *Val) String() string {
	if v == nil {
		return "<nil>"
	}
	if v.Sh == nil || v.Sh.IsLeaf() {
		return v.S
	}
	var parts []string
	for i, k := range v.Kids {
		parts = append(parts, v.Sh.Names[i]+"="+k.String())
	}
	return "{" + strings.Join(parts, " ") + "}"
}

// leaves returns leaf terms in deterministic order with their paths.
func (v *Val) leaves(prefix string, f func(path string, leaf *Val)) {
	if v.Sh.IsLeaf() {
		f(prefix, v)
		return
	}
	for i, k := range v.Kids {
		p := v.Sh.Names[i]
		if prefix != "" {
			p = prefix + "." + p
		}
		k.leaves(p, f)
	}
}

func (s *Shape) leafPaths(prefix string, f func(path string, leaf *Shape)) {
	if s.IsLeaf() {
		f(prefix, s)
		return
	}
	for i, k := range s.Kids {
		p := s.Names[i]
		if prefix != "" {
			p = prefix + "." + p
		}
		k.leafPaths(p, f)
	}
}

// ---------------------------------------------------------------------------

type shaper struct {
	cache     map[string]*Shape
	sortDecls map[string]bool // uninterpreted sorts to declare
	inprog    map[string]bool
}

func newShaper() *shaper {
	return &shaper{cache: map[string]*Shape{}, sortDecls: map[string]bool{}, inprog: map[string]bool{}}
}

func leafShape(t types.Type, sort string) *Shape {
	return &Shape{T: t, Leaf: sort, Kind: "leaf"}
}

func qualName(n *types.Named) string {
	o := n.Obj()
	if o.Pkg() == nil {
		return o.Name()
	}
	return o.Pkg().Path() + "." + o.Name()
}

func shortPkg(path string) string {
	path = strings.TrimPrefix(path, "github.com/honeycombio/refinery/")
	return path
}

// typeKey names a named type independent of instantiation.
func typeKey(t types.Type) string {
	switch tt := t.(type) {
	case *types.Named:
		return shortPkg(qualName(tt.Origin()))
	case *types.Alias:
		return typeKey(types.Unalias(tt))
	}
	return "_" + sanitize(types.TypeString(t, func(p *types.Package) string { return shortPkg(p.Path()) }))
}

// heapTypeKey names the heap arrays of a type: generic types get one set of arrays
// per instantiation (the element sorts differ).
func heapTypeKey(t types.Type) string {
	if n, ok := types.Unalias(t).(*types.Named); ok && n.TypeArgs() != nil && n.TypeArgs().Len() > 0 {
		var as []string
		for i := 0; i < n.TypeArgs().Len(); i++ {
			as = append(as, sanitize(types.TypeString(n.TypeArgs().At(i), func(p *types.Package) string { return shortPkg(p.Path()) })))
		}
		return typeKey(t) + "[" + strings.Join(as, ",") + "]"
	}
	return typeKey(t)
}

func sanitize(s string) string {
	var b strings.Builder
	for _, r := range s {
		switch {
		case r >= 'a' && r <= 'z', r >= 'A' && r <= 'Z', r >= '0' && r <= '9', r == '_', r == '.':
			b.WriteRune(r)
		case r == '*':
			b.WriteString("P")
		case r == '[' || r == ']':
			b.WriteString("_")
		case r == '/':
			b.WriteString(".")
		default:
			b.WriteString("_")
		}
	}
	return b.String()
}

// Known opaque/special named types.
var specialLeaf = map[string]string{
	"time.Time":           "Int",
	"time.Duration":       "Int",
	"sync.Mutex":          "Int", // 0 unlocked, 1 read-locked, 2 write-locked
	"sync.RWMutex":        "Int",
	"sync.WaitGroup":      "Int",
	"sync.Once":           "Int",
	"sync/atomic.Int64":   "Int",
	"sync/atomic.Int32":   "Int",
	"sync/atomic.Uint64":  "Int",
	"sync/atomic.Uint32":  "Int",
	"sync/atomic.Bool":    "Bool",
	"sync.Pool":           "Int",
	"context.Context":     "Int",
	"time.Location":       "Int",
	"math/rand.Rand":      "Int",
	"regexp.Regexp":       "Int",
	"net/http.Header":     "Int",
	"net/url.URL":         "Int",
	"net/http.Request":    "",
	"strings.Builder":     "String",
	"bytes.Buffer":        "String",
	"encoding/json.Number": "String",
}

func (sh *shaper) shapeOf(t types.Type) *Shape {
	if t == nil {
		return leafShape(nil, "Int")
	}
	t = types.Unalias(t)
	key := types.TypeString(t, nil)
	if s, ok := sh.cache[key]; ok {
		return s
	}
	if sh.inprog[key] {
		// recursive by value (cannot happen for valid Go); be safe
		return leafShape(t, "Int")
	}
	sh.inprog[key] = true
	s := sh.shapeOf1(t)
	delete(sh.inprog, key)
	sh.cache[key] = s
	return s
}

func (sh *shaper) lift(elem *Shape, idx string) *Shape {
	if elem.IsLeaf() {
		return &Shape{T: elem.T, Leaf: "(Array " + idx + " " + elem.Leaf + ")", Elem: elem, Idx: idx, Kind: "lift"}
	}
	out := &Shape{T: elem.T, Elem: elem, Idx: idx, Kind: "lift", Names: elem.Names}
	for _, k := range elem.Kids {
		out.Kids = append(out.Kids, sh.lift(k, idx))
	}
	return out
}

func (sh *shaper) keySort(t types.Type) (string, bool) {
	s := sh.shapeOf(t)
	if s.IsLeaf() {
		return s.Leaf, true
	}
	return "", false
}

func (sh *shaper) shapeOf1(t types.Type) *Shape {
	switch tt := t.(type) {
	case *types.Alias:
		return sh.shapeOf(types.Unalias(tt))
	case *types.Basic:
		info := tt.Info()
		switch {
		case info&types.IsBoolean != 0:
			return leafShape(t, "Bool")
		case info&types.IsInteger != 0:
			return leafShape(t, "Int")
		case info&types.IsFloat != 0:
			return leafShape(t, "Real")
		case info&types.IsString != 0:
			return leafShape(t, "String")
		case tt.Kind() == types.UnsafePointer:
			return leafShape(t, "Int")
		case tt.Kind() == types.UntypedNil:
			return leafShape(t, "Int")
		}
		return leafShape(t, "Int")
	case *types.Named:
		qn := qualName(tt.Origin())
		if srt, ok := specialLeaf[qn]; ok && srt != "" {
			if strings.HasPrefix(srt, "K_") {
				sh.sortDecls[srt] = true
			}
			return leafShape(t, srt)
		}
		if qn == "sync.Map" {
			// modelled as a sequential map[string]any (keys must be strings)
			ms := sh.shapeOf(types.NewMap(types.Typ[types.String], types.NewInterfaceType(nil, nil)))
			c := *ms
			c.T = t
			return &c
		}
		u := tt.Underlying()
		s := sh.shapeOf(u)
		// keep named type on the shape (copy top-level)
		c := *s
		c.T = t
		return &c
	case *types.Pointer:
		return leafShape(t, "Int")
	case *types.Struct:
		out := &Shape{T: t, Kind: "struct"}
		for i := 0; i < tt.NumFields(); i++ {
			f := tt.Field(i)
			out.Names = append(out.Names, f.Name())
			out.Kids = append(out.Kids, sh.shapeOf(f.Type()))
		}
		if len(out.Kids) == 0 {
			// empty struct: give it a dummy leaf so that it is a value
			return &Shape{T: t, Kind: "struct"}
		}
		return out
	case *types.Slice:
		es := sh.shapeOf(tt.Elem())
		return &Shape{T: t, Kind: "slice", Names: []string{"len", "elems"}, Kids: []*Shape{leafShape(types.Typ[types.Int], "Int"), sh.lift(es, "Int")}}
	case *types.Array:
		es := sh.shapeOf(tt.Elem())
		return &Shape{T: t, Kind: "array", Names: []string{"elems"}, Kids: []*Shape{sh.lift(es, "Int")}}
	case *types.Map:
		ks, ok := sh.keySort(tt.Key())
		if !ok {
			return leafShape(t, "Int") // opaque map (struct keys)
		}
		vs := sh.shapeOf(tt.Elem())
		return &Shape{T: t, Kind: "map", Names: []string{"dom", "card", "val"}, Kids: []*Shape{
			{T: types.Typ[types.Bool], Leaf: "(Array " + ks + " Bool)", Elem: leafShape(types.Typ[types.Bool], "Bool"), Idx: ks, Kind: "lift"},
			leafShape(types.Typ[types.Int], "Int"),
			sh.lift(vs, ks)}}
	case *types.Interface:
		if tt.NumMethods() == 0 && !tt.IsComparable() && tt.NumEmbeddeds() == 0 {
			// any: tag + payloads
			return anyShape(t)
		}
		return leafShape(t, "Int")
	case *types.Signature, *types.Chan:
		return leafShape(t, "Int")
	case *types.TypeParam:
		name := "U_" + sanitize(tt.Obj().Name())
		sh.sortDecls[name] = true
		return leafShape(t, name)
	case *types.Tuple:
		out := &Shape{T: t, Kind: "tuple"}
		for i := 0; i < tt.Len(); i++ {
			out.Names = append(out.Names, fmt.Sprintf("r%d", i))
			out.Kids = append(out.Kids, sh.shapeOf(tt.At(i).Type()))
		}
		return out
	}
	return leafShape(t, "Int")
}

// Dynamic type tags for `any` values.
const (
	tagNil    = 0
	tagInt64  = 1
	tagFloat  = 2
	tagString = 3
	tagBool   = 4
	tagInt    = 5
	tagUint64 = 6
	tagOther  = 7 // every other dynamic type; payload is `ref`
	tagF32    = 8
)

func anyShape(t types.Type) *Shape {
	return &Shape{T: t, Kind: "any", Names: []string{"tag", "i", "r", "s", "b", "ref", "ty"}, Kids: []*Shape{
		leafShape(types.Typ[types.Int], "Int"),
		leafShape(types.Typ[types.Int64], "Int"),
		leafShape(types.Typ[types.Float64], "Real"),
		leafShape(types.Typ[types.String], "String"),
		leafShape(types.Typ[types.Bool], "Bool"),
		leafShape(types.Typ[types.UnsafePointer], "Int"), // reference payload
		leafShape(types.Typ[types.Int], "Int"), // dynamic type id when tag == tagOther
	}}
}

// ---------------------------------------------------------------------------
// Integer ranges

func intRange(t types.Type) (lo, hi string, ok bool) {
	b, isB := t.Underlying().(*types.Basic)
	if !isB || b.Info()&types.IsInteger == 0 {
		return "", "", false
	}
	switch b.Kind() {
	case types.Int8:
		return "(- 128)", "127", true
	case types.Int16:
		return "(- 32768)", "32767", true
	case types.Int32:
		return "(- 2147483648)", "2147483647", true
	case types.Int, types.Int64:
		return "(- 9223372036854775808)", "9223372036854775807", true
	case types.Uint8:
		return "0", "255", true
	case types.Uint16:
		return "0", "65535", true
	case types.Uint32:
		return "0", "4294967295", true
	case types.Uint, types.Uint64, types.Uintptr:
		return "0", "18446744073709551615", true
	}
	return "", "", false
}

func intBits(t types.Type) (bits int, signed bool, ok bool) {
	b, isB := t.Underlying().(*types.Basic)
	if !isB || b.Info()&types.IsInteger == 0 {
		return 0, false, false
	}
	switch b.Kind() {
	case types.Int8:
		return 8, true, true
	case types.Int16:
		return 16, true, true
	case types.Int32:
		return 32, true, true
	case types.Int, types.Int64:
		return 64, true, true
	case types.Uint8:
		return 8, false, true
	case types.Uint16:
		return 16, false, true
	case types.Uint32:
		return 32, false, true
	case types.Uint, types.Uint64, types.Uintptr:
		return 64, false, true
	}
	return 0, false, false
}

func pow2(n int) string {
	return new(big.Int).Lsh(big.NewInt(1), uint(n)).String()
}

// typeID gives every dynamic type a stable small identifier.
var typeIDs = map[string]int{}

func typeID(t types.Type) int {
	k := types.TypeString(types.Unalias(t), nil)
	if id, ok := typeIDs[k]; ok {
		return id
	}
	// deterministic: FNV-1a of the type string, folded
	h := uint32(2166136261)
	for i := 0; i < len(k); i++ {
		h ^= uint32(k[i])
		h *= 16777619
	}
	id := int(h%1000000000) + 100
	typeIDs[k] = id
	return id
}

func sortedKeys[V any](m map[string]V) []string {
	ks := make([]string, 0, len(m))
	for k := range m {
		ks = append(ks, k)
	}
	sort.Strings(ks)
	return ks
}
