package main

// SMT symbol tables, definitions, obligations and the solver race.

import (
	"bytes"
	"context"
	"fmt"
	"math/big"
	"os"
	"os/exec"
	"path/filepath"
	"regexp"
	"sort"
	"strings"
	"sync"
	"time"
)

// Sym is one declared SMT constant.
type Sym struct {
	Name string
	Sort string
	Def  string   // if non-empty: (= Name Def) holds (a definition of a fresh symbol)
	Ax   []string // axioms that constrain this fresh symbol alone (ranges); always satisfiable
}

type Smt struct {
	mu      sync.Mutex
	syms    map[string]*Sym
	order   []string
	n       int
	sorts   map[string]bool
	funs    map[string]string // uninterpreted function declarations name -> decl text
	funAx   map[string][]string
	globalAx []string
}

func newSmt() *Smt {
	return &Smt{syms: map[string]*Sym{}, sorts: map[string]bool{}, funs: map[string]string{}, funAx: map[string][]string{}}
}

var identRe = regexp.MustCompile(`[A-Za-z_!$][A-Za-z0-9_!$.#@]*`)

func smtName(s string) string {
	var b strings.Builder
	for _, r := range s {
		switch {
		case r >= 'a' && r <= 'z', r >= 'A' && r <= 'Z', r >= '0' && r <= '9', r == '_', r == '.', r == '!', r == '$', r == '@':
			b.WriteRune(r)
		case r == '#':
			b.WriteByte('@')
		default:
			b.WriteByte('_')
		}
	}
	return b.String()
}

// fresh declares a new constant. hint is sanitised and prefixed so that it can
// never shadow a theory symbol.
func (m *Smt) fresh(hint, sort string) string {
	m.mu.Lock()
	defer m.mu.Unlock()
	m.n++
	name := fmt.Sprintf("v_%s!%d", smtName(hint), m.n)
	m.syms[name] = &Sym{Name: name, Sort: sort}
	m.order = append(m.order, name)
	return name
}

// named declares (once) a constant with a fixed, deterministic name.
func (m *Smt) named(name, sort string) string {
	m.mu.Lock()
	defer m.mu.Unlock()
	name = "v_" + smtName(name)
	if _, ok := m.syms[name]; !ok {
		m.syms[name] = &Sym{Name: name, Sort: sort}
		m.order = append(m.order, name)
	}
	return name
}

func (m *Smt) addAx(sym, ax string) {
	m.mu.Lock()
	defer m.mu.Unlock()
	if s, ok := m.syms[sym]; ok {
		s.Ax = append(s.Ax, ax)
	}
}

// define introduces a fresh symbol equal to term (if term is long enough to be
// worth naming).
func (m *Smt) define(hint, sort, term string) string {
	if len(term) < 48 {
		return term
	}
	name := m.fresh(hint, sort)
	m.mu.Lock()
	m.syms[name].Def = term
	m.mu.Unlock()
	return name
}

// dependsOn: does term mention (transitively through definitions) any of the symbols?
func (m *Smt) dependsOn(term string, syms map[string]bool) bool {
	m.mu.Lock()
	defer m.mu.Unlock()
	seen := map[string]bool{}
	var work []string
	scan := func(t string) bool {
		for _, id := range identRe.FindAllString(t, -1) {
			if syms[id] {
				return true
			}
			if _, ok := m.syms[id]; ok && !seen[id] {
				seen[id] = true
				work = append(work, id)
			}
		}
		return false
	}
	if scan(term) {
		return true
	}
	for len(work) > 0 {
		id := work[len(work)-1]
		work = work[:len(work)-1]
		if d := m.syms[id].Def; d != "" && scan(d) {
			return true
		}
	}
	return false
}

func (m *Smt) declFun(name, decl string) {
	m.mu.Lock()
	defer m.mu.Unlock()
	m.funs[name] = decl
}

func (m *Smt) addFunAx(name, ax string) {
	m.mu.Lock()
	defer m.mu.Unlock()
	for _, a := range m.funAx[name] {
		if a == ax {
			return
		}
	}
	m.funAx[name] = append(m.funAx[name], ax)
}

// script builds a closed SMT-LIB script for assumptions ⊢ goal (negated goal asserted).
func (m *Smt) script(assumptions []string, negGoal string, wantModel bool) string {
	m.mu.Lock()
	defer m.mu.Unlock()
	used := map[string]bool{}
	usedFun := map[string]bool{}
	var work []string
	scan := func(t string) {
		for _, id := range identRe.FindAllString(t, -1) {
			if _, ok := m.syms[id]; ok && !used[id] {
				used[id] = true
				work = append(work, id)
			}
			if _, ok := m.funs[id]; ok && !usedFun[id] {
				usedFun[id] = true
				for _, ax := range m.funAx[id] {
					work = append(work, "\x00"+ax)
				}
			}
		}
	}
	for _, a := range assumptions {
		scan(a)
	}
	scan(negGoal)
	var extraAx []string
	for len(work) > 0 {
		id := work[len(work)-1]
		work = work[:len(work)-1]
		if strings.HasPrefix(id, "\x00") {
			ax := id[1:]
			extraAx = append(extraAx, ax)
			scan(ax)
			continue
		}
		s := m.syms[id]
		if s.Def != "" {
			scan(s.Def)
		}
		for _, ax := range s.Ax {
			scan(ax)
		}
	}
	var b strings.Builder
	b.WriteString("(set-option :produce-models true)\n(set-logic ALL)\n")
	srts := make([]string, 0, len(m.sorts))
	for s := range m.sorts {
		srts = append(srts, s)
	}
	sort.Strings(srts)
	for _, s := range srts {
		fmt.Fprintf(&b, "(declare-sort %s 0)\n", s)
	}
	fnames := make([]string, 0, len(usedFun))
	for f := range usedFun {
		fnames = append(fnames, f)
	}
	sort.Strings(fnames)
	for _, f := range fnames {
		b.WriteString(m.funs[f])
		b.WriteString("\n")
	}
	var defs, axs []string
	for _, name := range m.order {
		if !used[name] {
			continue
		}
		s := m.syms[name]
		fmt.Fprintf(&b, "(declare-const %s %s)\n", s.Name, s.Sort)
		if s.Def != "" {
			defs = append(defs, fmt.Sprintf("(assert (= %s %s))", s.Name, s.Def))
		}
		for _, ax := range s.Ax {
			axs = append(axs, "(assert "+ax+")")
		}
	}
	sort.Strings(extraAx)
	seen := map[string]bool{}
	for _, ax := range extraAx {
		if !seen[ax] {
			seen[ax] = true
			b.WriteString("(assert " + ax + ")\n")
		}
	}
	for _, d := range defs {
		b.WriteString(d + "\n")
	}
	for _, a := range axs {
		b.WriteString(a + "\n")
	}
	for _, a := range assumptions {
		if a == "true" {
			continue
		}
		b.WriteString("(assert " + a + ")\n")
	}
	b.WriteString("(assert " + negGoal + ")\n")
	b.WriteString("(check-sat)\n")
	if wantModel {
		b.WriteString("(get-model)\n")
	}
	return b.String()
}

// ---------------------------------------------------------------------------

type Obligation struct {
	Prop     string
	Func     string
	Name     string // stable human-readable name
	Kind     string // post, pre@call, inv-init, inv-keep, safety, overflow, frame, lemma, cover, ...
	Pos      string
	Script   string
	ExpectSat bool   // cover obligations must be sat
	Finding  string // known-finding id: this obligation is expected to FAIL on the unchanged tree
	Result   string // unsat | sat | unknown | timeout
	Solver   string
	Seconds  float64
	Model    string
	Text     string // the clause text
	Inputs   map[string]string // symbolic names of function inputs -> smt term (for replay)
	ex       *Exec
	cases    []retState
	Replay   *replayResult
}

type solverSpec struct {
	name string
	args []string
}

var solvers = []solverSpec{
	{"z3-new", []string{"z3-new", "-smt2", "-in"}},
	{"z3", []string{"z3", "-smt2", "-in"}},
	{"cvc5", []string{"cvc5", "--lang=smt2", "--produce-models", "--strings-exp", "--incremental"}},
}

func runSolver(ctx context.Context, sp solverSpec, script string, timeout time.Duration) (status, out string, secs float64) {
	cctx, cancel := context.WithTimeout(ctx, timeout)
	defer cancel()
	args := append([]string(nil), sp.args[1:]...)
	switch sp.name {
	case "z3", "z3-new":
		args = append(args, fmt.Sprintf("-T:%d", int(timeout.Seconds())+1))
	case "cvc5":
		args = append(args, fmt.Sprintf("--tlimit=%d", int(timeout.Milliseconds())))
	}
	cmd := exec.CommandContext(cctx, sp.args[0], args...)
	cmd.Stdin = strings.NewReader(script)
	var ob bytes.Buffer
	cmd.Stdout = &ob
	cmd.Stderr = &ob
	t0 := time.Now()
	_ = cmd.Run()
	secs = time.Since(t0).Seconds()
	out = ob.String()
	first := strings.TrimSpace(strings.SplitN(out, "\n", 2)[0])
	switch first {
	case "sat", "unsat", "unknown":
		status = first
	default:
		if cctx.Err() != nil {
			status = "timeout"
		} else if strings.Contains(out, "timeout") {
			status = "timeout"
		} else {
			status = "error"
		}
	}
	return
}

// race runs all solvers concurrently; the first definite answer wins.
func race(script string, timeout time.Duration, seed int) (status, solver, out string, secs float64) {
	ctx, cancel := context.WithCancel(context.Background())
	defer cancel()
	type res struct {
		status, solver, out string
		secs                float64
	}
	ch := make(chan res, len(solvers))
	order := append([]solverSpec(nil), solvers...)
	if seed%3 != 0 {
		k := seed % len(order)
		order = append(order[k:], order[:k]...)
	}
	for _, sp := range order {
		go func(sp solverSpec) {
			st, o, s := runSolver(ctx, sp, script, timeout)
			ch <- res{st, sp.name, o, s}
		}(sp)
	}
	var last res
	errs := ""
	for range order {
		r := <-ch
		if r.status == "sat" || r.status == "unsat" {
			return r.status, r.solver, r.out, r.secs
		}
		if r.status == "error" {
			errs += r.solver + ": " + firstLines(r.out, 3) + "\n"
		}
		if last.status == "" || last.status == "error" {
			last = r
		}
	}
	if last.status == "error" {
		last.out = errs
	}
	return last.status, last.solver, last.out, last.secs
}

func firstLines(s string, n int) string {
	ls := strings.Split(s, "\n")
	if len(ls) > n {
		ls = ls[:n]
	}
	return strings.Join(ls, "\n")
}

func dischargeAll(obs []*Obligation, timeout time.Duration, seed int, outDir string, par int) {
	sem := make(chan struct{}, par)
	var wg sync.WaitGroup
	for _, ob := range obs {
		wg.Add(1)
		sem <- struct{}{}
		go func(ob *Obligation) {
			defer wg.Done()
			defer func() { <-sem }()
			to := timeout
			if ob.ExpectSat && to > 6*time.Second {
				to = 6 * time.Second
			}
			st, solver, out, secs := race(ob.Script, to, seed)
			ob.Result, ob.Solver, ob.Seconds = st, solver, secs
			if st == "sat" || st == "error" {
				ob.Model = out
			}
			if outDir != "" {
				fn := filepath.Join(outDir, fileSafe(ob.Name))
				_ = os.WriteFile(fn+".smt2", []byte(ob.Script), 0o644)
				_ = os.WriteFile(fn+".result", []byte(fmt.Sprintf("%s %s %.3fs\n%s", st, solver, secs, ob.Model)), 0o644)
			}
		}(ob)
	}
	wg.Wait()
}

func fileSafe(s string) string {
	var b strings.Builder
	for _, r := range s {
		switch {
		case r >= 'a' && r <= 'z', r >= 'A' && r <= 'Z', r >= '0' && r <= '9', r == '_', r == '.', r == '-', r == '#':
			b.WriteRune(r)
		default:
			b.WriteByte('_')
		}
	}
	s = b.String()
	if len(s) > 180 {
		s = s[:180]
	}
	return s
}

// ---------------------------------------------------------------------------
// small term helpers

func and(xs ...string) string {
	var ys []string
	for _, x := range xs {
		if x == "true" || x == "" {
			continue
		}
		if x == "false" {
			return "false"
		}
		ys = append(ys, x)
	}
	switch len(ys) {
	case 0:
		return "true"
	case 1:
		return ys[0]
	}
	return "(and " + strings.Join(ys, " ") + ")"
}

func or(xs ...string) string {
	var ys []string
	for _, x := range xs {
		if x == "false" || x == "" {
			continue
		}
		if x == "true" {
			return "true"
		}
		ys = append(ys, x)
	}
	switch len(ys) {
	case 0:
		return "false"
	case 1:
		return ys[0]
	}
	return "(or " + strings.Join(ys, " ") + ")"
}

func not(x string) string {
	switch x {
	case "true":
		return "false"
	case "false":
		return "true"
	}
	if strings.HasPrefix(x, "(not ") && balanced(x[5:len(x)-1]) {
		return x[5 : len(x)-1]
	}
	return "(not " + x + ")"
}

func balanced(s string) bool {
	d := 0
	for i := 0; i < len(s); i++ {
		switch s[i] {
		case '(':
			d++
		case ')':
			d--
			if d < 0 {
				return false
			}
		case '"':
			// skip string literal
			i++
			for i < len(s) && s[i] != '"' {
				i++
			}
		}
	}
	return d == 0
}

func implies(a, b string) string {
	if a == "true" {
		return b
	}
	if a == "false" || b == "true" {
		return "true"
	}
	return "(=> " + a + " " + b + ")"
}

func ite(c, a, b string) string {
	if c == "true" || a == b {
		return a
	}
	if c == "false" {
		return b
	}
	return "(ite " + c + " " + a + " " + b + ")"
}

func eq(a, b string) string {
	if a == b {
		return "true"
	}
	return "(= " + a + " " + b + ")"
}

func smtInt(x *big.Int) string {
	if x.Sign() < 0 {
		return "(- " + new(big.Int).Neg(x).String() + ")"
	}
	return x.String()
}

func smtIntS(s string) string {
	if strings.HasPrefix(s, "-") {
		return "(- " + s[1:] + ")"
	}
	return s
}

func smtString(s string) string {
	var b strings.Builder
	b.WriteByte('"')
	for _, c := range []byte(s) {
		switch {
		case c == '"':
			b.WriteString(`""`)
		case c >= 0x20 && c < 0x7f && c != '\\':
			b.WriteByte(c)
		default:
			fmt.Fprintf(&b, `\u{%x}`, c)
		}
	}
	b.WriteByte('"')
	return b.String()
}
