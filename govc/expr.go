package main

// Expression evaluation over the typed AST (code) and over contract
// expressions (spec mode: names resolved in the real function's scope).

import (
	"fmt"
	"go/ast"
	"go/constant"
	"go/token"
	"go/types"
	"math/big"
	"strconv"
	"strings"
)

// SpecCtx carries what a contract expression needs beyond the state.
type SpecCtx struct {
	old    *State                  // state denoted by old(...)
	binds  map[string]*Val         // let / quantifier / spec-function parameters / result names
	subst  map[types.Object]*Val   // callee parameter objects -> actual arguments
	pkg    *types.Package          // package in whose scope names are resolved
	scope  *types.Scope            // innermost scope
	pos    token.Pos               // position for LookupParent
	imports map[string]*types.Package
	inOld  bool
	cur    *State // the state outside old(...) (for locals, which old does not rewind)
	this   *Val
	tsubst map[string]types.Type // callee type parameter name -> type argument at this call
}

func (sc *SpecCtx) with(name string, v *Val) *SpecCtx {
	n := *sc
	n.binds = make(map[string]*Val, len(sc.binds)+1)
	for k, x := range sc.binds {
		n.binds[k] = x
	}
	n.binds[name] = v
	return &n
}

func (ex *Exec) typeOf(e ast.Expr) types.Type {
	if ex.info != nil {
		if tv, ok := ex.info.Types[e]; ok {
			return tv.Type
		}
		if id, ok := e.(*ast.Ident); ok {
			if o := ex.info.ObjectOf(id); o != nil {
				return o.Type()
			}
		}
	}
	return nil
}

func (ex *Exec) constVal(c constant.Value, t types.Type) *Val {
	if t == nil {
		switch c.Kind() {
		case constant.Bool:
			t = types.Typ[types.UntypedBool]
		case constant.String:
			t = types.Typ[types.UntypedString]
		case constant.Int:
			t = types.Typ[types.UntypedInt]
		default:
			t = types.Typ[types.UntypedFloat]
		}
	}
	sh := ex.eng.sh.shapeOf(t)
	v := &Val{Sh: sh, T: t, C: c}
	if !sh.IsLeaf() {
		// constant converted to interface (any)
		return ex.toAny(ex.constVal(c, nil))
	}
	switch c.Kind() {
	case constant.Bool:
		if constant.BoolVal(c) {
			v.S = "true"
		} else {
			v.S = "false"
		}
	case constant.String:
		v.S = smtString(constant.StringVal(c))
		if sh.Leaf != "String" {
			v.S = "0"
		}
	case constant.Int:
		if sh.Leaf == "Real" {
			v.S = realLit(c)
		} else if sh.Leaf == "String" {
			v.S = `""`
		} else {
			v.S = smtIntS(c.ExactString())
		}
	case constant.Float:
		if sh.Leaf == "Int" {
			if i := constant.ToInt(c); i.Kind() == constant.Int {
				v.S = smtIntS(i.ExactString())
			} else {
				v.S = "0"
			}
		} else {
			v.S = realLit(c)
		}
	default:
		v.S = ex.freshLeaf(sh, "const")
	}
	return v
}

func realLit(c constant.Value) string {
	r := constant.ToFloat(c)
	num := constant.Num(r)
	den := constant.Denom(r)
	if num.Kind() != constant.Int || den.Kind() != constant.Int {
		f, _ := constant.Float64Val(r)
		br := new(big.Rat)
		br.SetFloat64(f)
		return ratLit(br)
	}
	n, _ := new(big.Int).SetString(num.ExactString(), 10)
	d, _ := new(big.Int).SetString(den.ExactString(), 10)
	return ratLit(new(big.Rat).SetFrac(n, d))
}

func ratLit(r *big.Rat) string {
	neg := r.Sign() < 0
	a := new(big.Rat).Abs(r)
	s := ""
	if a.IsInt() {
		s = a.Num().String() + ".0"
	} else {
		s = "(/ " + a.Num().String() + ".0 " + a.Denom().String() + ".0)"
	}
	if neg {
		return "(- " + s + ")"
	}
	return s
}

// eval evaluates an expression to a symbolic value. sc is nil for code.
func (ex *Exec) eval(st *State, e ast.Expr, sc *SpecCtx) *Val {
	if sc == nil && ex.info != nil {
		if tv, ok := ex.info.Types[e]; ok && tv.Value != nil {
			return ex.constVal(tv.Value, tv.Type)
		}
	}
	switch e := e.(type) {
	case *ast.ParenExpr:
		return ex.eval(st, e.X, sc)
	case *ast.BasicLit:
		return ex.evalLit(e)
	case *ast.Ident:
		return ex.evalIdent(st, e, sc)
	case *ast.SelectorExpr:
		return ex.evalSelector(st, e, sc)
	case *ast.StarExpr:
		p := ex.eval(st, e.X, sc)
		return ex.deref(st, p, e.Pos())
	case *ast.UnaryExpr:
		return ex.evalUnary(st, e, sc)
	case *ast.BinaryExpr:
		return ex.evalBinary(st, e, sc)
	case *ast.CallExpr:
		vs := ex.evalCall(st, e, sc)
		if len(vs) == 0 {
			return ex.unitVal()
		}
		if len(vs) == 1 {
			return vs[0]
		}
		return ex.tupleVal(vs)
	case *ast.IndexExpr:
		return ex.evalIndex(st, e, sc, false)[0]
	case *ast.SliceExpr:
		return ex.evalSlice(st, e, sc)
	case *ast.CompositeLit:
		return ex.evalCompositeLit(st, e, sc)
	case *ast.FuncLit:
		t := ex.typeOf(e)
		v := ex.freshVal(t, "closure")
		ex.eng.smt.addAx(v.S, "(< 0 "+v.S+")")
		v.Fn = &FnVal{Lit: e, Ex: ex}
		return v
	case *ast.TypeAssertExpr:
		return ex.evalTypeAssert(st, e, sc, false)[0]
	case *ast.KeyValueExpr:
		return ex.eval(st, e.Value, sc)
	}
	ex.note("unmodelled expression %T at %s", e, ex.pos(e.Pos()))
	return ex.freshVal(ex.typeOf(e), "unk")
}

func (ex *Exec) unitVal() *Val {
	return &Val{Sh: &Shape{Kind: "tuple"}, T: types.NewTuple()}
}

func (ex *Exec) tupleVal(vs []*Val) *Val {
	sh := &Shape{Kind: "tuple"}
	for i, v := range vs {
		sh.Names = append(sh.Names, fmt.Sprintf("r%d", i))
		sh.Kids = append(sh.Kids, v.Sh)
	}
	return &Val{Sh: sh, Kids: vs}
}

func (ex *Exec) evalLit(e *ast.BasicLit) *Val {
	switch e.Kind {
	case token.INT:
		c := constant.MakeFromLiteral(e.Value, token.INT, 0)
		return ex.constVal(c, nil)
	case token.FLOAT:
		c := constant.MakeFromLiteral(e.Value, token.FLOAT, 0)
		return ex.constVal(c, nil)
	case token.STRING:
		s, err := strconv.Unquote(e.Value)
		if err != nil {
			s = e.Value
		}
		return ex.constVal(constant.MakeString(s), nil)
	case token.CHAR:
		c := constant.MakeFromLiteral(e.Value, token.CHAR, 0)
		return ex.constVal(c, types.Typ[types.UntypedRune])
	}
	return ex.freshVal(nil, "lit")
}

func (ex *Exec) lookupSpecName(name string, sc *SpecCtx) types.Object {
	if sc.scope != nil {
		if _, o := sc.scope.LookupParent(name, sc.pos); o != nil {
			return o
		}
	}
	if sc.pkg != nil {
		if o := sc.pkg.Scope().Lookup(name); o != nil {
			return o
		}
	}
	if o := types.Universe.Lookup(name); o != nil {
		return o
	}
	return nil
}

func (ex *Exec) evalIdent(st *State, id *ast.Ident, sc *SpecCtx) *Val {
	if id.Name == "_" {
		return ex.freshVal(ex.typeOf(id), "blank")
	}
	var obj types.Object
	if sc != nil {
		if v, ok := sc.binds[id.Name]; ok {
			return v
		}
		obj = ex.lookupSpecName(id.Name, sc)
		if obj == nil && strings.HasPrefix(id.Name, "iter") {
			// iterN: the number of completed iterations of range loop N (visible inside loops nested in it)
			if o, ok := ex.hiddenVars["$iter"+id.Name[4:]]; ok {
				if v, ok := st.vars[o]; ok {
					return ex.intVal(v.S, types.Typ[types.Int])
				}
			}
		}
		if obj == nil {
			ex.specErr("undefined name %q in contract expression", id.Name)
			return ex.freshVal(nil, "undef")
		}
		if v, ok := sc.subst[obj]; ok {
			if sc.inOld {
				if ov, ok2 := sc.subst[oldKey{obj}.obj()]; ok2 {
					return ov
				}
			}
			return v
		}
	} else {
		obj = ex.info.ObjectOf(id)
		if obj == nil {
			return ex.freshVal(ex.typeOf(id), id.Name)
		}
	}
	switch o := obj.(type) {
	case *types.Const:
		return ex.constVal(o.Val(), o.Type())
	case *types.Nil:
		return &Val{Sh: leafShape(types.Typ[types.UntypedNil], "Int"), T: types.Typ[types.UntypedNil], S: "0"}
	case *types.Var:
		if sc != nil && sc.inOld {
			// entry value of a parameter / package variable. A local declared in the body has no entry
			// value: inside old(...) it denotes its current value (old only rewinds memory), so that
			// old(g(local)) reads the entry state at an index computed now.
			if _, atEntry := sc.old.vars[o]; atEntry || o.Parent() == nil || o.Pkg() == nil || o.Parent() == o.Pkg().Scope() || !ex.regionStart.IsValid() || o.Pos() < ex.regionStart {
				return ex.readVar(sc.old, o)
			}
			if sc.cur != nil {
				if _, cur := sc.cur.vars[o]; cur {
					return ex.readVar(sc.cur, o)
				}
			}
			return ex.readVar(sc.old, o)
		}
		if sc != nil && ex.paramsAtEntry && sc.old != nil && ex.isOwnParam(o) {
			return ex.readVar(sc.old, o)
		}
		return ex.readVar(st, o)
	case *types.Func:
		v := ex.freshVal(o.Type(), o.Name())
		v.Fn = &FnVal{Obj: o}
		return v
	case *types.TypeName:
		if sc != nil {
			// a type name in value position: usually a local variable the clause refers to
			// no longer exists (or is declared later) and the name now resolves to a type
			ex.specErr("name %q does not denote a variable here (it resolves to a type)", id.Name)
			return ex.freshVal(nil, "undef")
		}
		return &Val{T: o.Type(), Sh: nil}
	case *types.Builtin:
		return &Val{T: o.Type()}
	}
	return ex.freshVal(obj.Type(), id.Name)
}

// isOwnParam: o is a parameter (or the receiver) of the function under verification.
func (ex *Exec) isOwnParam(o *types.Var) bool {
	if ex.fn == nil || ex.fn.Obj == nil {
		return false
	}
	sig, ok := ex.fn.Obj.Type().(*types.Signature)
	if !ok {
		return false
	}
	if r := sig.Recv(); r != nil && r == o {
		return true
	}
	for i := 0; i < sig.Params().Len(); i++ {
		if sig.Params().At(i) == o {
			return true
		}
	}
	return false
}

type oldKey struct{ o types.Object }

func (k oldKey) obj() types.Object { return nil }

// resolveType resolves a type expression.
func (ex *Exec) resolveType(e ast.Expr, sc *SpecCtx) types.Type {
	t := ex.resolveType1(e, sc)
	if sc != nil && sc.tsubst != nil && t != nil {
		if tp, ok := types.Unalias(t).(*types.TypeParam); ok {
			if a, ok := sc.tsubst[tp.Obj().Name()]; ok {
				return a
			}
		}
	}
	return t
}

func (ex *Exec) resolveType1(e ast.Expr, sc *SpecCtx) types.Type {
	if sc == nil {
		if t := ex.typeOf(e); t != nil {
			return t
		}
	}
	switch e := e.(type) {
	case *ast.Ident:
		if sc != nil {
			if o := ex.lookupSpecName(e.Name, sc); o != nil {
				if tn, ok := o.(*types.TypeName); ok {
					return tn.Type()
				}
			}
		}
	case *ast.SelectorExpr:
		if id, ok := e.X.(*ast.Ident); ok && sc != nil {
			if p := ex.lookupImport(id.Name, sc); p != nil {
				if o := p.Scope().Lookup(e.Sel.Name); o != nil {
					if tn, ok := o.(*types.TypeName); ok {
						return tn.Type()
					}
				}
			}
		}
	case *ast.StarExpr:
		if t := ex.resolveType(e.X, sc); t != nil {
			return types.NewPointer(t)
		}
	case *ast.ArrayType:
		if t := ex.resolveType(e.Elt, sc); t != nil && e.Len == nil {
			return types.NewSlice(t)
		}
	case *ast.MapType:
		k, v := ex.resolveType(e.Key, sc), ex.resolveType(e.Value, sc)
		if k != nil && v != nil {
			return types.NewMap(k, v)
		}
	case *ast.ParenExpr:
		return ex.resolveType(e.X, sc)
	case *ast.InterfaceType:
		return types.NewInterfaceType(nil, nil)
	}
	return nil
}

func (ex *Exec) lookupImport(name string, sc *SpecCtx) *types.Package {
	if sc.scope != nil {
		if _, o := sc.scope.LookupParent(name, sc.pos); o != nil {
			if pn, ok := o.(*types.PkgName); ok {
				return pn.Imported()
			}
		}
	}
	if sc.pkg != nil {
		for _, p := range sc.pkg.Imports() {
			if p.Name() == name {
				return p
			}
		}
	}
	if p, ok := sc.imports[name]; ok {
		return p
	}
	// any loaded package with that name
	for _, p := range ex.eng.allTypesPkgs() {
		if p.Name() == name {
			return p
		}
	}
	return nil
}

// place tries to view an expression as an addressable location.
func (ex *Exec) place(st *State, e ast.Expr, sc *SpecCtx) *Loc {
	switch e := e.(type) {
	case *ast.ParenExpr:
		return ex.place(st, e.X, sc)
	case *ast.Ident:
		var obj types.Object
		if sc != nil {
			if _, ok := sc.binds[e.Name]; ok {
				return nil
			}
			obj = ex.lookupSpecName(e.Name, sc)
			if _, ok := sc.subst[obj]; ok {
				return nil
			}
		} else {
			obj = ex.info.ObjectOf(e)
		}
		if v, ok := obj.(*types.Var); ok && !v.IsField() {
			return &Loc{Obj: v, Sh: ex.eng.sh.shapeOf(v.Type()), T: v.Type()}
		}
		return nil
	case *ast.StarExpr:
		p := ex.eval(st, e.X, sc)
		return ex.derefLoc(st, p)
	case *ast.SelectorExpr:
		l, _ := ex.selectorPlace(st, e, sc)
		return l
	}
	return nil
}

// derefLoc turns a pointer value into the location it points to.
func (ex *Exec) derefLoc(st *State, p *Val) *Loc {
	if p.Loc != nil {
		return p.Loc
	}
	if p.T == nil {
		return nil
	}
	pt, ok := p.T.Underlying().(*types.Pointer)
	if !ok {
		return nil
	}
	et := pt.Elem()
	return &Loc{Heap: true, TKey: heapTypeKey(et), Ref: p.S, Sh: ex.eng.sh.shapeOf(et), T: et}
}

func (ex *Exec) deref(st *State, p *Val, pos token.Pos) *Val {
	l := ex.derefLoc(st, p)
	if l == nil {
		return ex.freshVal(nil, "deref")
	}
	if l.Heap && p.Loc == nil {
		ex.safety(st, "nil-deref", pos, not(eq(p.S, "0")))
	}
	return ex.readLoc(st, l)
}

// fieldPath resolves x.sel to a field index path, in code or spec mode.
func (ex *Exec) fieldPath(e *ast.SelectorExpr, baseT types.Type, sc *SpecCtx) (path []int, obj types.Object, ok bool) {
	if sc == nil {
		if s, found := ex.info.Selections[e]; found {
			return s.Index(), s.Obj(), true
		}
		return nil, nil, false
	}
	if baseT == nil {
		return nil, nil, false
	}
	var pkg *types.Package
	if sc != nil {
		pkg = sc.pkg
	}
	o, idx, _ := types.LookupFieldOrMethod(baseT, true, pkg, e.Sel.Name)
	if o == nil {
		// unexported field of another package: look it up with that package
		if n := namedOf(baseT); n != nil && n.Obj().Pkg() != nil {
			o, idx, _ = types.LookupFieldOrMethod(baseT, true, n.Obj().Pkg(), e.Sel.Name)
		}
	}
	if o == nil {
		return nil, nil, false
	}
	return idx, o, true
}

func namedOf(t types.Type) *types.Named {
	t = types.Unalias(t)
	if p, ok := t.(*types.Pointer); ok {
		t = types.Unalias(p.Elem())
	}
	n, _ := t.(*types.Named)
	return n
}

// cursor: a value-or-location while walking a selector path.
type cursor struct {
	loc *Loc
	val *Val
	t   types.Type
}

func (ex *Exec) cursorVal(st *State, c cursor) *Val {
	if c.val != nil {
		return c.val
	}
	return ex.readLoc(st, c.loc)
}

// stepField moves the cursor to field i of its (struct or pointer-to-struct) type.
func (ex *Exec) stepField(st *State, c cursor, i int, pos token.Pos) cursor {
	t := c.t
	if pt, ok := t.Underlying().(*types.Pointer); ok {
		pv := ex.cursorVal(st, c)
		if c.loc != nil && c.loc.Heap {
			// following a pointer stored in a (possibly guarded) field reads that field
			ex.guardCheck(st, c.loc, posAt(pos), false)
		}
		if pv.Loc != nil {
			c = cursor{loc: pv.Loc, t: pt.Elem()}
		} else {
			ex.safety(st, "nil-deref", pos, not(eq(pv.S, "0")))
			et := pt.Elem()
			c = cursor{loc: &Loc{Heap: true, TKey: heapTypeKey(et), Ref: pv.S, Sh: ex.eng.sh.shapeOf(et), T: et}, t: et}
		}
		t = pt.Elem()
	}
	stt, ok := t.Underlying().(*types.Struct)
	if !ok || i >= stt.NumFields() {
		return cursor{val: ex.freshVal(nil, "badfield"), t: types.Typ[types.Int]}
	}
	f := stt.Field(i)
	if c.loc != nil {
		ksh := c.loc.Sh.kid(f.Name())
		if ksh == nil {
			// opaque (special) type: field not modelled
			return cursor{val: ex.freshVal(f.Type(), "opaque."+f.Name()), t: f.Type()}
		}
		return cursor{loc: c.loc.field(f.Name(), ksh, f.Type()), t: f.Type()}
	}
	k := c.val.kid(f.Name())
	if k == nil {
		return cursor{val: ex.freshVal(f.Type(), "opaque."+f.Name()), t: f.Type()}
	}
	if k.T == nil {
		k = &Val{Sh: k.Sh, T: f.Type(), S: k.S, Kids: k.Kids, C: k.C, Loc: k.Loc, Fn: k.Fn}
	}
	return cursor{val: k, t: f.Type()}
}

type posAt token.Pos

func (p posAt) Pos() token.Pos { return token.Pos(p) }

func (ex *Exec) baseCursor(st *State, x ast.Expr, sc *SpecCtx) cursor {
	if l := ex.place(st, x, sc); l != nil {
		return cursor{loc: l, t: l.T}
	}
	v := ex.eval(st, x, sc)
	t := v.T
	if t == nil {
		t = ex.typeOf(x)
	}
	return cursor{val: v, t: t}
}

// selectorPlace resolves a field selector to a location when addressable.
func (ex *Exec) selectorPlace(st *State, e *ast.SelectorExpr, sc *SpecCtx) (*Loc, *cursor) {
	// package-qualified?
	if id, ok := e.X.(*ast.Ident); ok {
		if sc == nil {
			if _, isPkg := ex.info.ObjectOf(id).(*types.PkgName); isPkg {
				if v, ok := ex.info.ObjectOf(e.Sel).(*types.Var); ok {
					return &Loc{Obj: v, Sh: ex.eng.sh.shapeOf(v.Type()), T: v.Type()}, nil
				}
				return nil, nil
			}
		} else if _, bound := sc.binds[id.Name]; !bound {
			if o := ex.lookupSpecName(id.Name, sc); o == nil || isPkgName(o) {
				if p := ex.lookupImport(id.Name, sc); p != nil {
					if v, ok := p.Scope().Lookup(e.Sel.Name).(*types.Var); ok {
						return &Loc{Obj: v, Sh: ex.eng.sh.shapeOf(v.Type()), T: v.Type()}, nil
					}
					return nil, nil
				}
			}
		}
	}
	c := ex.baseCursor(st, e.X, sc)
	if c.t == nil {
		return nil, nil
	}
	path, obj, ok := ex.fieldPath(e, c.t, sc)
	if !ok {
		return nil, nil
	}
	if _, isField := obj.(*types.Var); !isField {
		// method: walk to the receiver only
		for _, i := range path[:len(path)-1] {
			c = ex.stepField(st, c, i, e.Pos())
		}
		return nil, &c
	}
	for _, i := range path {
		c = ex.stepField(st, c, i, e.Pos())
	}
	if c.loc != nil {
		return c.loc, &c
	}
	return nil, &c
}

func isPkgName(o types.Object) bool { _, ok := o.(*types.PkgName); return ok }

func (ex *Exec) evalSelector(st *State, e *ast.SelectorExpr, sc *SpecCtx) *Val {
	// qualified identifier pkg.Name
	if id, ok := e.X.(*ast.Ident); ok {
		var pkg *types.Package
		if sc == nil {
			if pn, isPkg := ex.info.ObjectOf(id).(*types.PkgName); isPkg {
				pkg = pn.Imported()
			}
		} else if _, bound := sc.binds[id.Name]; !bound {
			if o := ex.lookupSpecName(id.Name, sc); o == nil || isPkgName(o) {
				pkg = ex.lookupImport(id.Name, sc)
			}
		}
		if pkg != nil {
			o := pkg.Scope().Lookup(e.Sel.Name)
			switch o := o.(type) {
			case *types.Const:
				return ex.constVal(o.Val(), o.Type())
			case *types.Var:
				if sc != nil && sc.inOld {
					return ex.readVar(sc.old, o)
				}
				return ex.readVar(st, o)
			case *types.Func:
				v := ex.freshVal(o.Type(), o.Name())
				v.Fn = &FnVal{Obj: o}
				return v
			case *types.TypeName:
				return &Val{T: o.Type()}
			}
			ex.specErr("unknown qualified name %s.%s", id.Name, e.Sel.Name)
			return ex.freshVal(nil, "undefq")
		}
	}
	loc, cur := ex.selectorPlace(st, e, sc)
	if loc != nil {
		s := st
		if sc != nil && sc.inOld {
			s = sc.old
		}
		v := ex.readLoc(s, loc)
		if v.T == nil {
			v = &Val{Sh: v.Sh, T: loc.T, S: v.S, Kids: v.Kids}
		}
		ex.guardCheck(st, loc, e, false)
		return v
	}
	if cur == nil {
		ex.note("unresolved selector %s at %s", e.Sel.Name, ex.pos(e.Pos()))
		return ex.freshVal(ex.typeOf(e), "sel")
	}
	// method value or field of rvalue
	var obj types.Object
	if sc == nil {
		if s, ok := ex.info.Selections[e]; ok {
			obj = s.Obj()
		}
	} else {
		_, obj, _ = ex.fieldPath(e, ex.baseCursor(st, e.X, sc).t, sc)
	}
	if fn, ok := obj.(*types.Func); ok {
		recv := ex.cursorRecv(st, *cur, fn)
		v := ex.freshVal(fn.Type(), "mv."+fn.Name())
		v.Fn = &FnVal{Obj: fn, Recv: recv}
		return v
	}
	return ex.cursorVal(st, *cur)
}

// cursorRecv produces the receiver value for calling method fn on the cursor.
func (ex *Exec) cursorRecv(st *State, c cursor, fn *types.Func) *Val {
	sig := fn.Type().(*types.Signature)
	wantPtr := false
	if sig.Recv() != nil {
		_, wantPtr = sig.Recv().Type().Underlying().(*types.Pointer)
	}
	_, isPtr := c.t.Underlying().(*types.Pointer)
	if _, isIface := c.t.Underlying().(*types.Interface); isIface {
		return ex.cursorVal(st, c)
	}
	switch {
	case wantPtr && isPtr, !wantPtr && !isPtr:
		v := ex.cursorVal(st, c)
		if v.T == nil {
			v = &Val{Sh: v.Sh, T: c.t, S: v.S, Kids: v.Kids, Loc: v.Loc}
		}
		return v
	case wantPtr && !isPtr:
		// &x
		if c.loc != nil {
			pt := types.NewPointer(c.t)
			return &Val{Sh: ex.eng.sh.shapeOf(pt), T: pt, S: ex.eng.interior(), Loc: c.loc}
		}
		// not addressable: temp copy
		return ex.cursorVal(st, c)
	default:
		// have pointer, want value: deref
		pv := ex.cursorVal(st, c)
		return ex.deref(st, pv, token.NoPos)
	}
}

func (ex *Exec) evalUnary(st *State, e *ast.UnaryExpr, sc *SpecCtx) *Val {
	switch e.Op {
	case token.AND:
		// address-of
		if cl, ok := e.X.(*ast.CompositeLit); ok {
			v := ex.evalCompositeLit(st, cl, sc)
			return ex.alloc(st, v, v.T)
		}
		if l := ex.place(st, e.X, sc); l != nil {
			if !l.Heap && len(l.Path) == 0 {
				// &local: the local escapes; model as an interior pointer to the local
			}
			pt := types.NewPointer(l.T)
			return &Val{Sh: ex.eng.sh.shapeOf(pt), T: pt, S: ex.eng.interior(), Loc: l}
		}
		ex.note("address-of unmodelled at %s", ex.pos(e.Pos()))
		return ex.freshVal(ex.typeOf(e), "addr")
	case token.NOT:
		x := ex.eval(st, e.X, sc)
		return ex.boolVal(not(x.S))
	case token.SUB:
		x := ex.eval(st, e.X, sc)
		if x.C != nil {
			return ex.constVal(constant.UnaryOp(token.SUB, x.C, 0), x.T)
		}
		if x.Sh.Leaf == "Real" {
			return &Val{Sh: x.Sh, T: x.T, S: "(- " + x.S + ")"}
		}
		return ex.arith(st, x.T, "(- "+x.S+")", e.Pos(), "neg")
	case token.ADD:
		return ex.eval(st, e.X, sc)
	case token.ARROW:
		// channel receive
		ch := ex.eval(st, e.X, sc)
		_ = ch
		return ex.freshVal(ex.typeOf(e), "recv")
	case token.XOR:
		x := ex.eval(st, e.X, sc)
		if bits, signed, ok := intBits(x.T); ok {
			if signed {
				return &Val{Sh: x.Sh, T: x.T, S: "(- (- " + x.S + ") 1)"}
			}
			return &Val{Sh: x.Sh, T: x.T, S: "(- " + pow2(bits) + " 1 " + x.S + ")"}
		}
	}
	ex.note("unmodelled unary %s at %s", e.Op, ex.pos(e.Pos()))
	return ex.freshVal(ex.typeOf(e), "unop")
}

func (ex *Exec) boolVal(s string) *Val {
	return &Val{Sh: leafShape(types.Typ[types.Bool], "Bool"), T: types.Typ[types.Bool], S: s}
}

func (ex *Exec) intVal(s string, t types.Type) *Val {
	return &Val{Sh: leafShape(t, "Int"), T: t, S: s}
}

func isUntyped(t types.Type) bool {
	b, ok := t.(*types.Basic)
	return ok && b.Info()&types.IsUntyped != 0
}

func isFloatT(t types.Type) bool {
	b, ok := t.Underlying().(*types.Basic)
	return ok && b.Info()&types.IsFloat != 0
}

func isIntT(t types.Type) bool {
	if t == nil {
		return false
	}
	b, ok := t.Underlying().(*types.Basic)
	return ok && b.Info()&types.IsInteger != 0
}

func isStringT(t types.Type) bool {
	if t == nil {
		return false
	}
	b, ok := t.Underlying().(*types.Basic)
	return ok && b.Info()&types.IsString != 0
}

func isUnsigned(t types.Type) bool {
	b, ok := t.Underlying().(*types.Basic)
	return ok && b.Info()&types.IsUnsigned != 0
}

// arith wraps the result of an integer operation according to the function's
// arithmetic mode: prove no overflow (default), wrap, or treat as mathematical.
func (ex *Exec) arith(st *State, t types.Type, term string, pos token.Pos, what string) *Val {
	sh := ex.eng.sh.shapeOf(t)
	if sh.Leaf != "Int" || t == nil || isUntyped(t) {
		return &Val{Sh: sh, T: t, S: term}
	}
	lo, hi, ok := intRange(t)
	if !ok {
		return &Val{Sh: sh, T: t, S: term}
	}
	if qn := typeKey(t); qn == "time.Duration" {
		// durations: treat as mathematical within int64 (documented assumption)
		if ex.arithMode != "nooverflow-strict" {
			return &Val{Sh: sh, T: t, S: term}
		}
	}
	tm := ex.def("ar", "Int", term)
	switch ex.arithMode {
	case "wraps":
		return &Val{Sh: sh, T: t, S: ex.wrap(tm, t)}
	case "math":
		ex.assumption("machine arithmetic treated as mathematical in " + ex.fn.Ref)
		return &Val{Sh: sh, T: t, S: tm}
	default:
		if ex.bound == 0 && ex.specDepth == 0 {
			ex.oblig(st, "overflow", what+"@"+ex.anchor(pos), pos, "(and (<= "+lo+" "+tm+") (<= "+tm+" "+hi+"))", "no overflow in "+what)
		}
		return &Val{Sh: sh, T: t, S: tm}
	}
}

func (ex *Exec) wrap(term string, t types.Type) string {
	bits, signed, ok := intBits(t)
	if !ok {
		return term
	}
	m := pow2(bits)
	if !signed {
		return "(mod " + term + " " + m + ")"
	}
	h := pow2(bits - 1)
	return "(- (mod (+ " + term + " " + h + ") " + m + ") " + h + ")"
}

func (ex *Exec) coerceNum(a, b *Val) (*Val, *Val) {
	// give untyped constants the other operand's type/sort
	if a.Sh != nil && b.Sh != nil && a.Sh.IsLeaf() && b.Sh.IsLeaf() && a.Sh.Leaf != b.Sh.Leaf {
		if a.C != nil && b.T != nil {
			return ex.constVal(a.C, b.T), b
		}
		if b.C != nil && a.T != nil {
			return a, ex.constVal(b.C, a.T)
		}
		if a.Sh.Leaf == "Int" && b.Sh.Leaf == "Real" {
			return &Val{Sh: b.Sh, T: b.T, S: "(to_real " + a.S + ")"}, b
		}
		if a.Sh.Leaf == "Real" && b.Sh.Leaf == "Int" {
			return a, &Val{Sh: a.Sh, T: a.T, S: "(to_real " + b.S + ")"}
		}
	}
	return a, b
}

func (ex *Exec) evalBinary(st *State, e *ast.BinaryExpr, sc *SpecCtx) *Val {
	switch e.Op {
	case token.LAND, token.LOR:
		a := ex.eval(st, e.X, sc)
		// the right operand is unreachable when the path condition literally decides the left one
		if sc == nil {
			if e.Op == token.LAND && st.knows(not(a.S)) {
				return ex.boolVal("false")
			}
			if e.Op == token.LOR && st.knows(a.S) {
				return ex.boolVal("true")
			}
		}
		// short-circuit: the right operand is evaluated under the left
		st2 := st
		if sc == nil {
			st2 = st.clone()
			if e.Op == token.LAND {
				st2.assume(a.S)
			} else {
				st2.assume(not(a.S))
			}
		}
		npc := len(st.pc)
		b := ex.eval(st2, e.Y, sc)
		if sc == nil {
			// facts learnt while evaluating the right operand (e.g. the range of a call's result) hold whenever
			// it was evaluated at all
			guard := a.S
			if e.Op == token.LOR {
				guard = not(a.S)
			}
			var extra []string
			if len(st2.pc) > npc+1 {
				extra = append(extra, st2.pc[npc+1:]...)
			}
			ex.adoptSideEffects(st, st2, a.S, e.Op == token.LAND)
			if len(extra) > 0 && len(st.pc) == npc {
				st.assume(implies(guard, and(extra...)))
			}
		}
		if e.Op == token.LAND {
			return ex.boolVal(and(a.S, b.S))
		}
		return ex.boolVal(or(a.S, b.S))
	}
	a := ex.eval(st, e.X, sc)
	b := ex.eval(st, e.Y, sc)
	return ex.binop(st, e.Op, a, b, ex.typeOf(e), e.Pos())
}

// adoptSideEffects merges state changes made while evaluating a short-circuited
// operand (calls with effects) back into st.
func (ex *Exec) adoptSideEffects(st, st2 *State, cond string, whenTrue bool) {
	// if nothing changed (the common case) there is nothing to do
	same := len(st2.heap) == len(st.heap) && st2.epoch == st.epoch
	if same {
		for k, v := range st2.heap {
			if st.heap[k] != v {
				same = false
				break
			}
		}
	}
	if same {
		for k, v := range st2.vars {
			if st.vars[k] != v {
				same = false
				break
			}
		}
	}
	if same {
		return
	}
	other := st.clone()
	if whenTrue {
		other.assume(not(cond))
	} else {
		other.assume(cond)
	}
	m := ex.merge2(st2, other)
	st.pc, st.vars, st.heap, st.epoch = m.pc, m.vars, m.heap, m.epoch
}

func (ex *Exec) binop(st *State, op token.Token, a, b *Val, resT types.Type, pos token.Pos) *Val {
	if a.C != nil && b.C != nil {
		// constant folding
		switch op {
		case token.EQL, token.NEQ, token.LSS, token.LEQ, token.GTR, token.GEQ:
			if a.C.Kind() != constant.Bool || op == token.EQL || op == token.NEQ {
				defer func() { recover() }()
				r := constant.Compare(a.C, op, b.C)
				if r {
					return ex.boolVal("true")
				}
				return ex.boolVal("false")
			}
		case token.SHL, token.SHR:
			if n, ok := constant.Uint64Val(b.C); ok && n < 4096 {
				return ex.constVal(constant.Shift(a.C, op, uint(n)), typeOr(a.T, resT))
			}
		case token.ADD, token.SUB, token.MUL, token.REM, token.AND, token.OR, token.XOR, token.AND_NOT:
			if a.C.Kind() == b.C.Kind() || (a.C.Kind() != constant.String && b.C.Kind() != constant.String) {
				t := typeOr(resT, a.T)
				if isUntyped(a.T) && !isUntyped(b.T) {
					t = typeOr(resT, b.T)
				}
				return ex.constVal(constant.BinaryOp(a.C, op, b.C), t)
			}
		case token.QUO:
			if constant.Sign(b.C) != 0 {
				t := typeOr(resT, a.T)
				if isUntyped(a.T) && !isUntyped(b.T) {
					t = typeOr(resT, b.T)
				}
				o := token.QUO
				if isIntT(t) || (a.C.Kind() == constant.Int && b.C.Kind() == constant.Int && (t == nil || !isFloatT(t))) {
					o = token.QUO_ASSIGN
				}
				return ex.constVal(constant.BinaryOp(a.C, o, b.C), t)
			}
		}
	}
	a, b = ex.coerceNum(a, b)
	t := a.T
	if t == nil || isUntyped(t) {
		t = b.T
	}
	if resT != nil && !isUntyped(resT) && op != token.EQL && op != token.NEQ && op != token.LSS && op != token.LEQ && op != token.GTR && op != token.GEQ {
		t = resT
	}
	switch op {
	case token.EQL, token.NEQ:
		// comparing two interface values panics when both hold the same uncomparable dynamic type (slice, map, func)
		if st != nil && a.Sh != nil && b.Sh != nil && a.Sh.Kind == "any" && b.Sh.Kind == "any" {
			ex.eng.smt.declFun("uf_comparable", "(declare-fun uf_comparable (Int) Bool)")
			other := fmt.Sprint(tagOther)
			both := and(eq(a.kid("tag").S, other), eq(b.kid("tag").S, other), eq(a.kid("ty").S, b.kid("ty").S))
			ex.safety(st, "interface-compare", pos, implies(both, "(uf_comparable "+a.kid("ty").S+")"))
		}
		if op == token.EQL {
			return ex.boolVal(ex.eqVal(a, b))
		}
		return ex.boolVal(not(ex.eqVal(a, b)))
	}
	if !a.Sh.IsLeaf() || !b.Sh.IsLeaf() {
		ex.note("unmodelled composite binary %s at %s", op, ex.pos(pos))
		return ex.freshVal(resT, "binop")
	}
	srt := a.Sh.Leaf
	switch op {
	case token.LSS, token.LEQ, token.GTR, token.GEQ:
		o := map[token.Token]string{token.LSS: "<", token.LEQ: "<=", token.GTR: ">", token.GEQ: ">="}[op]
		if srt == "String" {
			switch op {
			case token.LSS:
				return ex.boolVal("(str.< " + a.S + " " + b.S + ")")
			case token.LEQ:
				return ex.boolVal("(str.<= " + a.S + " " + b.S + ")")
			case token.GTR:
				return ex.boolVal("(str.< " + b.S + " " + a.S + ")")
			default:
				return ex.boolVal("(str.<= " + b.S + " " + a.S + ")")
			}
		}
		if srt != "Int" && srt != "Real" {
			// ordered type parameter: uninterpreted total order
			lt := ex.eng.orderFn(srt)
			switch op {
			case token.LSS:
				return ex.boolVal("(" + lt + " " + a.S + " " + b.S + ")")
			case token.GTR:
				return ex.boolVal("(" + lt + " " + b.S + " " + a.S + ")")
			case token.LEQ:
				return ex.boolVal(not("(" + lt + " " + b.S + " " + a.S + ")"))
			default:
				return ex.boolVal(not("(" + lt + " " + a.S + " " + b.S + ")"))
			}
		}
		return ex.boolVal("(" + o + " " + a.S + " " + b.S + ")")
	}
	if srt == "String" && op == token.ADD {
		return &Val{Sh: a.Sh, T: t, S: "(str.++ " + a.S + " " + b.S + ")"}
	}
	if srt == "Real" {
		o := map[token.Token]string{token.ADD: "+", token.SUB: "-", token.MUL: "*", token.QUO: "/"}[op]
		if o != "" {
			if op == token.QUO {
				ex.safety(st, "div-by-zero", pos, not(eq(b.S, "0.0")))
			}
			return &Val{Sh: a.Sh, T: t, S: "(" + o + " " + a.S + " " + b.S + ")"}
		}
	}
	if srt == "Int" {
		switch op {
		case token.ADD:
			return ex.arith(st, t, "(+ "+a.S+" "+b.S+")", pos, "add")
		case token.SUB:
			return ex.arith(st, t, "(- "+a.S+" "+b.S+")", pos, "sub")
		case token.MUL:
			return ex.arith(st, t, "(* "+a.S+" "+b.S+")", pos, "mul")
		case token.QUO:
			ex.safety(st, "div-by-zero", pos, not(eq(b.S, "0")))
			return &Val{Sh: a.Sh, T: t, S: ex.tdiv(a.S, b.S, t)}
		case token.REM:
			ex.safety(st, "div-by-zero", pos, not(eq(b.S, "0")))
			q := ex.tdiv(a.S, b.S, t)
			if t != nil && isUnsigned(t) {
				return &Val{Sh: a.Sh, T: t, S: "(mod " + a.S + " " + b.S + ")"}
			}
			return &Val{Sh: a.Sh, T: t, S: "(- " + a.S + " (* " + b.S + " " + q + "))"}
		case token.SHL:
			if b.C != nil {
				if n, ok := constant.Uint64Val(b.C); ok && n < 128 {
					return ex.arithShl(st, t, a.S, int(n), pos)
				}
			}
		case token.SHR:
			if b.C != nil {
				if n, ok := constant.Uint64Val(b.C); ok && n < 128 {
					return &Val{Sh: a.Sh, T: t, S: "(div " + a.S + " " + pow2(int(n)) + ")"}
				}
			}
		case token.AND:
			// x & (2^k - 1)
			if b.C != nil {
				if k, ok := maskBits(b.C); ok {
					return &Val{Sh: a.Sh, T: t, S: "(mod " + a.S + " " + pow2(k) + ")"}
				}
			}
			if a.C != nil {
				if k, ok := maskBits(a.C); ok {
					return &Val{Sh: a.Sh, T: t, S: "(mod " + b.S + " " + pow2(k) + ")"}
				}
			}
		}
	}
	ex.note("unmodelled binary %s on %s at %s", op, srt, ex.pos(pos))
	return ex.freshVal(t, "binop")
}

func typeOr(a, b types.Type) types.Type {
	if a != nil {
		return a
	}
	return b
}

func maskBits(c constant.Value) (int, bool) {
	if c.Kind() != constant.Int {
		return 0, false
	}
	x, ok := new(big.Int).SetString(c.ExactString(), 10)
	if !ok || x.Sign() <= 0 {
		return 0, false
	}
	y := new(big.Int).Add(x, big.NewInt(1))
	if new(big.Int).And(x, y).Sign() != 0 {
		return 0, false
	}
	return y.BitLen() - 1, true
}

func (ex *Exec) arithShl(st *State, t types.Type, a string, n int, pos token.Pos) *Val {
	term := "(* " + a + " " + pow2(n) + ")"
	if bits, _, ok := intBits(t); ok {
		// shifts never trap: wrap silently (Go semantics)
		_ = bits
		return &Val{Sh: ex.eng.sh.shapeOf(t), T: t, S: ex.wrap(term, t)}
	}
	return &Val{Sh: ex.eng.sh.shapeOf(t), T: t, S: term}
}

// tdiv: Go's truncated division.
func (ex *Exec) tdiv(a, b string, t types.Type) string {
	if t != nil && isUnsigned(t) {
		return "(div " + a + " " + b + ")"
	}
	return "(ite (>= " + a + " 0) (div " + a + " " + b + ") (- (div (- " + a + ") " + b + ")))"
}

// convert implements Go conversions T(x).
func (ex *Exec) convert(st *State, v *Val, to types.Type, pos token.Pos) *Val {
	if to == nil {
		return v
	}
	toSh := ex.eng.sh.shapeOf(to)
	if v.C != nil && toSh.IsLeaf() && (isIntT(to) || isFloatT(to) || isStringT(to) && v.C.Kind() == constant.String || toSh.Leaf == "Bool") {
		if isIntT(to) && v.C.Kind() == constant.Float {
			// float constant to int: must be exact in Go; fall through if not
			if i := constant.ToInt(v.C); i.Kind() == constant.Int {
				return ex.constVal(i, to)
			}
		} else {
			return ex.constVal(v.C, to)
		}
	}
	from := v.T
	if from == nil {
		return &Val{Sh: toSh, T: to, S: v.S, Kids: v.Kids}
	}
	if b, ok := from.(*types.Basic); ok && b.Kind() == types.UntypedNil {
		// T(nil): the zero value of T
		return ex.zeroVal(to)
	}
	switch {
	case toSh.Kind == "any":
		return ex.toAnyAs(v, to)
	case isIntT(to) && isIntT(from):
		// exact modular semantics
		flo, fhi, fok := intRange(from)
		lo, hi, _ := intRange(to)
		_ = flo
		_ = fhi
		if fok && rangeWithin(from, to) {
			return &Val{Sh: toSh, T: to, S: v.S}
		}
		_ = lo
		_ = hi
		return &Val{Sh: toSh, T: to, S: ex.def("cv", "Int", ex.wrap(v.S, to))}
	case isIntT(to) && isFloatT(from):
		ex.note("float->int conversion modelled as truncation at %s", ex.pos(pos))
		tr := "(ite (>= " + v.S + " 0.0) (to_int " + v.S + ") (- (to_int (- " + v.S + "))))"
		return &Val{Sh: toSh, T: to, S: ex.def("f2i", "Int", tr)}
	case isFloatT(to) && isIntT(from):
		return &Val{Sh: toSh, T: to, S: "(to_real " + v.S + ")"}
	case isFloatT(to) && isFloatT(from):
		return &Val{Sh: toSh, T: to, S: v.S}
	case isStringT(to) && isStringT(from):
		return &Val{Sh: toSh, T: to, S: v.S}
	case isStringT(to) && isIntT(from):
		// string(rune)
		return &Val{Sh: toSh, T: to, S: "(str.from_code " + v.S + ")"}
	}
	// []byte(string) and string([]byte): keep the string as the slice's ghost? model as fresh with len
	if isStringT(to) {
		if sl, ok := from.Underlying().(*types.Slice); ok && isByte(sl.Elem()) {
			// bytes -> string: a deterministic function of (contents, length), inverse of the bytes of a string
			ex.eng.smt.declFun("uf_bytesOf", "(declare-fun uf_bytesOf (String) (Array Int Int))")
			ex.eng.smt.declFun("uf_strOf", "(declare-fun uf_strOf ((Array Int Int) Int) String)")
			ex.eng.smt.addFunAx("uf_strOf", "(forall ((s String)) (! (= (uf_strOf (uf_bytesOf s) (str.len s)) s) :pattern ((uf_bytesOf s))))")
			term := "(uf_strOf " + v.kid("elems").S + " " + v.kid("len").S + ")"
			return &Val{Sh: toSh, T: to, S: term}
		}
	}
	if sl, ok := to.Underlying().(*types.Slice); ok && isByte(sl.Elem()) && isStringT(from) {
		// the bytes of a string: a deterministic (uninterpreted) function of the string
		ex.eng.smt.declFun("uf_bytesOf", "(declare-fun uf_bytesOf (String) (Array Int Int))")
		sh := ex.eng.sh.shapeOf(to)
		return &Val{Sh: sh, T: to, Kids: []*Val{ex.intVal("(str.len "+v.S+")", types.Typ[types.Int]), {Sh: sh.Kids[1], S: "(uf_bytesOf " + v.S + ")"}}}
	}
	// same underlying shape: relabel
	if v.Sh != nil && (v.Sh == toSh || shapesCompatible(v.Sh, toSh)) {
		return &Val{Sh: toSh, T: to, S: v.S, Kids: v.Kids, Loc: v.Loc, Fn: v.Fn, C: v.C}
	}
	// interface conversions etc.
	if toSh.IsLeaf() && v.Sh != nil && v.Sh.IsLeaf() && toSh.Leaf == v.Sh.Leaf {
		return &Val{Sh: toSh, T: to, S: v.S, Loc: v.Loc, Fn: v.Fn}
	}
	if toSh.IsLeaf() && toSh.Leaf == "Int" && v.Sh != nil && v.Sh.Kind == "any" {
		return &Val{Sh: toSh, T: to, S: v.kid("ref").S}
	}
	if toSh.IsLeaf() && toSh.Leaf == "Int" && isRefType(to) {
		if bv := ex.boxScalar(v); bv != "" {
			return &Val{Sh: toSh, T: to, S: bv}
		}
		// value boxed into a non-empty interface: an opaque non-nil reference
		r := ex.freshVal(to, "boxed")
		st.assume("(< 0 " + r.S + ")")
		return r
	}
	ex.note("unmodelled conversion %v -> %v at %s", from, to, ex.pos(pos))
	return ex.freshVal(to, "conv")
}

func isByte(t types.Type) bool {
	b, ok := t.Underlying().(*types.Basic)
	return ok && (b.Kind() == types.Uint8)
}

func shapesCompatible(a, b *Shape) bool {
	if a.IsLeaf() || b.IsLeaf() {
		return a.IsLeaf() && b.IsLeaf() && a.Leaf == b.Leaf
	}
	if len(a.Kids) != len(b.Kids) || a.Kind != b.Kind {
		return false
	}
	for i := range a.Kids {
		if a.Names[i] != b.Names[i] || !shapesCompatible(a.Kids[i], b.Kids[i]) {
			return false
		}
	}
	return true
}

func rangeWithin(from, to types.Type) bool {
	fb, fs, ok1 := intBits(from)
	tb, ts, ok2 := intBits(to)
	if !ok1 || !ok2 {
		return false
	}
	if fs == ts {
		return fb <= tb
	}
	if !fs && ts {
		return fb < tb
	}
	return false
}

// toAny boxes a value into the `any` shape.
func (ex *Exec) toAny(v *Val) *Val {
	return ex.toAnyAs(v, types.NewInterfaceType(nil, nil))
}

func (ex *Exec) toAnyAs(v *Val, to types.Type) *Val {
	sh := ex.eng.sh.shapeOf(to)
	if v.Sh != nil && v.Sh.Kind == "any" {
		return &Val{Sh: sh, T: to, Kids: v.Kids}
	}
	z := ex.zeroSh(sh, to)
	set := func(tag int, field string, s string) *Val {
		out := z.withKid("tag", ex.intVal(fmt.Sprint(tag), types.Typ[types.Int]))
		k := z.kid(field)
		return out.withKid(field, &Val{Sh: k.Sh, T: k.T, S: s})
	}
	t := v.T
	if t == nil || v.Sh == nil {
		return ex.freshVal(to, "any")
	}
	if b, ok := t.Underlying().(*types.Basic); ok && v.Sh.IsLeaf() {
		_, named := types.Unalias(t).(*types.Named)
		if !named {
			switch b.Kind() {
			case types.Int64:
				return set(tagInt64, "i", v.S)
			case types.Int, types.UntypedInt, types.UntypedRune:
				if b.Kind() == types.UntypedRune {
					return set(tagOther, "i", v.S).withKid("ty", ex.intVal(fmt.Sprint(typeID(types.Typ[types.Int32])), types.Typ[types.Int]))
				}
				return set(tagInt, "i", v.S)
			case types.Uint64:
				return set(tagUint64, "i", v.S)
			case types.Float64, types.UntypedFloat:
				return set(tagFloat, "r", v.S)
			case types.Float32:
				return set(tagF32, "r", v.S)
			case types.String, types.UntypedString:
				return set(tagString, "s", v.S)
			case types.Bool, types.UntypedBool:
				return set(tagBool, "b", v.S)
			case types.UntypedNil:
				return z
			}
		}
	}
	setTy := func(o *Val) *Val {
		return o.withKid("ty", ex.intVal(fmt.Sprint(typeID(t)), types.Typ[types.Int]))
	}
	if v.Sh.IsLeaf() && v.Sh.Leaf == "Int" && isRefType(t) {
		// pointer / interface boxed: nil stays distinguishable only for interfaces
		if _, isIface := t.Underlying().(*types.Interface); isIface {
			out := z.withKid("tag", ex.intVal(ite(eq(v.S, "0"), "0", fmt.Sprint(tagOther)), types.Typ[types.Int]))
			out = out.withKid("ty", ex.intVal(ex.eng.smt.fresh("dynty", "Int"), types.Typ[types.Int]))
			return out.withKid("ref", ex.intVal(v.S, types.Typ[types.Int]))
		}
		return setTy(set(tagOther, "ref", v.S))
	}
	if v.Sh.IsLeaf() && v.Sh.Leaf == "Int" && isIntT(t) {
		// named integer type: payload in i, identity in ty
		return setTy(set(tagOther, "i", v.S))
	}
	if v.Sh.IsLeaf() && v.Sh.Leaf == "String" {
		return setTy(set(tagOther, "s", v.S))
	}
	// any other dynamic type
	if it, isIface := to.Underlying().(*types.Interface); isIface && it.NumMethods() > 0 {
		ex.boxedNonZeroCheck(ex.stNow, v, ex.stmtPos)
	}
	r := ex.eng.smt.fresh("boxed", "Int")
	return setTy(set(tagOther, "ref", r))
}

func (ex *Exec) evalIndex(st *State, e *ast.IndexExpr, sc *SpecCtx, commaOk bool) []*Val {
	// generic function instantiation f[T]
	if sc == nil {
		if tv, ok := ex.info.Types[e.X]; ok {
			if _, isSig := tv.Type.Underlying().(*types.Signature); isSig {
				return []*Val{ex.eval(st, e.X, sc)}
			}
		}
	}
	x := ex.eval(st, e.X, sc)
	i := ex.eval(st, e.Index, sc)
	return ex.indexVal(st, x, i, e.Pos(), commaOk, sc != nil)
}

func (ex *Exec) indexVal(st *State, x, i *Val, pos token.Pos, commaOk bool, spec bool) []*Val {
	if x.Sh == nil {
		return []*Val{ex.freshVal(nil, "idx"), ex.boolVal(ex.eng.smt.fresh("ok", "Bool"))}
	}
	switch x.Sh.Kind {
	case "slice":
		if !spec {
			ex.safety(st, "index", pos, and("(<= 0 "+i.S+")", "(< "+i.S+" "+x.kid("len").S+")"))
		}
		ev := ex.selectVal(x.kid("elems"), i.S)
		return []*Val{ex.retype(ex.loadedTree(ev), elemType(x.T))}
	case "array":
		if !spec {
			if at, ok := x.T.Underlying().(*types.Array); ok {
				ex.safety(st, "index", pos, and("(<= 0 "+i.S+")", fmt.Sprintf("(< %s %d)", i.S, at.Len())))
			}
		}
		ev := ex.selectVal(x.kid("elems"), i.S)
		return []*Val{ex.retype(ex.loadedTree(ev), elemType(x.T))}
	case "map":
		mt, _ := x.T.Underlying().(*types.Map)
		i = ex.coerceTo(i, mtKey(mt))
		present := "(select " + x.kid("dom").S + " " + i.S + ")"
		if ex.lockCheck && !spec {
			// remembered for insert-only tables: this value of the table (a new one after every re-acquisition
			// of its lock) has been looked up under this key
			if ex.examined == nil {
				ex.examined = map[string]bool{}
			}
			ex.examined[x.kid("dom").S+"|"+i.S] = true
		}
		ev := ex.selectVal(x.kid("val"), i.S)
		var et types.Type
		if mt != nil {
			et = mt.Elem()
		}
		z := ex.zeroSh(ev.Sh, et)
		if spec {
			ex.bound++
			res := ex.iteVal(present, ev, z)
			ex.bound--
			return []*Val{ex.retype(res, et), ex.boolVal(present)}
		}
		res := ex.iteVal(present, ex.loadedTree(ev), z)
		return []*Val{ex.retype(res, et), ex.boolVal(present)}
	case "leaf":
		if x.Sh.Leaf == "String" {
			if !spec {
				ex.safety(st, "index", pos, and("(<= 0 "+i.S+")", "(< "+i.S+" (str.len "+x.S+"))"))
			}
			bt := types.Typ[types.Uint8]
			term := "(str.to_code (str.at " + x.S + " " + i.S + "))"
			return []*Val{{Sh: ex.eng.sh.shapeOf(bt), T: bt, S: term}}
		}
	}
	ex.note("unmodelled index on %s at %s", x.Sh.Kind, ex.pos(pos))
	var et types.Type
	if x.T != nil {
		et = elemType(x.T)
	}
	return []*Val{ex.freshVal(et, "idx"), ex.boolVal(ex.eng.smt.fresh("ok", "Bool"))}
}

func mtKey(mt *types.Map) types.Type {
	if mt == nil {
		return nil
	}
	return mt.Key()
}

func (ex *Exec) coerceTo(v *Val, t types.Type) *Val {
	if t == nil || v.C == nil {
		return v
	}
	if isUntyped(v.T) || v.T == nil {
		return ex.constVal(v.C, t)
	}
	return v
}

func (ex *Exec) retype(v *Val, t types.Type) *Val {
	if t == nil || v.T == t {
		return v
	}
	return &Val{Sh: v.Sh, T: t, S: v.S, Kids: v.Kids, C: v.C, Loc: v.Loc, Fn: v.Fn}
}

// loadedTree attaches range facts to leaves read from a container.
func (ex *Exec) loadedTree(v *Val) *Val {
	if v.Sh.IsLeaf() {
		return ex.loaded(v)
	}
	if ex.bound > 0 || len(v.Kids) == 0 || len(v.Kids) > 24 {
		return v
	}
	out := &Val{Sh: v.Sh, T: v.T, Loc: v.Loc, Fn: v.Fn}
	for _, k := range v.Kids {
		out.Kids = append(out.Kids, ex.loadedTree(k))
	}
	return out
}

func elemType(t types.Type) types.Type {
	if t == nil {
		return nil
	}
	switch u := t.Underlying().(type) {
	case *types.Slice:
		return u.Elem()
	case *types.Array:
		return u.Elem()
	case *types.Map:
		return u.Elem()
	case *types.Pointer:
		return elemType(u.Elem())
	case *types.Basic:
		if u.Info()&types.IsString != 0 {
			return types.Typ[types.Uint8]
		}
	}
	return nil
}

func (ex *Exec) evalSlice(st *State, e *ast.SliceExpr, sc *SpecCtx) *Val {
	x := ex.eval(st, e.X, sc)
	var lo, hi *Val
	if e.Low != nil {
		lo = ex.eval(st, e.Low, sc)
	} else {
		lo = ex.intVal("0", types.Typ[types.Int])
	}
	if x.Sh != nil && x.Sh.IsLeaf() && x.Sh.Leaf == "String" {
		n := "(str.len " + x.S + ")"
		his := n
		if e.High != nil {
			hi = ex.eval(st, e.High, sc)
			his = hi.S
		}
		if sc == nil {
			ex.safety(st, "slice-bounds", e.Pos(), and("(<= 0 "+lo.S+")", "(<= "+lo.S+" "+his+")", "(<= "+his+" "+n+")"))
		}
		return &Val{Sh: x.Sh, T: x.T, S: "(str.substr " + x.S + " " + lo.S + " (- " + his + " " + lo.S + "))"}
	}
	if x.Sh != nil && (x.Sh.Kind == "slice" || x.Sh.Kind == "array") {
		var n string
		if x.Sh.Kind == "slice" {
			n = x.kid("len").S
		} else {
			n = fmt.Sprint(x.T.Underlying().(*types.Array).Len())
		}
		his := n
		if e.High != nil {
			hi = ex.eval(st, e.High, sc)
			his = hi.S
		}
		if sc == nil {
			// (capacity is not modelled: bound by length, which is stricter than Go's cap rule)
			ex.safety(st, "slice-bounds", e.Pos(), and("(<= 0 "+lo.S+")", "(<= "+lo.S+" "+his+")", "(<= "+his+" "+n+")"))
		}
		var rt types.Type = x.T
		if at, ok := x.T.Underlying().(*types.Array); ok {
			rt = types.NewSlice(at.Elem())
		}
		rsh := ex.eng.sh.shapeOf(rt)
		out := &Val{Sh: rsh, T: rt}
		out.Kids = []*Val{ex.intVal("(- "+his+" "+lo.S+")", types.Typ[types.Int]), ex.shiftArr(x.kid("elems"), lo.S)}
		return out
	}
	ex.note("unmodelled slice expression at %s", ex.pos(e.Pos()))
	return ex.freshVal(ex.typeOf(e), "slice")
}

// shiftArr returns the array a' with a'[i] = a[i+off].
func (ex *Exec) shiftArr(arr *Val, off string) *Val {
	if off == "0" {
		return arr
	}
	if arr.Sh.IsLeaf() {
		if ex.bound > 0 {
			return &Val{Sh: arr.Sh, T: arr.T, S: ex.eng.smt.fresh("shifted", arr.Sh.Leaf)}
		}
		name := ex.eng.smt.fresh("shift", arr.Sh.Leaf)
		ex.eng.smt.addAx(name, "(forall ((i Int)) (! (= (select "+name+" i) (select "+arr.S+" (+ i "+off+"))) :pattern ((select "+name+" i))))")
		return &Val{Sh: arr.Sh, T: arr.T, S: name}
	}
	out := &Val{Sh: arr.Sh, T: arr.T}
	for _, k := range arr.Kids {
		out.Kids = append(out.Kids, ex.shiftArr(k, off))
	}
	return out
}

func (ex *Exec) evalCompositeLit(st *State, e *ast.CompositeLit, sc *SpecCtx) *Val {
	t := ex.typeOf(e)
	if t == nil && e.Type != nil {
		t = ex.resolveType(e.Type, sc)
	}
	if t == nil {
		return ex.freshVal(nil, "lit")
	}
	sh := ex.eng.sh.shapeOf(t)
	switch u := t.Underlying().(type) {
	case *types.Struct:
		v := ex.zeroVal(t)
		if v.Sh.IsLeaf() && strings.HasPrefix(v.Sh.Leaf, "K_") {
			// a struct used as a map key (`keytype`): an injective constructor over its fields
			fields := make([]*Val, u.NumFields())
			for i := 0; i < u.NumFields(); i++ {
				fields[i] = ex.zeroVal(u.Field(i).Type())
			}
			for i, el := range e.Elts {
				if kv, ok := el.(*ast.KeyValueExpr); ok {
					name := kv.Key.(*ast.Ident).Name
					for j := 0; j < u.NumFields(); j++ {
						if u.Field(j).Name() == name {
							fields[j] = ex.assignConv(st, ex.eval(st, kv.Value, sc), u.Field(j).Type(), kv.Pos())
						}
					}
				} else if i < u.NumFields() {
					fields[i] = ex.assignConv(st, ex.eval(st, el, sc), u.Field(i).Type(), el.Pos())
				}
			}
			return &Val{Sh: v.Sh, T: t, S: ex.keyCons(v.Sh.Leaf, u, fields)}
		}
		if v.Sh.IsLeaf() || len(v.Kids) == 0 {
			// opaque special type
			for _, el := range e.Elts {
				ex.eval(st, el, sc)
			}
			return v
		}
		for i, el := range e.Elts {
			if kv, ok := el.(*ast.KeyValueExpr); ok {
				name := kv.Key.(*ast.Ident).Name
				fv := ex.eval(st, kv.Value, sc)
				if k := v.kid(name); k != nil {
					fv = ex.assignConv(st, fv, fieldType(u, name), kv.Pos())
					v = v.withKid(name, fv)
				}
			} else if i < u.NumFields() {
				fv := ex.eval(st, el, sc)
				fv = ex.assignConv(st, fv, u.Field(i).Type(), el.Pos())
				v = v.withKid(u.Field(i).Name(), fv)
			}
		}
		return v
	case *types.Slice:
		arr := ex.zeroSh(sh.kid("elems"), nil)
		n := 0
		for _, el := range e.Elts {
			if kv, ok := el.(*ast.KeyValueExpr); ok {
				el = kv.Value
			}
			var ev *Val
			if cl, ok := el.(*ast.CompositeLit); ok && cl.Type == nil {
				ev = ex.evalElidedLit(st, cl, u.Elem(), sc)
			} else {
				ev = ex.eval(st, el, sc)
			}
			ev = ex.assignConv(st, ev, u.Elem(), el.Pos())
			arr = ex.storeVal(arr, fmt.Sprint(n), ev)
			n++
		}
		return &Val{Sh: sh, T: t, Kids: []*Val{ex.intVal(fmt.Sprint(n), types.Typ[types.Int]), arr}}
	case *types.Map:
		if sh.Kind != "map" {
			for _, el := range e.Elts {
				ex.eval(st, el, sc)
			}
			return ex.freshVal(t, "maplit")
		}
		m := ex.emptyMap(t)
		for _, el := range e.Elts {
			kv := el.(*ast.KeyValueExpr)
			k := ex.assignConv(st, ex.eval(st, kv.Key, sc), u.Key(), kv.Pos())
			var v *Val
			if cl, ok := kv.Value.(*ast.CompositeLit); ok && cl.Type == nil {
				v = ex.evalElidedLit(st, cl, u.Elem(), sc)
			} else {
				v = ex.eval(st, kv.Value, sc)
			}
			v = ex.assignConv(st, v, u.Elem(), kv.Pos())
			m = ex.mapStore(m, k, v)
		}
		return m
	case *types.Array:
		arr := ex.zeroSh(sh.kid("elems"), nil)
		for i, el := range e.Elts {
			if kv, ok := el.(*ast.KeyValueExpr); ok {
				el = kv.Value
			}
			ev := ex.assignConv(st, ex.eval(st, el, sc), u.Elem(), el.Pos())
			arr = ex.storeVal(arr, fmt.Sprint(i), ev)
		}
		return &Val{Sh: sh, T: t, Kids: []*Val{arr}}
	}
	return ex.freshVal(t, "lit")
}

func (ex *Exec) evalElidedLit(st *State, cl *ast.CompositeLit, t types.Type, sc *SpecCtx) *Val {
	if pt, ok := t.Underlying().(*types.Pointer); ok {
		c2 := *cl
		v := ex.evalCompositeLitAs(st, &c2, pt.Elem(), sc)
		return ex.alloc(st, v, pt.Elem())
	}
	return ex.evalCompositeLitAs(st, cl, t, sc)
}

func (ex *Exec) evalCompositeLitAs(st *State, cl *ast.CompositeLit, t types.Type, sc *SpecCtx) *Val {
	if ex.info != nil {
		if tv, ok := ex.info.Types[cl]; ok && tv.Type != nil {
			return ex.evalCompositeLit(st, cl, sc)
		}
	}
	return ex.freshVal(t, "elided")
}

// keyCons: the term mk_K(f1,...,fn) of a `keytype` struct, with projections that make the constructor injective.
func (ex *Exec) keyCons(sort string, u *types.Struct, fields []*Val) string {
	var sorts, terms, vars, xs []string
	for i, f := range fields {
		fs := "Int"
		if f.Sh != nil && f.Sh.IsLeaf() {
			fs = f.Sh.Leaf
		}
		sorts = append(sorts, fs)
		terms = append(terms, f.S)
		vars = append(vars, fmt.Sprintf("(x%d %s)", i, fs))
		xs = append(xs, fmt.Sprintf("x%d", i))
	}
	mk := "mk_" + sort
	ex.eng.smt.declFun(mk, "(declare-fun "+mk+" ("+strings.Join(sorts, " ")+") "+sort+")")
	for i := range fields {
		pr := fmt.Sprintf("pr%d_%s", i, sort)
		ex.eng.smt.declFun(pr, "(declare-fun "+pr+" ("+sort+") "+sorts[i]+")")
		ex.eng.smt.addFunAx(pr, "(forall ("+strings.Join(vars, " ")+") (! (= ("+pr+" ("+mk+" "+strings.Join(xs, " ")+")) "+xs[i]+") :pattern (("+mk+" "+strings.Join(xs, " ")+"))))")
	}
	return "(" + mk + " " + strings.Join(terms, " ") + ")"
}

func fieldType(s *types.Struct, name string) types.Type {
	for i := 0; i < s.NumFields(); i++ {
		if s.Field(i).Name() == name {
			return s.Field(i).Type()
		}
	}
	return nil
}

func (ex *Exec) emptyMap(t types.Type) *Val {
	sh := ex.eng.sh.shapeOf(t)
	if sh.Kind != "map" {
		return ex.freshVal(t, "map")
	}
	dom := &Val{Sh: sh.Kids[0], S: "((as const " + sh.Kids[0].Leaf + ") false)"}
	card := ex.intVal("0", types.Typ[types.Int])
	val := ex.zeroSh(sh.Kids[2], nil)
	return &Val{Sh: sh, T: t, Kids: []*Val{dom, card, val}}
}

func (ex *Exec) mapStore(m *Val, k, v *Val) *Val {
	if m.Sh.Kind != "map" {
		return m
	}
	dom, card, val := m.Kids[0], m.Kids[1], m.Kids[2]
	ncard := ex.def("card", "Int", "(ite (select "+dom.S+" "+k.S+") "+card.S+" (+ "+card.S+" 1))")
	ndom := &Val{Sh: dom.Sh, S: ex.def("dom", dom.Sh.Leaf, "(store "+dom.S+" "+k.S+" true)")}
	return &Val{Sh: m.Sh, T: m.T, Kids: []*Val{ndom, ex.intVal(ncard, types.Typ[types.Int]), ex.storeVal(val, k.S, v)}}
}

func (ex *Exec) mapDelete(m *Val, k *Val) *Val {
	if m.Sh.Kind != "map" {
		return m
	}
	dom, card, val := m.Kids[0], m.Kids[1], m.Kids[2]
	ncard := ex.def("card", "Int", "(ite (select "+dom.S+" "+k.S+") (- "+card.S+" 1) "+card.S+")")
	ndom := &Val{Sh: dom.Sh, S: ex.def("dom", dom.Sh.Leaf, "(store "+dom.S+" "+k.S+" false)")}
	return &Val{Sh: m.Sh, T: m.T, Kids: []*Val{ndom, ex.intVal(ncard, types.Typ[types.Int]), val}}
}

// alloc creates a fresh heap object holding v and returns the pointer.
func (ex *Exec) alloc(st *State, v *Val, t types.Type) *Val {
	pt := types.NewPointer(t)
	ref := ex.eng.smt.fresh("new", "Int")
	ex.eng.allocN++
	ex.eng.smt.addAx(ref, fmt.Sprintf("(= %s (+ %s %d))", ref, ex.eng.alloc0(), ex.eng.allocN))
	if ex.inLoop > 0 {
		// allocations inside loops must be distinct per iteration: drop the fixed offset
		ex.eng.smt.syms[ref].Ax = []string{"(> " + ref + " " + ex.eng.alloc0() + ")"}
		ex.note("allocation inside a loop: freshness w.r.t. earlier iterations not modelled")
	}
	l := &Loc{Heap: true, TKey: heapTypeKey(t), Ref: ref, Sh: ex.eng.sh.shapeOf(t), T: t}
	if v != nil && v.Sh != nil {
		ex.writeLoc(st, l, v)
	}
	// the dynamic type of an allocated object (for isType on interface values): ghost dynType, when declared
	if g, ok := ex.eng.cs.Ghosts["dynType"]; ok {
		ex.writeLoc(st, ex.ghostLoc(g, []*Val{{S: ref}}), ex.intVal(fmt.Sprint(typeID(pt)), types.Typ[types.Int]))
	}
	if ex.eng.ownedTypes[typeKey(t)] {
		// whoever allocates an object owns it
		if g, ok := ex.eng.cs.Ghosts["owns"]; ok {
			ex.writeLoc(st, ex.ghostLoc(g, []*Val{{S: ref}}), ex.boolVal("true"))
		}
	}
	return &Val{Sh: ex.eng.sh.shapeOf(pt), T: pt, S: ref}
}

func (ex *Exec) evalTypeAssert(st *State, e *ast.TypeAssertExpr, sc *SpecCtx, commaOk bool) []*Val {
	x := ex.eval(st, e.X, sc)
	var to types.Type
	if e.Type != nil {
		to = ex.resolveType(e.Type, sc)
	}
	v, ok := ex.typeAssert(st, x, to)
	if !commaOk && sc == nil {
		ex.safety(st, "type-assert", e.Pos(), ok)
	}
	if commaOk && to != nil && v != nil && v.Sh != nil {
		// v, ok := x.(T): the zero value of T when the assertion fails
		v = ex.iteVal(ok, v, ex.zeroVal(to))
	}
	return []*Val{v, ex.boolVal(ok)}
}

// typeAssert returns the asserted value and the condition under which the
// assertion succeeds.
func (ex *Exec) typeAssert(st *State, x *Val, to types.Type) (*Val, string) {
	if to == nil {
		return ex.freshVal(nil, "ta"), ex.eng.smt.fresh("taok", "Bool")
	}
	if x.Sh != nil && x.Sh.Kind == "any" {
		tag := x.kid("tag").S
		mk := func(tagv int, field string) (*Val, string) {
			k := x.kid(field)
			sh := ex.eng.sh.shapeOf(to)
			return &Val{Sh: sh, T: to, S: k.S}, eq(tag, fmt.Sprint(tagv))
		}
		if b, ok := to.Underlying().(*types.Basic); ok {
			if _, named := types.Unalias(to).(*types.Named); !named {
				switch b.Kind() {
				case types.Int64:
					return mk(tagInt64, "i")
				case types.Int:
					return mk(tagInt, "i")
				case types.Uint64:
					return mk(tagUint64, "i")
				case types.Float64:
					return mk(tagFloat, "r")
				case types.Float32:
					return mk(tagF32, "r")
				case types.String:
					return mk(tagString, "s")
				case types.Bool:
					return mk(tagBool, "b")
				}
			}
		}
		// other dynamic types
		if _, isIface := to.Underlying().(*types.Interface); isIface {
			// whether a dynamic type implements an interface is a fixed (uninterpreted) fact about the type
			fname := fmt.Sprintf("uf_implements_%d", typeID(to))
			ex.eng.smt.declFun(fname, "(declare-fun "+fname+" (Int Int) Bool)")
			okb := "(" + fname + " " + tag + " " + x.kid("ty").S + ")"
			v := ex.freshVal(to, "ta")
			if v.Sh.IsLeaf() && v.Sh.Leaf == "Int" {
				// the asserted interface value holds a dynamic type, so it is not the nil interface
				ref := x.kid("ref").S
				v = &Val{Sh: v.Sh, T: to, S: ref}
				if ex.specDepth == 0 && ex.bound == 0 {
					st.assume(implies(and(not(eq(tag, "0")), okb), not(eq(ref, "0"))))
					ex.assumption("a value whose dynamic type implements the asserted interface is not a typed nil pointer (the resulting interface value is treated as non-nil)")
				}
			}
			return v, and(not(eq(tag, "0")), okb)
		}
		okc := and(eq(tag, fmt.Sprint(tagOther)), eq(x.kid("ty").S, fmt.Sprint(typeID(to))))
		tsh := ex.eng.sh.shapeOf(to)
		switch {
		case tsh.IsLeaf() && tsh.Leaf == "Int" && isRefType(to):
			return &Val{Sh: tsh, T: to, S: x.kid("ref").S}, okc
		case tsh.IsLeaf() && tsh.Leaf == "Int":
			return &Val{Sh: tsh, T: to, S: x.kid("i").S}, okc
		case tsh.IsLeaf() && tsh.Leaf == "String":
			return &Val{Sh: tsh, T: to, S: x.kid("s").S}, okc
		}
		return ex.freshVal(to, "ta"), okc
	}
	// non-empty interface to a scalar concrete type: unbox
	if tsh := ex.eng.sh.shapeOf(to); x.Sh != nil && x.Sh.IsLeaf() && x.Sh.Leaf == "Int" && tsh.IsLeaf() && tsh.Kind != "lift" && !isRefType(to) && (tsh.Leaf == "String" || tsh.Leaf == "Int" || tsh.Leaf == "Bool" || tsh.Leaf == "Real") {
		_, unbox, is := ex.eng.boxFns(typeID(to), tsh.Leaf)
		return &Val{Sh: tsh, T: to, S: "(" + unbox + " " + x.S + ")"}, and(not(eq(x.S, "0")), "("+is+" "+x.S+")")
	}
	// non-empty interface to concrete: keep the reference, success unknown
	okb := ex.eng.smt.fresh("taok", "Bool")
	sh := ex.eng.sh.shapeOf(to)
	if sh.IsLeaf() && sh.Leaf == "Int" && x.Sh != nil && x.Sh.IsLeaf() && x.Sh.Leaf == "Int" {
		return &Val{Sh: sh, T: to, S: x.S}, and(okb, not(eq(x.S, "0")))
	}
	return ex.freshVal(to, "ta"), okb
}

func (ex *Exec) pos(p token.Pos) string { return posStr(ex.eng.fset, p) }

func (ex *Exec) note(f string, a ...any) {
	msg := fmt.Sprintf(f, a...)
	if ex.discovery > 0 {
		return
	}
	ex.notes[msg] = true
}

func (ex *Exec) assumption(msg string) {
	ex.assumptions[msg] = true
}

func (ex *Exec) specErr(f string, a ...any) {
	msg := fmt.Sprintf(f, a...)
	ex.specErrs = append(ex.specErrs, ex.fn.Ref+": "+msg+" ["+ex.curClause+"]")
}

func trimQuote(s string) string { return strings.Trim(s, `"`) }
