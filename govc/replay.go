package main

// Replay of solver counterexamples against the real code.
//
// For a failed (sat) obligation of a function under contract the model is
// queried for the function's inputs (parameters, receiver and the entry values
// of the heap objects they reach) and for the outputs the executor predicts on
// the path the model takes. A Go test is generated that builds those inputs,
// calls the REAL function and prints the observed outputs; it is injected into
// the package with `go test -overlay` (nothing is written under /repo). If the
// real outputs equal the predicted ones, the real code exhibits exactly the
// behaviour that falsifies the clause: the replay is confirmed.

import (
	"bytes"
	"context"
	"encoding/json"
	"fmt"
	"go/types"
	"regexp"
	"math/big"
	"os"
	"os/exec"
	"path/filepath"
	"sort"
	"strconv"
	"strings"
	"time"
)

type rNode struct {
	Path  string // Go access path, e.g. sp.Event.SampleRate
	T     types.Type
	Kind  string // int, bool, string, float, time, ptr, any, iface, slicelen
	Term  string // entry-value term
	Out   []string // predicted post-state term per return path ("" = none)
	Kids  []*rNode
	// for heap-resident scalars: where they live
	Settable bool
}

type replayPlan struct {
	ex       *Exec
	fi       *FuncInfo
	nodes    []*rNode // roots: one per input object
	rets     []retState
	retCond  []string
	resNodes [][]*rNode // per return: result nodes
	testPkg  *types.Package
}

var ifaceStubs = map[string]string{
	"github.com/honeycombio/refinery/logger.Logger":   "&logger.NullLogger{}",
	"github.com/honeycombio/refinery/metrics.Metrics": "&metrics.NullMetrics{}",
	"github.com/jonboulle/clockwork.Clock":             "clockwork.NewFakeClock()",
}

var stubImports = map[string]string{
	"logger.":    "github.com/honeycombio/refinery/logger",
	"metrics.":   "github.com/honeycombio/refinery/metrics",
	"clockwork.": "github.com/jonboulle/clockwork",
}

func (pl *replayPlan) accessible(f *types.Var) bool {
	return f.Exported() || f.Pkg() == pl.testPkg
}

// build creates the node tree for a value of type t reachable at Go path `path`.
func (pl *replayPlan) build(path string, t types.Type, v *Val, depth int, settable bool) *rNode {
	ex := pl.ex
	if v == nil || v.Sh == nil {
		return nil
	}
	n := &rNode{Path: path, T: t, Settable: settable}
	tk := typeKey(t)
	switch {
	case tk == "time.Time":
		n.Kind, n.Term = "time", v.S
		return n
	case v.Sh.Kind == "any":
		n.Kind = "any"
		for i, k := range v.Kids {
			n.Kids = append(n.Kids, &rNode{Path: v.Sh.Names[i], Kind: "anyleaf", Term: k.S})
		}
		return n
	}
	switch u := t.Underlying().(type) {
	case *types.Basic:
		if !v.Sh.IsLeaf() {
			return nil
		}
		switch {
		case u.Info()&types.IsBoolean != 0:
			n.Kind = "bool"
		case u.Info()&types.IsInteger != 0:
			n.Kind = "int"
		case u.Info()&types.IsFloat != 0:
			n.Kind = "float"
		case u.Info()&types.IsString != 0:
			n.Kind = "string"
		default:
			return nil
		}
		n.Term = v.S
		return n
	case *types.Pointer:
		if !v.Sh.IsLeaf() || v.Loc != nil {
			return nil
		}
		n.Kind, n.Term = "ptr", v.S
		et := u.Elem()
		st, ok := et.Underlying().(*types.Struct)
		if !ok || depth <= 0 {
			return n
		}
		if _, special := specialLeaf[qualName2(et)]; special {
			return n
		}
		sh := ex.eng.sh.shapeOf(et)
		if sh.IsLeaf() {
			return n
		}
		entry := &State{vars: map[types.Object]*Val{}, heap: map[string]string{}, epoch: "0"}
		for i := 0; i < st.NumFields(); i++ {
			f := st.Field(i)
			if !pl.accessible(f) {
				continue
			}
			ksh := sh.kid(f.Name())
			if ksh == nil {
				continue
			}
			save := ex.bound
			ex.bound = 1 // no fresh definitions: plain select terms
			fv := ex.heapRead(entry, heapTypeKey(et), v.S, f.Name(), ksh, f.Type())
			ex.bound = save
			k := pl.build(path+"."+f.Name(), f.Type(), fv, depth-1, true)
			if k != nil {
				pl.attachOut(k, heapTypeKey(et), v.S, f.Name())
				n.Kids = append(n.Kids, k)
			}
		}
		return n
	case *types.Struct:
		if v.Sh.IsLeaf() {
			return nil
		}
		if _, special := specialLeaf[qualName2(t)]; special {
			return nil
		}
		n.Kind = "struct"
		for i := 0; i < u.NumFields(); i++ {
			f := u.Field(i)
			if !pl.accessible(f) {
				continue
			}
			kv := v.kid(f.Name())
			if kv == nil {
				continue
			}
			k := pl.build(path+"."+f.Name(), f.Type(), kv, depth, settable)
			if k != nil {
				n.Kids = append(n.Kids, k)
			}
		}
		return n
	case *types.Interface:
		n.Kind = "iface"
		return n
	case *types.Slice:
		if v.Sh.Kind != "slice" {
			return nil
		}
		eb, ok := u.Elem().Underlying().(*types.Basic)
		if !ok {
			return nil
		}
		n.Kind = "slice"
		n.Term = v.kid("len").S
		for i := 0; i < 8; i++ {
			ev := ex.selectVal(v.kid("elems"), fmt.Sprint(i))
			k := pl.build(fmt.Sprintf("%s[%d]", path, i), u.Elem(), ev, 0, true)
			if k != nil {
				n.Kids = append(n.Kids, k)
			}
		}
		_ = eb
		return n
	}
	return nil
}

func qualName2(t types.Type) string {
	if n, ok := types.Unalias(t).(*types.Named); ok {
		return qualName(n.Origin())
	}
	return ""
}

// attachOut fills the predicted post-state terms of heap-resident scalar nodes.
func (pl *replayPlan) attachOut(n *rNode, tkey, ref, prefix string) {
	var walk func(n *rNode, prefix string)
	walk = func(n *rNode, prefix string) {
		switch n.Kind {
		case "int", "bool", "string", "float", "time":
			for _, r := range pl.rets {
				key := heapKey(tkey, prefix)
				srt := pl.ex.eng.heapSortOf(key)
				if srt == "" {
					n.Out = append(n.Out, "")
					continue
				}
				h := r.st.heap[key]
				if h == "" {
					h = pl.ex.eng.smt.named("H"+r.st.epochOf(key)+"_"+key, srt)
				}
				n.Out = append(n.Out, "(select "+h+" "+ref+")")
			}
		case "struct":
			for _, k := range n.Kids {
				name := k.Path[strings.LastIndex(k.Path, ".")+1:]
				walk(k, prefix+"."+name)
			}
		}
	}
	walk(n, prefix)
}

// ---------------------------------------------------------------------------
// s-expressions

type sexp struct {
	atom string
	list []*sexp
	isList bool
}

func parseSexps(s string) []*sexp {
	var out []*sexp
	i := 0
	var parse func() *sexp
	skip := func() {
		for i < len(s) {
			if s[i] == ';' {
				for i < len(s) && s[i] != '\n' {
					i++
				}
			} else if s[i] == ' ' || s[i] == '\n' || s[i] == '\t' || s[i] == '\r' {
				i++
			} else {
				break
			}
		}
	}
	parse = func() *sexp {
		skip()
		if i >= len(s) {
			return nil
		}
		if s[i] == '(' {
			i++
			n := &sexp{isList: true}
			for {
				skip()
				if i >= len(s) {
					return n
				}
				if s[i] == ')' {
					i++
					return n
				}
				k := parse()
				if k == nil {
					return n
				}
				n.list = append(n.list, k)
			}
		}
		if s[i] == '"' {
			j := i + 1
			for j < len(s) {
				if s[j] == '"' {
					if j+1 < len(s) && s[j+1] == '"' {
						j += 2
						continue
					}
					break
				}
				j++
			}
			a := s[i : min(j+1, len(s))]
			i = j + 1
			return &sexp{atom: a}
		}
		if s[i] == '|' {
			j := strings.IndexByte(s[i+1:], '|')
			if j < 0 {
				j = len(s) - i - 2
			}
			a := s[i : i+j+2]
			i += j + 2
			return &sexp{atom: a}
		}
		j := i
		for j < len(s) && !strings.ContainsRune(" \n\t\r()", rune(s[j])) {
			j++
		}
		a := s[i:j]
		i = j
		return &sexp{atom: a}
	}
	for {
		k := parse()
		if k == nil {
			break
		}
		out = append(out, k)
	}
	return out
}

func (e *sexp) String() string {
	if !e.isList {
		return e.atom
	}
	var ps []string
	for _, k := range e.list {
		ps = append(ps, k.String())
	}
	return "(" + strings.Join(ps, " ") + ")"
}

// numeric value of a model term (Int or Real), as a rational
func sexpRat(e *sexp) (*big.Rat, bool) {
	if !e.isList {
		r := new(big.Rat)
		if _, ok := r.SetString(e.atom); ok {
			return r, true
		}
		return nil, false
	}
	if len(e.list) == 2 && e.list[0].atom == "-" {
		r, ok := sexpRat(e.list[1])
		if !ok {
			return nil, false
		}
		return r.Neg(r), true
	}
	if len(e.list) == 3 && e.list[0].atom == "/" {
		a, ok1 := sexpRat(e.list[1])
		b, ok2 := sexpRat(e.list[2])
		if !ok1 || !ok2 || b.Sign() == 0 {
			return nil, false
		}
		return a.Quo(a, b), true
	}
	return nil, false
}

func smtStringValue(a string) (string, bool) {
	if len(a) < 2 || a[0] != '"' {
		return "", false
	}
	a = a[1 : len(a)-1]
	var b []byte
	for i := 0; i < len(a); i++ {
		if a[i] == '"' && i+1 < len(a) && a[i+1] == '"' {
			b = append(b, '"')
			i++
			continue
		}
		if a[i] == '\\' && i+2 < len(a) && a[i+1] == 'u' {
			// \u{X..} or \uXXXX
			if a[i+2] == '{' {
				j := strings.IndexByte(a[i:], '}')
				if j > 0 {
					if c, err := strconv.ParseUint(a[i+3:i+j], 16, 32); err == nil {
						if c < 256 {
							b = append(b, byte(c))
						} else {
							b = append(b, []byte(string(rune(c)))...)
						}
						i += j
						continue
					}
				}
			} else if i+5 < len(a) {
				if c, err := strconv.ParseUint(a[i+2:i+6], 16, 32); err == nil {
					if c < 256 {
						b = append(b, byte(c))
					} else {
						b = append(b, []byte(string(rune(c)))...)
					}
					i += 5
					continue
				}
			}
		}
		b = append(b, a[i])
	}
	return string(b), true
}

// ---------------------------------------------------------------------------

type replayResult struct {
	Confirmed bool
	Supported bool
	Detail    string
	Inputs    map[string]string
	Predicted map[string]string
	Observed  map[string]string
	TestFile  string
}

func solverByName(name string) solverSpec {
	for _, s := range solvers {
		if s.name == name {
			return s
		}
	}
	return solvers[0]
}

// replay tries to reproduce a sat obligation on the real code.
func (eng *Engine) replay(ob *Obligation) *replayResult {
	res := &replayResult{Inputs: map[string]string{}, Predicted: map[string]string{}, Observed: map[string]string{}}
	ex := ob.ex
	if ex == nil || ex.fn == nil || ex.fn.Obj == nil || ex.fn.Pkg == nil || len(ob.cases) == 0 {
		res.Detail = "no replay driver for this kind of obligation"
		return res
	}
	if ex.contract != nil && ex.contract.Frag != "" {
		res.Detail = "fragment contracts are not replayable as a function call"
		return res
	}
	pl := &replayPlan{ex: ex, fi: ex.fn, rets: ob.cases, testPkg: ex.fn.Pkg.Types}
	sig := ex.fn.Sig
	if sig.TypeParams() != nil && sig.TypeParams().Len() > 0 || sig.RecvTypeParams() != nil && sig.RecvTypeParams().Len() > 0 {
		res.Detail = "generic functions are not replayed by the generic driver"
		return res
	}
	// roots: receiver and parameters, in order
	var roots []*types.Var
	if sig.Recv() != nil {
		roots = append(roots, sig.Recv())
	}
	for i := 0; i < sig.Params().Len(); i++ {
		roots = append(roots, sig.Params().At(i))
	}
	for i, r := range roots {
		v, ok := ex.init[r]
		if !ok {
			v = ex.zeroVal(r.Type())
		}
		name := r.Name()
		if name == "" || name == "_" {
			name = fmt.Sprintf("arg%d", i)
		}
		n := pl.build(name, r.Type(), v, 3, true)
		if n == nil {
			n = &rNode{Path: name, T: r.Type(), Kind: "zero"}
		}
		pl.nodes = append(pl.nodes, n)
	}
	for _, r := range pl.rets {
		pl.retCond = append(pl.retCond, and(r.st.pc...))
		var rn []*rNode
		for i, rv := range r.results {
			if i >= sig.Results().Len() {
				break
			}
			n := pl.build(fmt.Sprintf("res%d", i), sig.Results().At(i).Type(), rv, 0, false)
			rn = append(rn, n)
		}
		pl.resNodes = append(pl.resNodes, rn)
	}
	// collect query terms
	var terms []string
	add := func(t string) {
		if t != "" {
			terms = append(terms, t)
		}
	}
	var walk func(n *rNode)
	walk = func(n *rNode) {
		if n == nil {
			return
		}
		add(n.Term)
		for _, o := range n.Out {
			add(o)
		}
		for _, k := range n.Kids {
			walk(k)
		}
	}
	for _, n := range pl.nodes {
		walk(n)
	}
	for _, rn := range pl.resNodes {
		for _, n := range rn {
			walk(n)
		}
	}
	for _, c := range pl.retCond {
		add(c)
	}
	if len(terms) == 0 {
		res.Detail = "function has no modelled inputs"
		return res
	}
	// ask the solver that found the model
	script := strings.Replace(ob.Script, "(get-model)\n", "", 1)
	// declare any symbols the query terms need that the script does not have
	script = eng.smt.extendScript(script, terms)
	var q strings.Builder
	q.WriteString(script)
	for _, t := range terms {
		q.WriteString("(get-value (" + t + "))\n")
	}
	st, out, _ := runSolver(context.Background(), solverByName(ob.Solver), q.String(), 60*time.Second)
	if st != "sat" {
		res.Detail = "model query failed: " + st
		return res
	}
	vals := map[string]*sexp{}
	exps := parseSexps(out)
	ti := 0
	for _, e := range exps {
		if !e.isList || len(e.list) != 1 || !e.list[0].isList || len(e.list[0].list) != 2 {
			continue
		}
		if ti < len(terms) {
			vals[terms[ti]] = e.list[0].list[1]
			ti++
		}
	}
	if ti != len(terms) {
		res.Detail = fmt.Sprintf("model query returned %d of %d values", ti, len(terms))
		return res
	}
	// which return path does the model take?
	taken := -1
	for j, c := range pl.retCond {
		if v := vals[c]; v != nil && v.atom == "true" {
			taken = j
			break
		}
	}
	if taken < 0 {
		res.Detail = "no return path is taken in the model"
		return res
	}
	gen := &replayGen{pl: pl, vals: vals, taken: taken, imports: map[string]string{}, res: res, objs: map[string]string{}}
	src, ok := gen.generate()
	if !ok {
		res.Detail = "inputs of this function cannot be constructed by the generic driver: " + gen.why
		return res
	}
	res.Supported = true
	// run it
	tmp, err := os.MkdirTemp("", "govc-replay-")
	if err != nil {
		res.Detail = err.Error()
		return res
	}
	defer os.RemoveAll(tmp)
	pkgDir := filepath.Dir(ex.fn.File)
	testFile := filepath.Join(pkgDir, "zz_govc_replay_test.go")
	srcFile := filepath.Join(tmp, "replay_test.go")
	os.WriteFile(srcFile, []byte(src), 0o644)
	ov, _ := json.Marshal(map[string]any{"Replace": map[string]string{testFile: srcFile}})
	ovFile := filepath.Join(tmp, "overlay.json")
	os.WriteFile(ovFile, ov, 0o644)
	ctx, cancel := context.WithTimeout(context.Background(), 300*time.Second)
	defer cancel()
	cmd := exec.CommandContext(ctx, "go", "test", "-overlay", ovFile, "-vet=off", "-v", "-count=1", "-timeout", "60s", "-run", "^TestGovcReplay$", ".")
	cmd.Dir = pkgDir
	cmd.Env = append(os.Environ(), "GOFLAGS=-mod=mod", "GOPROXY=off")
	var ob2 bytes.Buffer
	cmd.Stdout = &ob2
	cmd.Stderr = &ob2
	cmd.Run()
	outS := ob2.String()
	res.TestFile = src
	k := strings.Index(outS, "GOVC-OBSERVED ")
	if k < 0 {
		res.Detail = "replay test produced no observation: " + firstLines(outS, 12)
		return res
	}
	line := outS[k+len("GOVC-OBSERVED "):]
	if e := strings.IndexByte(line, '\n'); e >= 0 {
		line = line[:e]
	}
	var observed map[string]string
	if err := json.Unmarshal([]byte(line), &observed); err != nil {
		res.Detail = "cannot parse observation: " + err.Error()
		return res
	}
	res.Observed = observed
	// compare
	mism := []string{}
	keys := make([]string, 0, len(res.Predicted))
	for k := range res.Predicted {
		keys = append(keys, k)
	}
	sort.Strings(keys)
	cmp := 0
	for _, k := range keys {
		o, ok := observed[k]
		if !ok {
			continue
		}
		cmp++
		if o != res.Predicted[k] {
			mism = append(mism, fmt.Sprintf("%s: predicted %s, observed %s", k, res.Predicted[k], o))
		}
	}
	if p, ok := observed["$panic"]; ok {
		if ob.Kind == "safety" {
			res.Confirmed = true
			res.Detail = "the real function panics on the model's input: " + p
			return res
		}
		mism = append(mism, "real function panicked: "+p)
	} else if ob.Kind == "safety" {
		res.Detail = "the real function did not panic on the model's input"
		return res
	}
	if cmp == 0 {
		res.Detail = "no comparable outputs"
		return res
	}
	// the outputs compared must include something the failed clause speaks of; agreeing on unrelated fields
	// (the others being pointers, interfaces or ghost state the harness cannot observe) confirms nothing
	if ob.Kind != "safety" {
		relevant := false
		for _, k := range keys {
			if _, ok := observed[k]; !ok {
				continue
			}
			base := strings.TrimSuffix(k, "==nil")
			if strings.Contains(ob.Text, base) {
				relevant = true
			}
			if strings.HasPrefix(base, "res") && (strings.Contains(ob.Text, "result") || mentionsNamedResult(ex, ob.Text)) {
				relevant = true
			}
		}
		// a model that fixes what an assumed, uninterpreted outside function returns (mux.Vars, a cache lookup, ...)
		// describes an environment the harness cannot impose: the run on the other inputs is not that execution
		if relevant && ex != nil {
			for _, c := range ex.eng.cs.Contracts {
				if c.Kind != "assume" || !c.Getter {
					continue
				}
				nm := c.Func[strings.LastIndexByte(c.Func, '.')+1:]
				if strings.Contains(ob.Text, "."+nm+"(") {
					res.Detail = "the clause speaks of " + c.Func + ", an assumed outside function whose value in the model the harness cannot impose: not confirmed"
					return res
				}
			}
		}
		if !relevant {
			res.Detail = "the outputs the harness can observe are not the ones the failed clause speaks of (pointers, interfaces or ghost state): not confirmed"
			return res
		}
	}
	if len(mism) > 0 {
		res.Detail = "real code does not behave as the model predicts (abstraction too coarse?): " + strings.Join(mism, "; ")
		return res
	}
	res.Confirmed = true
	res.Detail = fmt.Sprintf("the real function, run on the model's inputs, produced exactly the %d predicted outputs that falsify the clause", cmp)
	return res
}

// extendScript adds declarations for symbols used by extra terms.
func (m *Smt) extendScript(script string, terms []string) string {
	have := map[string]bool{}
	for _, id := range identRe.FindAllString(script, -1) {
		have[id] = true
	}
	var extra strings.Builder
	var work []string
	seen := map[string]bool{}
	scan := func(t string) {
		for _, id := range identRe.FindAllString(t, -1) {
			if _, ok := m.syms[id]; ok && !have[id] && !seen[id] {
				seen[id] = true
				work = append(work, id)
			}
		}
	}
	for _, t := range terms {
		scan(t)
	}
	var names []string
	for len(work) > 0 {
		id := work[len(work)-1]
		work = work[:len(work)-1]
		names = append(names, id)
		s := m.syms[id]
		if s.Def != "" {
			scan(s.Def)
		}
		for _, a := range s.Ax {
			scan(a)
		}
	}
	// declaration order
	idx := map[string]int{}
	for i, n := range m.order {
		idx[n] = i
	}
	sort.Slice(names, func(i, j int) bool { return idx[names[i]] < idx[names[j]] })
	for _, n := range names {
		s := m.syms[n]
		fmt.Fprintf(&extra, "(declare-const %s %s)\n", s.Name, s.Sort)
	}
	for _, n := range names {
		s := m.syms[n]
		if s.Def != "" {
			fmt.Fprintf(&extra, "(assert (= %s %s))\n", s.Name, s.Def)
		}
		for _, a := range s.Ax {
			fmt.Fprintf(&extra, "(assert %s)\n", a)
		}
	}
	k := strings.LastIndex(script, "(check-sat)")
	if k < 0 {
		return script + extra.String()
	}
	// declarations must precede check-sat
	return script[:k] + extra.String() + script[k:]
}

// ---------------------------------------------------------------------------

type replayGen struct {
	pl      *replayPlan
	vals    map[string]*sexp
	taken   int
	imports map[string]string // path -> name
	res     *replayResult
	objs    map[string]string // "TKey/ref" -> Go variable
	why     string
	pre     strings.Builder
	nvar    int
}

func (g *replayGen) qual(p *types.Package) string {
	if p == g.pl.testPkg {
		return ""
	}
	g.imports[p.Path()] = p.Name()
	return p.Name()
}

func (g *replayGen) typeStr(t types.Type) string {
	return types.TypeString(t, g.qual)
}

func (g *replayGen) intLit(term string) (string, bool) {
	v := g.vals[term]
	if v == nil {
		return "", false
	}
	r, ok := sexpRat(v)
	if !ok || !r.IsInt() {
		return "", false
	}
	return r.Num().String(), true
}

func (g *replayGen) scalarLit(n *rNode, term string) (lit string, show string, ok bool) {
	v := g.vals[term]
	if v == nil {
		return "", "", false
	}
	switch n.Kind {
	case "int":
		r, ok := sexpRat(v)
		if !ok || !r.IsInt() {
			return "", "", false
		}
		s := r.Num().String()
		return g.typeStr(n.T) + "(" + s + ")", s, true
	case "bool":
		if v.atom != "true" && v.atom != "false" {
			return "", "", false
		}
		return g.typeStr(n.T) + "(" + v.atom + ")", v.atom, true
	case "string":
		s, ok := smtStringValue(v.atom)
		if !ok {
			return "", "", false
		}
		return g.typeStr(n.T) + "(" + strconv.Quote(s) + ")", strconv.Quote(s), true
	case "float":
		r, ok := sexpRat(v)
		if !ok {
			return "", "", false
		}
		f, _ := r.Float64()
		s := strconv.FormatFloat(f, 'g', -1, 64)
		return g.typeStr(n.T) + "(" + s + ")", s, true
	case "time":
		r, ok := sexpRat(v)
		if !ok || !r.IsInt() {
			return "", "", false
		}
		g.imports["time"] = "time"
		s := r.Num().String()
		if !r.Num().IsInt64() {
			return "", "", false
		}
		return "time.Unix(0, " + s + ")", s, true
	}
	return "", "", false
}

// emit generates statements that make Go location `lhs` hold the model's value of n.
func (g *replayGen) emit(n *rNode, lhs string, w *strings.Builder) bool {
	switch n.Kind {
	case "int", "bool", "string", "float", "time":
		lit, show, ok := g.scalarLit(n, n.Term)
		if !ok {
			return true // leave zero
		}
		fmt.Fprintf(w, "\t%s = %s\n", lhs, lit)
		g.res.Inputs[n.Path] = show
		return true
	case "ptr":
		ref, ok := g.intLit(n.Term)
		if !ok {
			return true
		}
		if ref == "0" {
			g.res.Inputs[n.Path] = "nil"
			return true
		}
		pt := n.T.Underlying().(*types.Pointer)
		key := typeKey(pt.Elem()) + "/" + ref
		if v, ok := g.objs[key]; ok {
			fmt.Fprintf(w, "\t%s = %s\n", lhs, v)
			return true
		}
		if _, isStruct := pt.Elem().Underlying().(*types.Struct); !isStruct && !isBasic(pt.Elem()) {
			return true
		}
		g.nvar++
		v := fmt.Sprintf("obj%d", g.nvar)
		g.objs[key] = v
		fmt.Fprintf(w, "\t%s := new(%s)\n", v, g.typeStr(pt.Elem()))
		fmt.Fprintf(w, "\t%s = %s\n", lhs, v)
		for _, k := range n.Kids {
			name := k.Path[len(n.Path):]
			if !g.emit(k, v+name, w) {
				return false
			}
		}
		return true
	case "struct":
		for _, k := range n.Kids {
			name := k.Path[len(n.Path):]
			if !g.emit(k, lhs+name, w) {
				return false
			}
		}
		return true
	case "iface":
		if stub, ok := ifaceStubs[qualName2(n.T)]; ok {
			for pfx, path := range stubImports {
				if strings.Contains(stub, pfx) {
					if path == g.pl.testPkg.Path() {
						stub = strings.Replace(stub, pfx, "", 1)
					} else {
						g.imports[path] = strings.TrimSuffix(pfx, ".")
					}
				}
			}
			fmt.Fprintf(w, "\t%s = %s\n", lhs, stub)
		}
		return true
	case "any":
		tag, ok := g.intLit(n.Kids[0].Term)
		if !ok {
			return true
		}
		get := func(i int, kind string) (string, bool) {
			lit, _, ok := g.scalarLit(&rNode{Kind: kind, T: map[string]types.Type{"int": types.Typ[types.Int64], "float": types.Typ[types.Float64], "string": types.Typ[types.String], "bool": types.Typ[types.Bool]}[kind]}, n.Kids[i].Term)
			return lit, ok
		}
		var lit string
		switch tag {
		case "0":
			g.res.Inputs[n.Path] = "nil"
			return true
		case "1":
			lit, ok = get(1, "int")
		case "5":
			lit, ok = get(1, "int")
			lit = "int(" + lit + ")"
		case "6":
			lit, ok = get(1, "int")
			lit = "uint64(" + strings.TrimPrefix(lit, "int64") + ")"
		case "2":
			lit, ok = get(2, "float")
		case "8":
			lit, ok = get(2, "float")
			lit = "float32(" + lit + ")"
		case "3":
			lit, ok = get(3, "string")
		case "4":
			lit, ok = get(4, "bool")
		default:
			lit, ok = "struct{}{}", true
		}
		if !ok {
			return true
		}
		fmt.Fprintf(w, "\t%s = %s\n", lhs, lit)
		g.res.Inputs[n.Path] = lit
		return true
	case "slice":
		ln, ok := g.intLit(n.Term)
		if !ok {
			return true
		}
		l, _ := strconv.Atoi(ln)
		if l > 8 || l < 0 {
			g.why = "slice input longer than 8 elements in the model"
			return false
		}
		fmt.Fprintf(w, "\t%s = make(%s, %d)\n", lhs, g.typeStr(n.T), l)
		for i := 0; i < l && i < len(n.Kids); i++ {
			g.emit(n.Kids[i], fmt.Sprintf("%s[%d]", lhs, i), w)
		}
		g.res.Inputs["len("+n.Path+")"] = ln
		return true
	}
	return true
}

func isBasic(t types.Type) bool { _, ok := t.Underlying().(*types.Basic); return ok }

// observe generates code printing the post-state of scalar nodes and records predictions.
func (g *replayGen) observe(n *rNode, expr string, w *strings.Builder, guardNil bool) {
	switch n.Kind {
	case "int", "bool", "string", "float", "time":
		if len(n.Out) <= g.taken || n.Out[g.taken] == "" {
			return
		}
		_, show, ok := g.scalarLit(n, n.Out[g.taken])
		if !ok {
			return
		}
		g.res.Predicted[n.Path] = show
		g.obsStmt(n, n.Path, expr, w)
	case "ptr":
		ref, ok := g.intLit(n.Term)
		if !ok || ref == "0" {
			return
		}
		pt := n.T.Underlying().(*types.Pointer)
		v := g.objs[typeKey(pt.Elem())+"/"+ref]
		if v == "" {
			return
		}
		for _, k := range n.Kids {
			name := k.Path[len(n.Path):]
			g.observe(k, v+name, w, true)
		}
	case "struct":
		for _, k := range n.Kids {
			name := k.Path[len(n.Path):]
			g.observe(k, expr+name, w, guardNil)
		}
	}
}

func (g *replayGen) obsStmt(n *rNode, key, expr string, w *strings.Builder) {
	switch n.Kind {
	case "int":
		fmt.Fprintf(w, "\tfunc() { defer func() { recover() }(); obs[%q] = fmt.Sprint(%s) }()\n", key, expr)
	case "bool":
		fmt.Fprintf(w, "\tfunc() { defer func() { recover() }(); obs[%q] = fmt.Sprint(bool(%s)) }()\n", key, expr)
	case "string":
		fmt.Fprintf(w, "\tfunc() { defer func() { recover() }(); obs[%q] = strconv.Quote(string(%s)) }()\n", key, expr)
		g.imports["strconv"] = "strconv"
	case "float":
		fmt.Fprintf(w, "\tfunc() { defer func() { recover() }(); obs[%q] = strconv.FormatFloat(float64(%s), 'g', -1, 64) }()\n", key, expr)
		g.imports["strconv"] = "strconv"
	case "time":
		fmt.Fprintf(w, "\tfunc() { defer func() { recover() }(); obs[%q] = fmt.Sprint((%s).UnixNano()) }()\n", key, expr)
	}
}

func (g *replayGen) generate() (string, bool) {
	pl := g.pl
	sig := pl.fi.Sig
	var body strings.Builder
	var argNames []string
	recvName := ""
	for i, n := range pl.nodes {
		name := fmt.Sprintf("in%d", i)
		fmt.Fprintf(&body, "\tvar %s %s\n", name, g.typeStr(n.T))
		if !g.emit(n, name, &body) {
			return "", false
		}
		if sig.Recv() != nil && i == 0 {
			recvName = name
		} else {
			argNames = append(argNames, name)
		}
	}
	// the call
	var call string
	if recvName != "" {
		call = recvName + "." + pl.fi.Obj.Name()
	} else {
		call = pl.fi.Obj.Name()
	}
	args := strings.Join(argNames, ", ")
	if sig.Variadic() && len(argNames) > 0 {
		args += "..."
	}
	nres := sig.Results().Len()
	var resNames []string
	for i := 0; i < nres; i++ {
		resNames = append(resNames, fmt.Sprintf("res%d", i))
	}
	body.WriteString("\tobs := map[string]string{}\n")
	for i := 0; i < nres; i++ {
		fmt.Fprintf(&body, "\tvar res%d %s\n\t_ = res%d\n", i, g.typeStr(sig.Results().At(i).Type()), i)
	}
	body.WriteString("\tfunc() {\n\t\tdefer func() { if r := recover(); r != nil { obs[\"$panic\"] = fmt.Sprint(r) } }()\n")
	if nres > 0 {
		fmt.Fprintf(&body, "\t\t%s = %s(%s)\n", strings.Join(resNames, ", "), call, args)
	} else {
		fmt.Fprintf(&body, "\t\t%s(%s)\n", call, args)
	}
	body.WriteString("\t}()\n")
	// observations: heap-resident inputs after the call
	for i, n := range pl.nodes {
		g.observe(n, fmt.Sprintf("in%d", i), &body, false)
	}
	// results
	if g.taken < len(pl.resNodes) {
		for i, n := range pl.resNodes[g.taken] {
			if n == nil {
				continue
			}
			switch n.Kind {
			case "int", "bool", "string", "float", "time":
				_, show, ok := g.scalarLit(n, n.Term)
				if ok {
					g.res.Predicted[n.Path] = show
					g.obsStmt(n, n.Path, fmt.Sprintf("res%d", i), &body)
				}
			case "ptr", "iface":
				if n.Kind == "ptr" {
					if ref, ok := g.intLit(n.Term); ok {
						isnil := "false"
						if ref == "0" {
							isnil = "true"
						}
						g.res.Predicted[n.Path+"==nil"] = isnil
						fmt.Fprintf(&body, "\tobs[%q] = fmt.Sprint(res%d == nil)\n", n.Path+"==nil", i)
					}
				}
			}
		}
	}
	var src strings.Builder
	fmt.Fprintf(&src, "package %s\n\nimport (\n\t\"encoding/json\"\n\t\"fmt\"\n\t\"testing\"\n", pl.testPkg.Name())
	paths := make([]string, 0, len(g.imports))
	for p := range g.imports {
		paths = append(paths, p)
	}
	sort.Strings(paths)
	for _, p := range paths {
		if p == "fmt" || p == "testing" || p == "encoding/json" {
			continue
		}
		fmt.Fprintf(&src, "\t%s %q\n", g.imports[p], p)
	}
	src.WriteString(")\n\nfunc TestGovcReplay(t *testing.T) {\n")
	src.WriteString(body.String())
	src.WriteString("\tdata, _ := json.Marshal(obs)\n\tfmt.Println(\"GOVC-OBSERVED \" + string(data))\n}\n")
	return src.String(), true
}


// mentionsNamedResult: does the clause text use one of the function's named results?
func mentionsNamedResult(ex *Exec, text string) bool {
	if ex == nil || ex.fn == nil || ex.fn.Obj == nil {
		return false
	}
	sig, ok := ex.fn.Obj.Type().(*types.Signature)
	if !ok {
		return false
	}
	for i := 0; i < sig.Results().Len(); i++ {
		if n := sig.Results().At(i).Name(); n != "" && n != "_" && regexp.MustCompile(`\b`+regexp.QuoteMeta(n)+`\b`).MatchString(text) {
			return true
		}
	}
	return false
}
