package types

// Bounded stand-in (NOT a proof): cross-checks the ASSUMED contract of (*Payload).Set
// (/verif/contracts/types/verif_contracts.go) against the real function, exhaustively over
// every key of the metadataFields table plus non-metadata keys, a value of every dynamic type
// the callers use (and some they do not), and three starting payloads.
// Bound: |keys| = len(metadataFields)+3, |values| = 14, |start states| = 3.
// Run by govc (thorough tier) through `go test -overlay`; nothing is written under /repo.

import (
	"fmt"
	"reflect"
	"testing"
)

type standinFieldKind int

const (
	sfString standinFieldKind = iota
	sfInt64
	sfBool
)

// the table the contract is written from: metadata key -> (struct field, kind)
var standinSetFields = map[string]struct {
	field string
	kind  standinFieldKind
}{
	MetaSignalType:                 {"MetaSignalType", sfString},
	MetaTraceID:                    {"MetaTraceID", sfString},
	MetaAnnotationType:             {"MetaAnnotationType", sfString},
	MetaRefineryIncomingUserAgent:  {"MetaRefineryIncomingUserAgent", sfString},
	MetaRefineryLocalHostname:      {"MetaRefineryLocalHostname", sfString},
	MetaRefineryReason:             {"MetaRefineryReason", sfString},
	MetaRefinerySendReason:         {"MetaRefinerySendReason", sfString},
	MetaRefinerySampleKey:          {"MetaRefinerySampleKey", sfString},
	MetaSpanEventCount:             {"MetaSpanEventCount", sfInt64},
	MetaSpanLinkCount:              {"MetaSpanLinkCount", sfInt64},
	MetaSpanCount:                  {"MetaSpanCount", sfInt64},
	MetaEventCount:                 {"MetaEventCount", sfInt64},
	MetaRefineryOriginalSampleRate: {"MetaRefineryOriginalSampleRate", sfInt64},
	MetaRefineryFinalSampleRate:    {"MetaRefineryFinalSampleRate", sfInt64},
	MetaRefineryProbe:              {"MetaRefineryProbe", sfBool},
	MetaRefineryRoot:               {"MetaRefineryRoot", sfBool},
	MetaStressed:                   {"MetaStressed", sfBool},
}

func standinStartPayloads() []func() *Payload {
	return []func() *Payload{
		func() *Payload { return &Payload{} },
		func() *Payload {
			p := &Payload{}
			for _, f := range standinSetFields {
				v := reflect.ValueOf(p).Elem().FieldByName(f.field)
				switch f.kind {
				case sfString:
					v.SetString("old-" + f.field)
				case sfInt64:
					v.SetInt(41)
				case sfBool:
					v.Set(reflect.ValueOf(nullableBool{HasValue: true, Value: true}))
				}
			}
			p.memoizedFields = map[string]any{"kept": "x", "other": int64(3)}
			return p
		},
		func() *Payload {
			p := &Payload{}
			p.MetaRefineryProbe = nullableBool{HasValue: true, Value: false}
			p.MetaStressed = nullableBool{HasValue: false, Value: false}
			p.memoizedFields = map[string]any{}
			return p
		},
	}
}

func TestVerifStandinPayloadSet(t *testing.T) {
	// the contract's key table must be the code's key table
	if len(standinSetFields) != len(metadataFields) {
		t.Fatalf("metadataFields has %d keys, the assumed contract of Set covers %d", len(metadataFields), len(standinSetFields))
	}
	for k := range metadataFields {
		if _, ok := standinSetFields[k]; !ok {
			t.Fatalf("metadata key %q is not covered by the assumed contract of Set", k)
		}
	}
	keys := []string{"some.field", "meta.refinery.dryrun.kept", ""}
	for k := range metadataFields {
		keys = append(keys, k)
	}
	values := []any{"", "v", "meta.stressed", true, false, int64(0), int64(7), int64(-3), int(5), uint(9), float64(1.5), nil, []byte("b"), uint64(1) << 40}
	cases := 0
	for si, mk := range standinStartPayloads() {
		for _, key := range keys {
			for _, val := range values {
				before, p := mk(), mk()
				p.Set(key, val)
				cases++
				where := fmt.Sprintf("start %d, Set(%q, %T(%v))", si, key, val, val)
				f, isMeta := standinSetFields[key]
				// every dedicated field: changed only if it is the addressed one and the dynamic type fits
				for k2, f2 := range standinSetFields {
					got := reflect.ValueOf(p).Elem().FieldByName(f2.field)
					old := reflect.ValueOf(before).Elem().FieldByName(f2.field)
					hit := isMeta && k2 == key
					switch f2.kind {
					case sfString:
						want := old.String()
						if s, ok := val.(string); ok && hit {
							want = s
						}
						if got.String() != want {
							t.Errorf("%s: %s = %q, contract says %q", where, f2.field, got.String(), want)
						}
					case sfInt64:
						want := old.Int()
						if n, ok := val.(int64); ok && hit {
							want = n
						}
						if got.Int() != want {
							t.Errorf("%s: %s = %d, contract says %d", where, f2.field, got.Int(), want)
						}
					case sfBool:
						o := old.Interface().(nullableBool)
						want := o
						if b, ok := val.(bool); ok && hit {
							want = nullableBool{HasValue: true, Value: b}
						}
						g := got.Interface().(nullableBool)
						if g.HasValue != (o.HasValue || (hit && isBoolVal(val))) || g.Value != want.Value {
							t.Errorf("%s: %s = %+v, contract says %+v", where, f2.field, g, want)
						}
					}
				}
				_ = f
				// the generic field map: untouched for a metadata key, key := value otherwise
				wantMemo := map[string]any{}
				for k, v := range before.memoizedFields {
					wantMemo[k] = v
				}
				if !isMeta {
					wantMemo[key] = val
				}
				if len(p.memoizedFields) != len(wantMemo) {
					t.Errorf("%s: memoizedFields has %d entries, contract says %d", where, len(p.memoizedFields), len(wantMemo))
				}
				for k, v := range wantMemo {
					if gv, ok := p.memoizedFields[k]; !ok || !reflect.DeepEqual(gv, v) {
						t.Errorf("%s: memoizedFields[%q] = %v (present %v), contract says %v", where, k, gv, ok, v)
					}
				}
			}
		}
	}
	t.Logf("STANDIN-CASES %d", cases)
}

func isBoolVal(v any) bool { _, ok := v.(bool); return ok }
